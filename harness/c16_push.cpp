// C16 — push queue: accepted values are delivered once, in order, within capacity.
// SCHED-X: the REAL real-time executor + push source run under the controlled scheduler of vsched.h (interposed pthread
// mutex/condvar/clock). Threads: E (executor run()), producers P1/P2 running scripts of try_send / send_blocking, optional
// stopper S. Every interleaving at synchronisation operations up to a preemption bound (iterative context bounding, prefix
// replay) and every timer-versus-event order on the virtual clock is executed; each complete execution is checked.
#include "vpch.h"
#include "vcommon.h"
#include "vsched.h"
#include "vexplore.h"
#include <hgraph/lib/testing/runtime_support.h>
#include <hgraph/runtime/push_source_node.h>
#include <climits>
using namespace hgraph;

namespace
{
    struct Send
    {
        int producer{0}; long value{0}; char kind{'t'}; bool result{false}; int source{0};
        std::uint64_t call_step{0}, return_step{0};
        long dequeue_started_at_call{0};
        bool stopping_before_return{false};     // the run was asked to stop / began stopping before the call returned
        bool stopped_before_call{false};        // the graph's stop had completed before the call began
    };
    struct World
    {
        // configuration
        std::size_t capacity{0};
        char policy{'q'};                      // q queue, b burst, c conflating
        std::vector<std::string> scripts[2];   // per producer: "t<v>" try_send, "b<v>" send_blocking
        int producers{1};
        int sources{1};                        // push sources in the graph (ops in UPPER case address the second one)
        bool stopper{false};
        // shared state (only one controlled thread runs at a time)
        PushSourceSender sender, sender2;
        bool sender_ready{false}, sender2_ready{false};
        bool run_returned{false};
        bool stop_requested{false};
        bool stop_returned{false};
        bool stop_slept_over{false};
        bool stopping{false};                  // on_before_stop_graph seen
        bool stopped{false};                   // on_after_stop_graph seen
        std::vector<Send> sends;
        struct Delivery { long time; long cycle; long value; int source{0}; };
        std::vector<Delivery> delivered;
        long cycles{0};
        long dequeue_started2{0};
        long dequeue_started{0};               // evaluations of the source node begun (upper bound of pops for queue policy)
        long accepted_returned{0};
        long inflight{0};
        bool forced_expiry_with_pending{false};
        std::string error;
        GraphExecutorValue *executor{nullptr};
    };
    World *W = nullptr;
    bool g_spurious = true;    // spurious wake-ups of condition waiters are offered as deviations (cost 1)
    std::uint64_t step() { return vs::S().steps; }

    void check_pending(const char *where)
    {
        if (W == nullptr || W->capacity == 0 || W->executor == nullptr || !W->error.empty() || W->stopping) return;
        for (int si = 0; si < W->sources; ++si)
        {
        auto metrics = W->executor->view().graph().node_at(static_cast<std::size_t>(si)).inspection_metrics();
        if (metrics.pending_items && *metrics.pending_items > W->capacity)
            W->error = "accepted but undelivered values (" + std::to_string(*metrics.pending_items) + ") exceed the capacity " + std::to_string(W->capacity) + " (" + where + ")";
        }
    }

    struct Observer final : LifecycleObserver
    {
        void on_before_graph_evaluation(const GraphView &) override { ++W->cycles; check_pending("before cycle"); }
        void on_before_node_evaluation(const NodeView &view) override { if (view.node_index() == 0) ++W->dequeue_started; else if (W->sources == 2 && view.node_index() == 1) ++W->dequeue_started2; }
        void on_after_graph_evaluation(const GraphView &) override { check_pending("after cycle"); }
        void on_before_stop_graph(const GraphView &) override { W->stopping = true; }
        void on_after_stop_graph(const GraphView &) override { W->stopped = true; }
        void on_stop_graph_failed(const GraphView &) override { W->stopped = true; }
    };

    NodeBuilder make_sink(const TSValueTypeMetaData &input_schema, const TSValueTypeMetaData &input_ts, bool burst, bool dict, int source = 0)
    {
        NodeTypeMetaData schema;
        schema.display_name = "c16_sink";
        schema.input_schema = &input_schema;
        schema.node_kind = NodeKind::Sink;
        NodeCallbacks callbacks;
        callbacks.evaluate = [burst, dict, source](const NodeView &view, DateTime evaluation_time) {
            auto root = view.input(evaluation_time);
            auto bundle = root.as_bundle();
            auto input = bundle[0];
            const long t = static_cast<long>(evaluation_time.time_since_epoch().count());
            if (dict)
            {
                // conflating dictionary: record every key present in the merged state the first time it is seen
                Value current{input.value()};
                const auto map = current.view().as_map();
                for (long k = 1; k <= 9; ++k)
                {
                    Value key{Int{k}};
                    if (!map.contains(key.view())) continue;
                    bool seen = false;
                    for (auto &d : W->delivered) if (d.value == k) seen = true;
                    if (!seen) W->delivered.push_back({t, W->cycles, k, source});
                }
            }
            else if (burst)
            {
                auto tuple = input.value().as_list();
                for (std::size_t i = 0; i < tuple.size(); ++i) W->delivered.push_back({t, W->cycles, static_cast<long>(tuple[i].checked_as<Int>()), source});
            }
            else W->delivered.push_back({t, W->cycles, static_cast<long>(input.value().checked_as<Int>()), source});
        };
        return NodeBuilder::native(std::move(schema), std::move(callbacks), testing::single_input_endpoint(input_schema, input_ts));
    }

    using vs::ExecResult;

    std::vector<long> script_values(const World &w)
    {
        std::vector<long> out;
        for (int p = 0; p < w.producers; ++p) for (auto &op : w.scripts[p]) out.push_back(std::stol(op.substr(1)));   // (upper-case kinds address the second source)
        return out;
    }

    /** One complete execution under the given choice prefix. */
    ExecResult execute(const World &config, const std::vector<int> &prefix, std::vector<vs::ChoicePoint> &trace_out)
    {
        World world = config;
        W = &world;
        const bool burst = world.policy == 'b';
        const bool dict = world.policy == 'd';
        const auto *ts_out = burst ? ts_type<TS<HomogeneousTuple<Int>>>() : dict ? ts_type<TSD<Int, TS<Int>>>() : ts_type<TS<Int>>();
        const auto *input_schema = testing::single_input_schema(*ts_out);
        PushSourcePolicy policy = world.policy == 'q' ? make_push_source_queue_policy(*ts_out, world.capacity)
                                : burst ? make_push_source_burst_policy(*ts_out, world.capacity)
                                        : make_push_source_conflating_policy(*ts_out);
        auto payload = [dict](char kind, long v) -> Value {
            if (!dict) return Value{Int{v}};
            if (kind == 'x') return dict_delta<Int, TS<Int>>({}, {Int{v}});          // removal of a key that is not there: a legal no-op
            return dict_delta<Int, TS<Int>>({{Int{v}, Int{v}}});
        };
        GraphBuilder builder;
        builder.add_node(make_push_source_node(*ts_out, std::move(policy), [](PushSourceSender s) { W->sender = std::move(s); W->sender_ready = true; }));
        if (world.sources == 2)
        {
            PushSourcePolicy policy2 = world.policy == 'q' ? make_push_source_queue_policy(*ts_out, world.capacity) : burst ? make_push_source_burst_policy(*ts_out, world.capacity) : make_push_source_conflating_policy(*ts_out);
            builder.add_node(make_push_source_node(*ts_out, std::move(policy2), [](PushSourceSender s) { W->sender2 = std::move(s); W->sender2_ready = true; }));
            builder.add_node(make_sink(*input_schema, *ts_out, burst, dict, 0));
            builder.add_node(make_sink(*input_schema, *ts_out, burst, dict, 1));
            builder.add_edge(GraphEdge{.source_node = make_graph_edge_source(0), .source_path = {}, .target_node = 2, .target_path = {0}});
            builder.add_edge(GraphEdge{.source_node = make_graph_edge_source(1), .source_path = {}, .target_node = 3, .target_path = {0}});
        }
        else
        {
            builder.add_node(make_sink(*input_schema, *ts_out, burst, dict));
            builder.add_edge(GraphEdge{.source_node = make_graph_edge_source(0), .source_path = {}, .target_node = 1, .target_path = {0}});
        }
        const DateTime start_time = DateTime{std::chrono::microseconds{1'700'000'000'000'000LL}};
        const std::int64_t start_ns = 1'700'000'000'000'000LL * 1000;
        Observer observer;
        GraphExecutorBuilder eb;
        eb.graph_builder(std::move(builder)).mode(GraphExecutorMode::RealTime).start_time(start_time).end_time(start_time + TimeDelta{1'000'000}).max_wait_slice(TimeDelta{400'000}).add_lifecycle_observer(&observer);
        auto *executor = new GraphExecutorValue(eb.make_executor());
        world.executor = executor;

        // payloads are built before the controlled run: constructing a Value takes type-registry locks that are not the subject here
        std::vector<std::vector<Value>> payloads(2);
        for (int p = 0; p < world.producers; ++p) for (auto &op : world.scripts[p]) payloads[static_cast<std::size_t>(p)].push_back(payload(static_cast<char>(std::tolower(op[0])), std::stol(op.substr(1))));
        std::vector<std::function<void()>> bodies;
        bodies.push_back([&] {
            try { executor->view().run(); }
            catch (const std::exception &e) { if (world.error.empty()) world.error = std::string{"run() threw: "} + e.what(); }
            world.run_returned = true;
        });
        for (int p = 0; p < world.producers; ++p)
            bodies.push_back([&, p] {
                vs::gate([&] { return (world.sender_ready && (world.sources == 1 || world.sender2_ready)) || world.run_returned; });
                for (std::size_t oi = 0; oi < world.scripts[p].size(); ++oi)
                {
                    auto &op = world.scripts[p][oi];
                    Value &pv = payloads[static_cast<std::size_t>(p)][oi];
                    Send s; s.producer = p; s.kind = static_cast<char>(std::tolower(op[0])); s.source = std::isupper(static_cast<unsigned char>(op[0])) ? 1 : 0; s.value = std::stol(op.substr(1));
                    const PushSourceSender &target = s.source == 1 ? world.sender2 : world.sender;
                    s.call_step = step(); s.dequeue_started_at_call = s.source == 1 ? world.dequeue_started2 : world.dequeue_started;
                    s.stopped_before_call = world.stopped || world.run_returned;
                    ++world.inflight;
                    try { s.result = s.kind == 'b' ? target.send_blocking(std::move(pv)) : target.try_send(std::move(pv)); }
                    catch (const std::exception &e) { if (world.error.empty()) world.error = std::string{"send threw: "} + e.what(); s.result = false; }
                    --world.inflight;
                    s.return_step = step();
                    s.stopping_before_return = world.stop_requested || world.stopping || world.run_returned;
                    if (s.result) ++world.accepted_returned;
                    world.sends.push_back(s);
                    check_pending("after send");
                }
            });
        if (world.stopper)
            bodies.push_back([&] {
                vs::gate([&] { return world.sender_ready || world.run_returned; });
                world.stop_requested = true;
                executor->view().request_stop();
                world.stop_returned = true;
            });
        vs::S().on_expiry = [&](bool forced) {
            if (forced && world.stop_returned && !world.stopping && !world.run_returned) world.stop_slept_over = true;
            if (!forced || world.stopping || world.stop_requested || world.run_returned) return;
            if (world.policy == 'd')
            {
                for (auto &sd : world.sends)
                {
                    if (!sd.result || sd.kind == 'x') continue;
                    bool seen = false;
                    for (auto &d : world.delivered) if (d.value == sd.value) seen = true;
                    if (!seen) world.forced_expiry_with_pending = true;
                }
            }
            else if (world.policy != 'c' && (world.accepted_returned + world.inflight) > static_cast<long>(world.delivered.size()))
                world.forced_expiry_with_pending = true;
        };
        vs::S().spurious = getenv("VS_SPURIOUS") != nullptr || g_spurious;
        trace_out = vs::run_controlled(std::move(bodies), prefix, start_ns);
        vs::S().on_expiry = nullptr;
        W = nullptr;
        auto &s = vs::S();
        if (!s.deadlock) delete executor;   // a wedged execution leaks its executor: its threads are parked inside it

        ExecResult r;
        std::ostringstream oc;
        oc << "d=";
        long last_cycle = -1;
        for (auto &d : world.delivered) { oc << (d.cycle != last_cycle && last_cycle != -1 ? "|" : "") << d.value << ","; last_cycle = d.cycle; }
        oc << " r=";
        for (auto &sd : world.sends) oc << sd.producer << sd.kind << (sd.source ? "'" : "") << sd.value << (sd.result ? "+" : "-") << ",";
        r.outcome = oc.str();
        if (s.failure.rfind("replay divergence", 0) == 0) throw verif::HarnessError(s.failure + " (the harness does not control some source of nondeterminism)");
        if (!s.failure.empty()) { r.violation = s.failure; return r; }
        if (!world.error.empty()) { r.violation = world.error; return r; }
        // ---- history checks ------------------------------------------------------------------------------------------
        const auto all_values = script_values(world);
        std::map<long, const Send *> by_value;
        for (auto &sd : world.sends) by_value[sd.value] = &sd;
        std::map<long, std::size_t> pos;
        long last_t = LONG_MIN; last_cycle = -1;
        for (std::size_t i = 0; i < world.delivered.size(); ++i)
        {
            auto &d = world.delivered[i];
            if (pos.count(d.value)) { r.violation = "value " + std::to_string(d.value) + " was delivered twice"; return r; }
            pos[d.value] = i;
            if (std::find(all_values.begin(), all_values.end(), d.value) == all_values.end()) { r.violation = "value " + std::to_string(d.value) + " was delivered but never sent"; return r; }
            if (by_value.count(d.value) && by_value[d.value]->kind == 'x') { r.violation = "key " + std::to_string(d.value) + " appeared although it was only ever removed"; return r; }
            if (by_value.count(d.value) && by_value[d.value]->source != d.source) { r.violation = "value " + std::to_string(d.value) + " was sent to source " + std::to_string(by_value[d.value]->source) + " but delivered by source " + std::to_string(d.source); return r; }
            if (by_value.count(d.value) && !by_value[d.value]->result) { r.violation = "value " + std::to_string(d.value) + " was delivered although its send was refused"; return r; }
            if (d.cycle != last_cycle)
            {
                if (d.time <= last_t && world.delivered[i - 1].cycle != d.cycle) { r.violation = "deliveries are not in strictly increasing engine times (" + std::to_string(last_t) + " then " + std::to_string(d.time) + ")"; return r; }
            }
            else if (!burst && !dict && world.delivered[i - 1].source == d.source) { r.violation = "two values (" + std::to_string(world.delivered[i - 1].value) + ", " + std::to_string(d.value) + ") were delivered in one engine cycle"; return r; }
            last_t = d.time; last_cycle = d.cycle;
        }
        // acceptance order: same producer in program order, or A returned before B was called  =>  A is delivered before B,
        // and B delivered implies A delivered (prefix). Conflation may drop A (superseded) but never reorders.
        for (auto &a : world.sends) for (auto &b : world.sends)
        {
            if (&a == &b || !a.result || !b.result || dict || a.source != b.source) continue;
            const bool a_before_b = (a.producer == b.producer && a.call_step < b.call_step) || a.return_step < b.call_step;
            if (!a_before_b) continue;
            if (world.policy != 'c' && pos.count(b.value) && !pos.count(a.value)) { r.violation = "value " + std::to_string(b.value) + " was delivered but the earlier accepted value " + std::to_string(a.value) + " was not (not a prefix of the acceptance order)"; return r; }
            if (pos.count(a.value) && pos.count(b.value) && pos[a.value] > pos[b.value]) { r.violation = "values " + std::to_string(a.value) + " and " + std::to_string(b.value) + " were delivered out of acceptance order"; return r; }
        }
        // refusals / acceptance after stop
        for (auto &sd : world.sends)
        {
            if (sd.result && sd.stopped_before_call) { r.violation = "value " + std::to_string(sd.value) + " was accepted after the source had stopped"; return r; }
            if (sd.result || sd.stopping_before_return) continue;
            if (sd.kind == 'b') { r.violation = "send_blocking(" + std::to_string(sd.value) + ") failed although the source had not stopped"; return r; }
            if (world.capacity == 0 || world.policy == 'c' || dict) { r.violation = "try_send(" + std::to_string(sd.value) + ") was refused by an unbounded source that had not stopped"; return r; }
            // upper bound of the queue occupancy at any moment of the call: accepted sends that began before it returned,
            // minus pops certainly completed before it began (source evaluations begun strictly earlier, less the one possibly in flight)
            long accepted_by_return = 0;
            for (auto &o : world.sends) if (o.result && o.source == sd.source && o.call_step <= sd.return_step) ++accepted_by_return;
            const long popped_lower = burst ? 0 : std::max(0L, sd.dequeue_started_at_call - 1);
            const long upper = accepted_by_return - popped_lower;
            if (upper < static_cast<long>(world.capacity)) { r.violation = "try_send(" + std::to_string(sd.value) + ") was refused although the queue cannot have been full (at most " + std::to_string(upper) + " of " + std::to_string(world.capacity) + " pending)"; return r; }
        }
        if (world.stop_slept_over) { r.violation = "request_stop() had returned but the evaluation loop slept on until its wait slice expired (missed stop)"; return r; }
        if (world.forced_expiry_with_pending) { r.violation = "an accepted value was left pending while the evaluation loop slept until its wait slice expired (lost wake-up)"; return r; }
        // every accepted value is delivered when the run was not stopped and not cut by the end time
        bool expiry_chosen = false;
        for (auto &cp : trace_out) { const int o = cp.options[static_cast<std::size_t>(cp.chosen_index)]; if (o >= 1000 && o < 2000) expiry_chosen = true; }
        if (!world.stop_requested && !expiry_chosen)
        {
            if (world.policy != 'c')
            {
                for (auto &sd : world.sends) if (sd.result && sd.kind != 'x' && !pos.count(sd.value)) { r.violation = "accepted value " + std::to_string(sd.value) + " was never delivered although the run was neither stopped nor cut by its end time"; return r; }
            }
            else
            {
                // conflating: some accepted value that no other accepted value certainly follows must be the last one delivered
                bool any_accepted = false, ok = false;
                for (auto &a : world.sends)
                {
                    if (!a.result) continue;
                    any_accepted = true;
                    bool followed = false;
                    for (auto &b : world.sends) if (&a != &b && b.result && ((a.producer == b.producer && a.call_step < b.call_step) || a.return_step < b.call_step)) followed = true;
                    if (!followed && !world.delivered.empty() && world.delivered.back().value == a.value) ok = true;
                }
                if (any_accepted && !ok) { r.violation = "conflating source: the latest accepted value was never delivered (last delivered: " + (world.delivered.empty() ? std::string{"nothing"} : std::to_string(world.delivered.back().value)) + ")"; return r; }
            }
        }
        return r;
    }

    // desc: pol=<q|b|c>;cap=<n>;p=<script0>/<script1>;stop=<0|1>;bound=<b>[;prefix=<a,b,c>]
    using vs::split;
    World parse_config(const std::string &desc, int &bound, std::vector<int> &prefix, bool &has_prefix)
    {
        World w;
        has_prefix = false;
        for (auto &f : split(desc, ';'))
        {
            auto eq = f.find('=');
            if (eq == std::string::npos) continue;
            const std::string k = f.substr(0, eq), v = f.substr(eq + 1);
            if (k == "cap") w.capacity = std::stoul(v);
            else if (k == "pol") w.policy = v.empty() ? 'q' : v[0];
            else if (k == "stop") w.stopper = v == "1";
            else if (k == "src") w.sources = std::stoi(v);
            else if (k == "bound") bound = std::stoi(v);
            else if (k == "p")
            {
                auto parts = split(v, '/');
                w.producers = static_cast<int>(parts.size());
                for (int p = 0; p < w.producers && p < 2; ++p) for (auto &t : split(parts[static_cast<std::size_t>(p)], ',')) if (!t.empty()) w.scripts[p].push_back(t);
            }
            else if (k == "prefix") { has_prefix = true; for (auto &t : split(v, ',')) if (!t.empty()) prefix.push_back(std::stoi(t)); }
        }
        return w;
    }
}  // namespace

static void warm_up();
void verif_init()
{
    stdlib::register_standard_operators();
    vs::S().warmup = [] { warm_up(); };
    warm_up();
}
static void warm_up()
{
    // one throw-away execution so that lazily built process-wide singletons exist before the explored executions
    int b; std::vector<int> p; bool hp;
    std::vector<vs::ChoicePoint> trace;
    // (worker threads persist across executions and the runtime keeps per-thread type caches: every worker sends once here)
    for (const char *d : {"pol=q;cap=2;p=t1,b2/t3,b4;stop=1", "pol=b;cap=2;p=t1,b2/t3,b4;stop=1", "pol=c;cap=0;p=t1,b2/t3,b4;stop=1", "pol=d;cap=0;p=t1,x9,b2/x8,t3,b4;stop=1", "pol=q;cap=1;p=b1,b2/b3,b4;stop=0", "pol=q;src=2;cap=2;p=t1,B2/T3,b4;stop=1"}) (void)execute(parse_config(d, b, p, hp), {}, trace);
}

std::optional<std::string> verif_run_case(verif::Ctx &, const std::string &desc)
{
    int bound = 2; std::vector<int> prefix; bool has_prefix = false;
    World w = parse_config(desc, bound, prefix, has_prefix);
    if (has_prefix) { std::vector<vs::ChoicePoint> trace; return execute(w, prefix, trace).violation; }
    vs::Explorer ex; ex.bound = bound;
    ex.exec = [&](const std::vector<int> &p, std::vector<vs::ChoicePoint> &t) { return execute(w, p, t); };
    ex.explore({});
    if (getenv("VERIF_STATS")) fprintf(stderr, "executions=%llu outcomes=%zu max_cp=%llu\n", (unsigned long long)ex.executions, ex.outcomes.size(), (unsigned long long)ex.max_choice_points);
    return ex.violation;
}

void verif_enumerate(verif::Ctx &ctx)
{
    const bool th = ctx.thorough();
    ctx.max_samples = 200;
    std::vector<std::string> configs;
    for (const char *p : {"t1", "x9,t1", "x9,t1,t2", "x9/t1", "t1,x9/b2", "x9,b1/x8,t2"})
        for (int stop : {0, 1})
        {
            const std::string ps = p;
            const int sends = static_cast<int>(std::count(ps.begin(), ps.end(), 't') + std::count(ps.begin(), ps.end(), 'b') + std::count(ps.begin(), ps.end(), 'x'));
            const bool small = sends <= 2 || (stop == 0 && sends <= 3);
            configs.push_back(std::string{"pol=d;cap=0;p="} + ps + ";stop=" + std::to_string(stop) + ";bound=" + std::to_string(th ? (small ? 3 : 2) : (small ? 2 : 1)));
        }
    // two push sources in one graph: a backlog on the first must not be swallowed by the second one's turn in the push phase
    for (const char *p : {"t1,t2", "b1,b2,T3", "t1,t2/T3", "b1,b2/B3", "T1,T2/t3"})
        for (std::size_t cap : {std::size_t{0}, std::size_t{2}})
            for (int stop : {0, 1})
            {
                const std::string ps = p;
                const int sends = static_cast<int>(std::count_if(ps.begin(), ps.end(), [](char ch) { return std::isalpha(static_cast<unsigned char>(ch)) != 0; }));
                const bool small = sends <= 2 || (stop == 0 && sends <= 3);
                configs.push_back(std::string{"pol=q;src=2;cap="} + std::to_string(cap) + ";p=" + ps + ";stop=" + std::to_string(stop) + ";bound=" + std::to_string(th ? (small ? 3 : 2) : (small ? 2 : 1)));
            }
    for (const char *pol : {"q", "b", "c"})
        for (std::size_t cap : {std::size_t{1}, std::size_t{2}, std::size_t{0}})
            for (const char *p : {"t1", "b1,b2", "t1,t2", "t1/t2", "b1/b2", "b1,b2/t3", "t1,b2/b3", "b1,b2/b3,b4", "b1,b2,b3/b4"})
                for (int stop : {0, 1})
                {
                    const std::string ps = p;
                    if (pol[0] == 'c' && cap != 0) continue;
                    if (!th && pol[0] != 'q' && (ps == "t1" || ps == "t1,t2" || ps == "t1,b2/b3")) continue;
                    const int sends = static_cast<int>(std::count(ps.begin(), ps.end(), 't') + std::count(ps.begin(), ps.end(), 'b'));
                    const bool small = sends <= 2 || (stop == 0 && sends <= 3);
                    const int bound = th ? (small ? 3 : 2) : (small ? 2 : 1);
                    configs.push_back(std::string{"pol="} + pol + ";cap=" + std::to_string(cap) + ";p=" + ps + ";stop=" + std::to_string(stop) + ";bound=" + std::to_string(bound));
                }
    for (auto &desc : configs)
    {
        int b = 2; std::vector<int> prefix; bool hp = false;
        World w = parse_config(desc, b, prefix, hp);
        vs::explore_config(ctx, desc, b, th ? 30000000 : 3000000, [&](const std::vector<int> &p, std::vector<vs::ChoicePoint> &t) { return execute(w, p, t); });
    }
}

VERIF_MAIN()
