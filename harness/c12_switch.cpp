// C12 — switch_ output follows only the selected branch, which starts fresh.
// Scripted key / input writers drive the real stdlib::switch_ for every history of (key tick in {-,1,2,8,9}) x (input tick)
// over T cycles, with several branch tables (stateful counter, doubler, self-scheduling debounce, key-consuming, set
// accumulating TSS output), with and without a default branch, with and without reload(). Oracle = differential: the history
// is cut into branch lives (new life on a key CHANGE, or on any key tick under reload); each life's branch is run ALONE on
// the real engine on "held input sampled at the switch cycle, then the input's ticks" up to the next switch; the switch
// output must tick exactly where the alone runs tick, with the same values, and hold the current life's last value in every
// cycle; an unmatched key with no default must make run() throw.
#include "tsshapes.h"
using namespace hgraph;
using namespace tsshapes;

namespace
{
    struct Sample { long t; bool valid, modified; std::string value; };
    struct Run
    {
        std::vector<std::string> kscript, iscript;   // "" or "v<k>"
        int cycles{0};
        std::vector<std::string> bscript2;            // second value input (two-input branches)
        std::vector<Sample> samples;                 // every cycle, switch output (or alone output)
    };
    Run *g = nullptr;

    struct TsWriter
    {
        static constexpr auto name = "c12_ts_writer";
        static constexpr bool schedule_on_start = true;
        static void eval(NodeScheduler sched, Scalar<"which", Int> which, DateTime now, Out<TS<Int>> out)
        {
            const long c = rel(now);
            const auto &sc = which.value() == 0 ? g->kscript : g->iscript;
            if (c < static_cast<long>(sc.size())) { const std::string &op = sc[static_cast<std::size_t>(c)]; if (!op.empty()) out.set(Int{std::stol(op.substr(1))}); }
            if (c + 1 < static_cast<long>(sc.size())) sched.schedule(MIN_TD);
        }
    };
    template <typename S>
    struct EveryProbe
    {
        static constexpr auto name = "c12_every_probe";
        static constexpr bool schedule_on_start = true;
        static void eval(In<"x", S, InputActivity::Passive, InputValidity::Unchecked> x, NodeScheduler sched, DateTime now)
        {
            const long c = rel(now);
            const TSInputView &v = x.base();
            g->samples.push_back(Sample{c, v.valid(), v.modified(), v.valid() ? canon(v.value().to_string()) : std::string{"-"}});
            if (c + 1 < g->cycles + 6) sched.schedule(MIN_TD);
        }
    };

    // ---- branches ---------------------------------------------------------------------------------------------------
    struct NCounter
    {
        static constexpr auto name = "c12_counter";
        static void start(State<Int> n) { n.set(Int{0}); }
        static void eval(In<"ts", TS<Int>> ts, State<Int> n, Out<TS<Int>> out) { n.set(n.get() + 1); out.set(n.get() * 1000 + ts.value()); }
    };
    struct NDouble { static constexpr auto name = "c12_double"; static void eval(In<"ts", TS<Int>> ts, Out<TS<Int>> out) { out.set(ts.value() * 2); } };
    struct NTimer
    {
        static constexpr auto name = "c12_timer";
        static void eval(In<"ts", TS<Int>> ts, NodeScheduler sched, Out<TS<Int>> out)
        {
            if (ts.modified()) { out.set(ts.value()); sched.schedule(MIN_TD * 2, std::string{"d"}); }
            else out.set(ts.value() + 500);
        }
    };
    struct NKey { static constexpr auto name = "c12_key"; static void eval(In<"key", TS<Int>> key, In<"ts", TS<Int>> ts, Out<TS<Int>> out) { out.set(key.value() * 100 + ts.value()); } };
    struct NAccum { static constexpr auto name = "c12_accum"; static void eval(In<"ts", TS<Int>> ts, Out<TSS<Int>> out) { (void)out.add(ts.value()); } };
    struct NSingle { static constexpr auto name = "c12_single"; static void eval(In<"ts", TS<Int>> ts, Out<TSS<Int>> out) { out.clear(); (void)out.add(ts.value() + 100); } };

    // a terminal that keeps its running total in ITS OWN OUTPUT (reads it back before writing): a fresh instance starts from nothing
    struct NOwnAcc { static constexpr auto name = "c12_own_acc"; static void eval(In<"ts", TS<Int>> ts, Out<TS<Int>> out) { out.set(out.valid() ? Int{out.value().template checked_as<Int>() + ts.value()} : Int{ts.value()}); } };
    struct BOwn1 { static constexpr auto name = "c12_b_own1"; static Port<TS<Int>> compose(Wiring &w, Port<TS<Int>> ts) { return wire<NOwnAcc>(w, ts); } };
    struct BOwn2 { static constexpr auto name = "c12_b_own2"; static Port<TS<Int>> compose(Wiring &w, Port<TS<Int>> ts) { return wire<NOwnAcc>(w, wire<NDouble>(w, ts)); } };
    struct BCounter { static constexpr auto name = "c12_b_counter"; static Port<TS<Int>> compose(Wiring &w, Port<TS<Int>> ts) { return wire<NCounter>(w, ts); } };
    struct BCounterD { static constexpr auto name = "c12_b_counter_default"; static Port<TS<Int>> compose(Wiring &w, Port<TS<Int>> ts) { return wire<NCounter>(w, wire<NDouble>(w, ts)); } };
    struct BDouble { static constexpr auto name = "c12_b_double"; static Port<TS<Int>> compose(Wiring &w, Port<TS<Int>> ts) { return wire<NDouble>(w, ts); } };
    struct BTimer { static constexpr auto name = "c12_b_timer"; static Port<TS<Int>> compose(Wiring &w, Port<TS<Int>> ts) { return wire<NTimer>(w, ts); } };
    struct BKey { static constexpr auto name = "c12_b_key"; static Port<TS<Int>> compose(Wiring &w, NamedPort<"key", TS<Int>> key, Port<TS<Int>> ts) { return wire<NKey>(w, key, ts); } };
    struct BAccum { static constexpr auto name = "c12_b_accum"; static Port<TSS<Int>> compose(Wiring &w, Port<TS<Int>> ts) { return wire<NAccum>(w, ts); } };
    struct BSingle { static constexpr auto name = "c12_b_single"; static Port<TSS<Int>> compose(Wiring &w, Port<TS<Int>> ts) { return wire<NSingle>(w, ts); } };

    // table id -> (key 1 branch, key 2 branch, default branch)
    enum Br { COUNTER, COUNTERD, DOUBLE, TIMER, KEY, ACCUM, SINGLE, OWN1, OWN2, NONE };
    struct Table { Br k1, k2, dflt; bool tss; };
    Table table_of(char id, bool with_default)
    {
        switch (id)
        {
            case 'a': return {COUNTER, DOUBLE, with_default ? COUNTERD : NONE, false};
            case 'b': return {TIMER, COUNTER, with_default ? TIMER : NONE, false};
            case 'c': return {KEY, COUNTER, with_default ? KEY : NONE, false};
            case 's': return {ACCUM, SINGLE, with_default ? ACCUM : NONE, true};
            case 'o': return {OWN1, OWN2, with_default ? OWN1 : NONE, false};
        }
        throw verif::HarnessError("bad table");
    }
    WiredFn fn_of(Br b)
    {
        switch (b)
        {
            case COUNTER: return fn<BCounter>(); case COUNTERD: return fn<BCounterD>(); case DOUBLE: return fn<BDouble>(); case TIMER: return fn<BTimer>();
            case KEY: return fn<BKey>(); case ACCUM: return fn<BAccum>(); case SINGLE: return fn<BSingle>(); case OWN1: return fn<BOwn1>(); case OWN2: return fn<BOwn2>(); case NONE: break;
        }
        throw verif::HarnessError("no branch");
    }

    /** The branch run alone: input stream = iscript of the temporary Run; key (for key-consuming branches) constant. */
    std::vector<Sample> run_alone(Br b, const std::vector<std::string> &elem, const std::vector<std::string> &key_elem, long horizon, bool tss)
    {
        Run run;
        run.iscript = elem;
        run.kscript = key_elem;   // a key-consuming branch also sees every tick of the key (same value) during its life
        run.cycles = static_cast<int>(horizon) - 6 > 0 ? static_cast<int>(horizon) - 6 : 0;
        Run *saved = g;
        g = &run;
        try
        {
            Wiring w;
            auto ts = wire<TsWriter>(w, Int{1});
            if (tss)
            {
                Port<TSS<Int>> o = b == ACCUM ? wire<NAccum>(w, ts) : wire<NSingle>(w, ts);
                wire<EveryProbe<TSS<Int>>>(w, o);
            }
            else
            {
                Port<TS<Int>> o;
                switch (b)
                {
                    case COUNTER: o = wire<NCounter>(w, ts); break;
                    case COUNTERD: o = wire<NCounter>(w, wire<NDouble>(w, ts)); break;
                    case DOUBLE: o = wire<NDouble>(w, ts); break;
                    case TIMER: o = wire<NTimer>(w, ts); break;
                    case KEY: o = wire<NKey>(w, wire<TsWriter>(w, Int{0}), ts); break;
                    case OWN1: o = wire<NOwnAcc>(w, ts); break;
                    case OWN2: o = wire<NOwnAcc>(w, wire<NDouble>(w, ts)); break;
                    default: throw verif::HarnessError("bad alone branch");
                }
                wire<EveryProbe<TS<Int>>>(w, o);
            }
            GraphBuilder gb = std::move(w).finish();
            GraphExecutorBuilder eb;
            eb.graph_builder(std::move(gb)).start_time(MIN_ST).end_time(MIN_ST + TimeDelta{horizon});
            auto ex = eb.make_executor();
            ex.view().run();
        }
        catch (...) { g = saved; throw; }
        g = saved;
        return run.samples;
    }

    struct Outcome { std::optional<std::string> violation; std::string sig; bool nontrivial{false}; std::uint64_t ticks{0}; std::string sig_class; };

    // ---- collection (TSS) input: branches that fold the input's DELTA must be handed the whole current set when they are selected -------------
    struct SetWriter
    {
        static constexpr auto name = "c12_set_writer";
        static constexpr bool schedule_on_start = true;
        static void eval(NodeScheduler sched, DateTime now, Out<TSS<Int>> out)
        {
            const long c = rel(now);
            if (c < static_cast<long>(g->iscript.size()))
                for (auto &op : split(g->iscript[static_cast<std::size_t>(c)], ','))
                {
                    if (op.empty()) continue;
                    if (op[0] == '+') (void)out.add(Int{std::stol(op.substr(1))}); else (void)out.remove(Int{std::stol(op.substr(1))});
                }
            if (c + 1 < static_cast<long>(g->iscript.size())) sched.schedule(MIN_TD);
        }
    };
    struct NFold   // running total maintained from added()/removed() only
    {
        static constexpr auto name = "c12_fold";
        static void start(State<Int> n) { n.set(Int{0}); }
        static void eval(In<"s", TSS<Int>> s, State<Int> n, Out<TS<Int>> out)
        {
            Int t = n.get();
            for (auto x : s.added()) t += x;
            for (auto x : s.removed()) t -= x;
            n.set(t); out.set(t);
        }
    };
    struct NSize { static constexpr auto name = "c12_size"; static void eval(In<"s", TSS<Int>> s, Out<TS<Int>> out) { Int k = 0; for (auto x : s.values()) { (void)x; ++k; } out.set(Int{1000 + k}); } };
    struct BFold { static constexpr auto name = "c12_b_fold"; static Port<TS<Int>> compose(Wiring &w, Port<TSS<Int>> s) { return wire<NFold>(w, s); } };
    struct BSize { static constexpr auto name = "c12_b_size"; static Port<TS<Int>> compose(Wiring &w, Port<TSS<Int>> s) { return wire<NSize>(w, s); } };

    // desc: set<r|->|<kscript>|<set ops script>   key 1 -> fold, key 2 -> size
    Outcome run_set_desc(const std::string &desc)
    {
        Outcome out;
        auto parts = split(desc, '|');
        const bool reload = parts.at(0).size() > 3 && parts.at(0)[3] == 'r';
        Run run;
        run.kscript = split(parts.at(1), ';');
        run.iscript = split(parts.at(2), ';');
        run.cycles = static_cast<int>(run.kscript.size());
        const long end = run.cycles + 6;
        std::string exc;
        g = &run;
        try
        {
            Wiring w;
            auto key = wire<TsWriter>(w, Int{0});
            auto in = wire<SetWriter>(w);
            stdlib::SwitchCases cases;
            cases.cases.push_back({Value{Int{1}}, fn<BFold>()});
            cases.cases.push_back({Value{Int{2}}, fn<BSize>()});
            cases.reload_on_ticked = reload;
            Port<TS<Int>> o = wire<stdlib::switch_>(w, key, cases, in).template as<TS<Int>>();
            wire<EveryProbe<TS<Int>>>(w, o);
            GraphBuilder gb = std::move(w).finish();
            GraphExecutorBuilder eb;
            eb.graph_builder(std::move(gb)).start_time(MIN_ST).end_time(MIN_ST + TimeDelta{end});
            auto ex = eb.make_executor();
            ex.view().run();
        }
        catch (const std::exception &e) { exc = e.what(); }
        g = nullptr;
        if (!exc.empty()) { out.violation = "run threw: " + exc; return out; }
        // reference: per branch life, the branch alone on a set writer that adds the WHOLE current set in its first cycle
        std::set<long> cur;
        bool set_valid = false;
        long active_key = LONG_MIN;
        struct Life { long start; long key; std::vector<std::string> ops; };
        std::vector<Life> lives;
        for (long c = 0; c < run.cycles; ++c)
        {
            bool ticked = false;
            std::string ops_now = run.iscript[static_cast<std::size_t>(c)];
            for (auto &op : split(ops_now, ',')) { if (op.empty()) continue; ticked = true; const long v = std::stol(op.substr(1)); if (op[0] == '+') cur.insert(v); else cur.erase(v); }
            if (ticked) set_valid = true;
            const std::string &k = run.kscript[static_cast<std::size_t>(c)];
            bool fresh = false;
            if (!k.empty())
            {
                const long kv = std::stol(k.substr(1));
                if (kv != active_key || reload) { active_key = kv; fresh = true; lives.push_back(Life{c, kv, {}}); }
            }
            if (lives.empty()) continue;
            Life &l = lives.back();
            if (fresh)
            {
                // the fresh branch is handed the held input: every current element is new to it
                std::string all;
                if (set_valid) for (long v : cur) all += (all.empty() ? "+" : ",+") + std::to_string(v);
                l.ops.push_back(all);
                if (set_valid && cur.empty()) l.ops.back() = "+99,-99";   // valid but empty: make the alone writer valid-and-empty
            }
            else l.ops.push_back(ops_now);
        }
        std::map<long, std::string> want;   // cycle -> value text of every expected output tick
        for (std::size_t li = 0; li < lives.size(); ++li)
        {
            const Life &l = lives[li];
            const long life_end = li + 1 < lives.size() ? lives[li + 1].start : end;
            Run r; r.iscript = l.ops; r.cycles = static_cast<int>(l.ops.size());
            Run *saved = g; g = &r;
            try
            {
                Wiring w;
                auto in = wire<SetWriter>(w);
                Port<TS<Int>> o = l.key == 1 ? wire<NFold>(w, in) : wire<NSize>(w, in);
                wire<EveryProbe<TS<Int>>>(w, o);
                GraphBuilder gb = std::move(w).finish();
                GraphExecutorBuilder eb;
                eb.graph_builder(std::move(gb)).start_time(MIN_ST).end_time(MIN_ST + TimeDelta{life_end - l.start});
                auto ex = eb.make_executor();
                ex.view().run();
            }
            catch (...) { g = saved; throw; }
            g = saved;
            for (auto &sm : r.samples) if (sm.modified && sm.valid) want[l.start + sm.t] = sm.value;
        }
        std::map<long, std::string> got;
        std::ostringstream sig;
        for (auto &sm : run.samples) { if (sm.modified && sm.valid) { got[sm.t] = sm.value; ++out.ticks; } sig << (sm.valid ? sm.value : "-") << ","; }
        out.sig = "set#" + sig.str();
        out.nontrivial = lives.size() >= 2;
        if (got != want)
        {
            auto show = [](const std::map<long, std::string> &m) { std::string o; for (auto &[c, v] : m) o += " t" + std::to_string(c) + "=" + v; return o.empty() ? std::string{" (none)"} : o; };
            out.violation = "switch over a set input: output ticks" + show(got) + " but the selected branches alone (each handed the whole current set when selected) give" + show(want);
        }
        return out;
    }

    // ---- two-input branches: the first input may never have ticked (not required) or be passive; the second holds a value ------------------
    struct TsWriter2   // third scripted writer (reads g->bscript2)
    {
        static constexpr auto name = "c12_ts_writer2";
        static constexpr bool schedule_on_start = true;
        static void eval(NodeScheduler sched, DateTime now, Out<TS<Int>> out)
        {
            const long c = rel(now);
            const auto &sc = g->bscript2;
            if (c < static_cast<long>(sc.size())) { const std::string &op = sc[static_cast<std::size_t>(c)]; if (!op.empty()) out.set(Int{std::stol(op.substr(1))}); }
            if (c + 1 < static_cast<long>(sc.size())) sched.schedule(MIN_TD);
        }
    };
    struct NPairU   // first input not required to be valid
    {
        static constexpr auto name = "c12_pair_unchecked";
        static void eval(In<"a", TS<Int>, InputActivity::Active, InputValidity::Unchecked> a, In<"b", TS<Int>> b, Out<TS<Int>> out) { out.set(Int{(a.valid() ? a.value() : Int{0}) * 1000 + b.value()}); }
    };
    struct NPairP   // first input passive
    {
        static constexpr auto name = "c12_pair_passive";
        static void eval(In<"a", TS<Int>, InputActivity::Passive, InputValidity::Unchecked> a, In<"b", TS<Int>> b, Out<TS<Int>> out) { out.set(Int{(a.valid() ? a.value() : Int{0}) * 1000 + b.value() + 500000}); }
    };
    struct BPairU { static constexpr auto name = "c12_b_pair_u"; static Port<TS<Int>> compose(Wiring &w, Port<TS<Int>> a, Port<TS<Int>> b) { return wire<NPairU>(w, a, b); } };
    struct BPairP { static constexpr auto name = "c12_b_pair_p"; static Port<TS<Int>> compose(Wiring &w, Port<TS<Int>> a, Port<TS<Int>> b) { return wire<NPairP>(w, a, b); } };

    using PairL2 = TSL<TS<Int>, 2>;
    struct NListSum
    {
        static constexpr auto name = "c12_list_sum";
        static void eval(In<"l", PairL2> l, Out<TS<Int>> out)
        {
            Int s2 = 0;
            for (std::size_t i = 0; i < 2; ++i) if (l[i].valid()) s2 += (static_cast<Int>(i) + 2) * l[i].value();
            out.set(Int{s2 + 900000});
        }
    };
    // A node WITHOUT any validity requirement is deliberately evaluated when its (late-created) graph starts (schedule_sampled_input_consumers);
    // the alone run models that with the same node scheduled at start.
    struct NListSumAtStart
    {
        static constexpr auto name = "c12_list_sum_at_start";
        static constexpr bool schedule_on_start = true;
        static void eval(In<"l", PairL2, InputActivity::Active, InputValidity::Unchecked> l, Out<TS<Int>> out)
        {
            Int s2 = 0;
            for (std::size_t i = 0; i < 2; ++i) if (l[i].valid()) s2 += (static_cast<Int>(i) + 2) * l[i].value();
            out.set(Int{s2 + 900000});
        }
    };
    struct BListSum { static constexpr auto name = "c12_b_list_sum"; static Port<TS<Int>> compose(Wiring &w, Port<PairL2> l) { return wire<NListSum>(w, l); } };
    struct BListFirst { static constexpr auto name = "c12_b_list_first"; static Port<TS<Int>> compose(Wiring &w, Port<PairL2> l) { return tsl_element(l, 0); } };   // returns a leaf of its argument directly

    struct BListPass { static constexpr auto name = "c12_b_list_pass"; static Port<PairL2> compose(Wiring &w, Port<PairL2> l) { (void)w; return l; } };
    struct BListPass2 { static constexpr auto name = "c12_b_list_pass2"; static Port<PairL2> compose(Wiring &w, Port<PairL2> l) { (void)w; return l; } };
    // desc: lsp|<kscript>|<a>|<b> : both branches return their structural argument directly; the switch output is the list itself
    Outcome run_pass_desc(const std::string &desc)
    {
        Outcome out;
        auto parts = split(desc, '|');
        Run run;
        run.kscript = split(parts.at(1), ';'); run.iscript = split(parts.at(2), ';'); run.bscript2 = split(parts.at(3), ';');
        run.cycles = static_cast<int>(run.kscript.size());
        const long end = run.cycles + 6;
        std::string exc;
        g = &run;
        try
        {
            Wiring w;
            auto key = wire<TsWriter>(w, Int{0});
            auto a = wire<TsWriter>(w, Int{1});
            auto b = wire<TsWriter2>(w);
            stdlib::SwitchCases cases;
            cases.cases.push_back({Value{Int{1}}, fn<BListPass>()});
            cases.cases.push_back({Value{Int{2}}, fn<BListPass2>()});
            Port<PairL2> o = wire<stdlib::switch_>(w, key, cases, stdlib::to_tsl<PairL2>(w, a, b).template as<PairL2>()).template as<PairL2>();
            wire<EveryProbe<PairL2>>(w, o);
            GraphBuilder gb = std::move(w).finish();
            GraphExecutorBuilder eb;
            eb.graph_builder(std::move(gb)).start_time(MIN_ST).end_time(MIN_ST + TimeDelta{end});
            auto ex = eb.make_executor();
            ex.view().run();
        }
        catch (const std::exception &e) { exc = e.what(); }
        g = nullptr;
        if (!exc.empty()) { out.violation = "run threw: " + exc; return out; }
        // reference: from the first selection on, the output VALUE is the list of the held values, and it ticks at every selection change
        // with a held leaf and at every leaf tick
        std::string ha, hb; long active_key = LONG_MIN; bool selected = false;
        std::map<long, std::string> want;
        // (an element that never ticked prints as 0 in the switch's own output list and as <unset> elsewhere: both are spelled 0 here; the values used are non-zero)
        auto elem = [](const std::string &h) { return h.empty() ? std::string{"0"} : h.substr(1); };
        for (long c = 0; c < run.cycles; ++c)
        {
            const std::string &ta = run.iscript[static_cast<std::size_t>(c)], &tb = run.bscript2[static_cast<std::size_t>(c)];
            if (!ta.empty()) ha = ta;
            if (!tb.empty()) hb = tb;
            bool fresh = false;
            const std::string &k = run.kscript[static_cast<std::size_t>(c)];
            if (!k.empty()) { const long kv = std::stol(k.substr(1)); if (kv != active_key) { active_key = kv; fresh = true; selected = true; } }
            if (!selected) continue;
            const bool tick = (fresh && (!ha.empty() || !hb.empty())) || !ta.empty() || !tb.empty();
            if (tick) want[c] = "[" + elem(ha) + ", " + elem(hb) + "]";
        }
        std::map<long, std::string> got;
        std::ostringstream sig;
        for (auto &sm : run.samples)
        {
            std::string v = sm.value; std::size_t pz; while ((pz = v.find("<unset>")) != std::string::npos) v.replace(pz, 7, "0");
            if (sm.modified && sm.valid) { got[sm.t] = v; ++out.ticks; }
            sig << (sm.valid ? v : "-") << ",";
        }
        out.sig = "lsp#" + sig.str();
        out.nontrivial = true;
        if (got != want)
        {
            auto show = [](const std::map<long, std::string> &m) { std::string o; for (auto &[c, v] : m) o += " t" + std::to_string(c) + "=" + v; return o.empty() ? std::string{" (none)"} : o; };
            out.violation = "switch whose branches return their structural argument: output ticks" + show(got) + " but the argument itself, from the selection on, gives" + show(want);
        }
        return out;
    }

    // desc: pair|<kscript>|<a script>|<b script>     key 1 -> BPairU, key 2 -> BPairP ;   lst|... the two inputs packed with to_tsl: key 1 -> BListSum, key 2 -> BListFirst
    Outcome run_pair_desc(const std::string &desc)
    {
        Outcome out;
        auto parts = split(desc, '|');
        const bool packed = parts.at(0) == "lst";
        Run run;
        run.kscript = split(parts.at(1), ';');
        run.iscript = split(parts.at(2), ';');
        run.bscript2 = split(parts.at(3), ';');
        run.cycles = static_cast<int>(run.kscript.size());
        const long end = run.cycles + 6;
        std::string exc;
        g = &run;
        try
        {
            Wiring w;
            auto key = wire<TsWriter>(w, Int{0});
            auto a = wire<TsWriter>(w, Int{1});
            auto b = wire<TsWriter2>(w);
            stdlib::SwitchCases cases;
            cases.cases.push_back({Value{Int{1}}, packed ? fn<BListSum>() : fn<BPairU>()});
            cases.cases.push_back({Value{Int{2}}, packed ? fn<BListFirst>() : fn<BPairP>()});
            Port<TS<Int>> o = packed ? wire<stdlib::switch_>(w, key, cases, stdlib::to_tsl<PairL2>(w, a, b).template as<PairL2>()).template as<TS<Int>>()
                                     : wire<stdlib::switch_>(w, key, cases, a, b).template as<TS<Int>>();
            wire<EveryProbe<TS<Int>>>(w, o);
            GraphBuilder gb = std::move(w).finish();
            GraphExecutorBuilder eb;
            eb.graph_builder(std::move(gb)).start_time(MIN_ST).end_time(MIN_ST + TimeDelta{end});
            auto ex = eb.make_executor();
            ex.view().run();
        }
        catch (const std::exception &e) { exc = e.what(); }
        g = nullptr;
        if (!exc.empty()) { out.violation = "run threw: " + exc; return out; }
        // lives and the alone runs: at its first cycle the branch is handed the held values of both inputs
        struct Life { long start; long key; std::vector<std::string> a, b; };
        std::vector<Life> lives;
        std::string held_a, held_b;
        long active_key = LONG_MIN;
        for (long c = 0; c < run.cycles; ++c)
        {
            const std::string &ta = run.iscript[static_cast<std::size_t>(c)], &tb = run.bscript2[static_cast<std::size_t>(c)];
            if (!ta.empty()) held_a = ta;
            if (!tb.empty()) held_b = tb;
            const std::string &k = run.kscript[static_cast<std::size_t>(c)];
            bool fresh = false;
            if (!k.empty()) { const long kv = std::stol(k.substr(1)); if (kv != active_key) { active_key = kv; fresh = true; lives.push_back(Life{c, kv, {}, {}}); } }
            if (lives.empty()) continue;
            Life &l = lives.back();
            l.a.push_back(fresh ? held_a : ta);
            l.b.push_back(fresh ? held_b : tb);
        }
        std::map<long, std::string> want;
        for (std::size_t li = 0; li < lives.size(); ++li)
        {
            const Life &l = lives[li];
            const long life_end = li + 1 < lives.size() ? lives[li + 1].start : end;
            Run r; r.iscript = l.a; r.bscript2 = l.b; r.cycles = static_cast<int>(l.a.size());
            Run *saved = g; g = &r;
            try
            {
                Wiring w;
                auto a = wire<TsWriter>(w, Int{1});
                auto b = wire<TsWriter2>(w);
                Port<TS<Int>> o;
                if (packed) o = l.key == 1 ? wire<NListSum>(w, stdlib::to_tsl<PairL2>(w, a, b).template as<PairL2>()) : Port<TS<Int>>{a};
                else o = l.key == 1 ? wire<NPairU>(w, a, b) : wire<NPairP>(w, a, b);
                wire<EveryProbe<TS<Int>>>(w, o);
                GraphBuilder gb = std::move(w).finish();
                GraphExecutorBuilder eb;
                eb.graph_builder(std::move(gb)).start_time(MIN_ST).end_time(MIN_ST + TimeDelta{life_end - l.start});
                auto ex = eb.make_executor();
                ex.view().run();
            }
            catch (...) { g = saved; throw; }
            g = saved;
            for (auto &sm : r.samples) if (sm.modified && sm.valid) want[l.start + sm.t] = sm.value;
        }
        std::map<long, std::string> got;
        std::ostringstream sig;
        for (auto &sm : run.samples) { if (sm.modified && sm.valid) { got[sm.t] = sm.value; ++out.ticks; } sig << (sm.valid ? sm.value : "-") << ","; }
        out.sig = parts.at(0) + "#" + sig.str();
        out.nontrivial = lives.size() >= 2;
        if (got != want)
        {
            auto show = [](const std::map<long, std::string> &m) { std::string o; for (auto &[c, v] : m) o += " t" + std::to_string(c) + "=" + v; return o.empty() ? std::string{" (none)"} : o; };
            out.violation = "switch over two inputs: output ticks" + show(got) + " but the selected branches alone (each handed the held values of both inputs when selected) give" + show(want);
        }
        return out;
    }

    // desc: <table><d|-><r|->|<kscript>|<iscript>
    Outcome run_desc(const std::string &desc)
    {
        if (desc.rfind("set", 0) == 0) return run_set_desc(desc);
        if (desc.rfind("pair|", 0) == 0 || desc.rfind("lst|", 0) == 0) return run_pair_desc(desc);
        if (desc.rfind("lsp|", 0) == 0) return run_pass_desc(desc);
        Outcome out;
        auto parts = split(desc, '|');
        const std::string cfg = parts.at(0);
        const bool with_default = cfg[1] == 'd', reload = cfg[2] == 'r';
        const Table tb = table_of(cfg[0], with_default);
        Run run;
        run.kscript = split(parts.at(1), ';');
        run.iscript = split(parts.at(2), ';');
        run.cycles = static_cast<int>(run.kscript.size());
        const long end = run.cycles + 6;
        std::string exc;
        g = &run;
        try
        {
            Wiring w;
            auto key = wire<TsWriter>(w, Int{0});
            auto in = wire<TsWriter>(w, Int{1});
            std::vector<stdlib::SwitchCase> cs;
            cs.push_back({Value{Int{1}}, fn_of(tb.k1)});
            cs.push_back({Value{Int{2}}, fn_of(tb.k2)});
            stdlib::SwitchCases cases;
            cases.cases = cs;
            if (with_default) cases.default_branch = fn_of(tb.dflt);
            cases.reload_on_ticked = reload;
            auto so = wire<stdlib::switch_>(w, key, cases, in);
            if (tb.tss) { Port<TSS<Int>> o = so.as<TSS<Int>>(); wire<EveryProbe<TSS<Int>>>(w, o); }
            else { Port<TS<Int>> o = so.as<TS<Int>>(); wire<EveryProbe<TS<Int>>>(w, o); }
            GraphBuilder gb = std::move(w).finish();
            GraphExecutorBuilder eb;
            eb.graph_builder(std::move(gb)).start_time(MIN_ST).end_time(MIN_ST + TimeDelta{end});
            auto ex = eb.make_executor();
            ex.view().run();
        }
        catch (const std::exception &e) { exc = e.what(); }
        g = nullptr;

        // ---- lives --------------------------------------------------------------------------------------------------
        struct Life { long start; long key; Br br; };
        std::vector<Life> lives;
        bool expect_error = false; long error_cycle = -1;
        long active_key = LONG_MIN;
        for (long c = 0; c < run.cycles; ++c)
        {
            const std::string &k = run.kscript[static_cast<std::size_t>(c)];
            if (k.empty()) continue;
            const long kv = std::stol(k.substr(1));
            if (kv == active_key && !reload) continue;   // same key, no reload: the instance is kept
            Br b = kv == 1 ? tb.k1 : (kv == 2 ? tb.k2 : tb.dflt);
            if (b == NONE) { expect_error = true; error_cycle = c; break; }
            lives.push_back({c, kv, b});
            active_key = kv;
        }
        if (expect_error)
        {
            if (exc.empty()) out.violation = "key " + run.kscript[static_cast<std::size_t>(error_cycle)].substr(1) + " in cycle " + std::to_string(error_cycle) + " matches no case and there is no default branch, but run() did not fail";
            out.sig = cfg + "#error";
            return out;
        }
        if (!exc.empty()) { out.violation = "run threw: " + exc; return out; }
        if (static_cast<long>(run.samples.size()) != end) throw verif::HarnessError("probe did not sample every cycle: " + std::to_string(run.samples.size()));
        // ---- expected per-cycle output from the alone runs -------------------------------------------------------------
        std::vector<std::optional<std::string>> want_value(static_cast<std::size_t>(end));   // nullopt = no output yet in the current life
        std::vector<bool> want_tick(static_cast<std::size_t>(end), false), in_life(static_cast<std::size_t>(end), false), life_start(static_cast<std::size_t>(end), false);
        for (std::size_t li = 0; li < lives.size(); ++li)
        {
            const Life &l = lives[li];
            const long stop = li + 1 < lives.size() ? lives[li + 1].start : end;
            // the new branch samples the held input at the switch cycle, then sees the input's own ticks
            std::vector<std::string> elem;
            std::string held;
            for (long c = 0; c <= l.start && c < run.cycles; ++c) if (!run.iscript[static_cast<std::size_t>(c)].empty()) held = run.iscript[static_cast<std::size_t>(c)];
            elem.push_back(held);
            for (long c = l.start + 1; c < run.cycles; ++c) elem.push_back(run.iscript[static_cast<std::size_t>(c)]);
            std::vector<std::string> key_elem;
            for (long c = l.start; c < run.cycles && c < stop; ++c) key_elem.push_back(run.kscript[static_cast<std::size_t>(c)]);
            auto alone = run_alone(l.br, elem, key_elem, stop - l.start, tb.tss);
            life_start[static_cast<std::size_t>(l.start)] = true;
            for (auto &s : alone)
            {
                const long c = l.start + s.t;
                if (c >= stop) break;
                in_life[static_cast<std::size_t>(c)] = true;
                if (s.valid) want_value[static_cast<std::size_t>(c)] = s.value;
                want_tick[static_cast<std::size_t>(c)] = s.modified;
            }
        }
        std::ostringstream sig;
        for (long c = 0; c < end; ++c)
        {
            const Sample &s = run.samples[static_cast<std::size_t>(c)];
            sig << (s.valid ? s.value : std::string{"-"}) << (s.modified ? "*" : "") << ",";
            if (s.modified) ++out.ticks;
            if (out.violation) continue;
            const auto &wv = want_value[static_cast<std::size_t>(c)];
            if (!in_life[static_cast<std::size_t>(c)])
            {
                if (s.valid || s.modified) out.violation = "cycle " + std::to_string(c) + ": no branch has been selected yet but the output reads " + s.value + (s.modified ? " (ticked)" : "");
                continue;
            }
            if (wv.has_value())
            {
                if (!s.valid || s.value != *wv)
                    out.violation = "cycle " + std::to_string(c) + ": output is " + (s.valid ? s.value : std::string{"invalid"}) + " but the selected branch run alone gives " + *wv;
                else if (want_tick[static_cast<std::size_t>(c)] && !s.modified)
                    out.violation = "cycle " + std::to_string(c) + ": the selected branch ticks here when run alone but the switch output did not tick";
                else if (!want_tick[static_cast<std::size_t>(c)] && s.modified && !life_start[static_cast<std::size_t>(c)])
                    out.violation = "cycle " + std::to_string(c) + ": the switch output ticked (" + s.value + ") but the selected branch run alone does not tick here";
            }
            else
            {
                // the current branch has produced nothing yet: nothing of an earlier branch may be visible
                // (a collection output is reset to the empty collection at a switch; that carries nothing of the previous branch)
                if (s.valid && s.value != "<>") out.violation = "cycle " + std::to_string(c) + ": the newly selected branch has produced no output yet but the switch output still reads " + s.value + " (left over from the previous branch)";
            }
        }
        out.sig = cfg + "#" + sig.str();
        out.nontrivial = lives.size() >= 3;
        if (out.violation && cfg[0] == 'o')
        {
            // classification of the recorded finding: the scalar switch output is shared by all branches and is not reset at a switch, so a
            // terminal that reads its own output starts from the PREVIOUS branch's last value. Verified exactly: in every cycle the output
            // equals (branch alone) + (the output value standing at the end of the previous life), ticks where the alone run ticks.
            bool exact = true; long carry = 0, last_model = 0; bool any_model = false;
            std::size_t li = 0;
            for (long c = 0; c < end && exact; ++c)
            {
                if (life_start[static_cast<std::size_t>(c)]) { carry = any_model ? last_model : 0; ++li; }
                const Sample &s = run.samples[static_cast<std::size_t>(c)];
                const auto &wv = want_value[static_cast<std::size_t>(c)];
                if (!in_life[static_cast<std::size_t>(c)]) { exact = !s.valid && !s.modified; continue; }
                if (wv.has_value())
                {
                    const long model = std::stol(*wv) + carry;
                    last_model = model; any_model = true;
                    if (!s.valid || s.value != std::to_string(model)) exact = false;
                    if (want_tick[static_cast<std::size_t>(c)] != s.modified && !life_start[static_cast<std::size_t>(c)]) exact = false;
                }
                else if (s.valid && !(any_model && s.value == std::to_string(last_model))) exact = false;
            }
            if (exact) out.sig_class = "own-output accumulator: the newly selected branch reads the previous branch's last value from the shared scalar switch output";
        }
        return out;
    }
}  // namespace

void verif_init() { stdlib::register_standard_operators(); }
std::optional<std::string> verif_run_case(verif::Ctx &, const std::string &desc) { return run_desc(desc).violation; }

void verif_enumerate(verif::Ctx &ctx)
{
    const bool th = ctx.thorough();
    const int T = th ? 6 : 5;
    const std::vector<std::string> keys = {"", "v1", "v2", "v8", "v9"};
    std::vector<std::string> kscripts, iscripts;
    {
        std::vector<int> idx(static_cast<std::size_t>(T), 0);
        while (true)
        {
            std::string s;
            for (int c = 0; c < T; ++c) s += (c ? ";" : "") + keys[static_cast<std::size_t>(idx[static_cast<std::size_t>(c)])];
            kscripts.push_back(s);
            int p = 0;
            while (p < T && ++idx[static_cast<std::size_t>(p)] == static_cast<int>(keys.size())) { idx[static_cast<std::size_t>(p)] = 0; ++p; }
            if (p == T) break;
        }
        for (unsigned m = 0; m < (1u << T); ++m)
        {
            std::string s;
            for (int c = 0; c < T; ++c) s += (c ? ";" : "") + (((m >> c) & 1u) ? "v" + std::to_string(11 + c) : std::string{});
            iscripts.push_back(s);
        }
    }
    {
        // collection input: every key history over {none, 1, 2} x every set history, with and without reload
        const int TS_ = 4;
        const std::vector<std::string> skeys = {"", "v1", "v2"};
        std::vector<std::string> sops = {"", "+1", "+2", "-1", "+1,+2", "+3"};
        if (th) sops.push_back("-2");
        auto all_scripts = [&](const std::vector<std::string> &alpha) {
            std::vector<std::string> out; std::vector<int> idx(static_cast<std::size_t>(TS_), 0);
            while (true)
            {
                std::string s2;
                for (int c = 0; c < TS_; ++c) s2 += (c ? ";" : "") + alpha[static_cast<std::size_t>(idx[static_cast<std::size_t>(c)])];
                out.push_back(s2);
                int p2 = 0;
                while (p2 < TS_ && ++idx[static_cast<std::size_t>(p2)] == static_cast<int>(alpha.size())) { idx[static_cast<std::size_t>(p2)] = 0; ++p2; }
                if (p2 == TS_) break;
            }
            return out;
        };
        const auto ks2 = all_scripts(skeys), is2 = all_scripts(sops);
        {
            // two-input branches: key x first input x second input histories
            const auto ks3 = all_scripts({"", "v1", "v2"}), as3 = all_scripts({"", "v7"}), bs3 = all_scripts({"", "v3", "v4"});
            for (const char *prog : {"pair", "lst", "lsp"}) for (auto &ks : ks3) for (auto &as : as3) for (auto &bs : bs3)
            {
                if (!ctx.next_is_mine()) continue;
                const std::string desc = std::string{prog} + "|" + ks + "|" + as + "|" + bs;
                ++ctx.evaluations; ++ctx.traces;
                Outcome o = run_desc(desc);
                ctx.transitions += o.ticks;
                ctx.state(o.sig);
                if (o.nontrivial) ctx.nontriv(desc);
                ctx.count(std::string{"cases_"} + prog);
                if (o.violation)
                {
                    Outcome o2 = run_desc(desc);
                    if (!o2.violation || *o2.violation != *o.violation) throw verif::HarnessError("case not reproducible: " + desc);
                    ctx.violation(desc, *o.violation, std::string{prog} + ": " + o.violation->substr(0, 44));
                }
            }
        }
        for (const char *cfg : {"set-", "setr"})
            for (auto &ks : ks2) for (auto &is : is2)
            {
                if (!ctx.next_is_mine()) continue;
                const std::string desc = std::string{cfg} + "|" + ks + "|" + is;
                ++ctx.evaluations; ++ctx.traces;
                Outcome o = run_desc(desc);
                ctx.transitions += o.ticks;
                ctx.state(o.sig);
                if (o.nontrivial) ctx.nontriv(desc);
                ctx.count(std::string{"cases_"} + cfg);
                if (o.violation)
                {
                    Outcome o2 = run_desc(desc);
                    if (!o2.violation || *o2.violation != *o.violation) throw verif::HarnessError("case not reproducible: " + desc);
                    ctx.violation(desc, *o.violation, std::string{cfg} + ": " + o.violation->substr(0, 44));
                }
            }
    }
    for (const char *cfg : {"a--", "ad-", "a-r", "adr", "b--", "bd-", "bdr", "c--", "cd-", "cdr", "s--", "sd-", "s-r", "sdr", "o--", "od-", "odr"})
        for (auto &ks : kscripts)
            for (auto &is : iscripts)
            {
                if (!ctx.next_is_mine()) continue;
                const std::string desc = std::string{cfg} + "|" + ks + "|" + is;
                ++ctx.evaluations; ++ctx.traces;
                Outcome o = run_desc(desc);
                ctx.transitions += o.ticks;
                ctx.state(o.sig);
                if (o.nontrivial) ctx.nontriv(desc);
                ctx.count(std::string{"cases_"} + cfg);
                if (o.violation)
                {
                    Outcome o2 = run_desc(desc);
                    if (!o2.violation || *o2.violation != *o.violation) throw verif::HarnessError("case not reproducible: " + desc);
                    ctx.violation(desc, *o.violation, !o.sig_class.empty() ? o.sig_class : std::string{cfg} + ": " + o.violation->substr(o.violation->find(':') + 2, 44));
                }
                else if (ctx.evaluations % 19997 == 1) ctx.sample("cases", desc);
            }
}

VERIF_MAIN()
