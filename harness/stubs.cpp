// Stand-ins for the three TUs that need third-party libraries absent from this image
// (json_impl.cpp, json_codec.cpp -> simdjson >= 4.5; time_zone_provider.cpp -> date/tz).
// No property anchors in them; JSON/time-zone operators throw if a harness ever reaches them.
#include <hgraph/lib/std/operators/json.h>
#include <hgraph/runtime/global_state.h>
#include <hgraph/types/temporal.h>
#include <hgraph/types/value/json_codec.h>

#include <stdexcept>

namespace hgraph
{
    namespace { [[noreturn]] void unavailable(const char *what) { throw std::logic_error(std::string{"verif stub: "} + what + " unavailable in this build"); } }

    const JsonConverter &json_converter(const ValueTypeMetaData *) { unavailable("json_converter"); }
    void clear_json_converters() noexcept {}
    void register_json_datetime_format(std::string, bool) {}
    std::string to_json_string(const ValueView &) { unavailable("to_json_string"); }
    Value from_json_string(const ValueTypeMetaData *, std::string_view) { unavailable("from_json_string"); }
    Value from_json_string(const JsonConverter &, std::string_view) { unavailable("from_json_string"); }

    TimeZoneBackend configured_time_zone_backend() noexcept { return TimeZoneBackend::Standard; }
    std::shared_ptr<const TimeZoneProvider> make_time_zone_provider() { unavailable("make_time_zone_provider"); }
    void clear_time_zone_provider_cache() noexcept {}
    void set_time_zone_provider(GlobalStateView, std::shared_ptr<const TimeZoneProvider>) { unavailable("set_time_zone_provider"); }
    const TimeZoneProvider &time_zone_provider(GlobalStateView) { unavailable("time_zone_provider"); }

    namespace stdlib
    {
        void register_json_operators() {}
        namespace json_tree
        {
            bool is_json_ts(const TSValueTypeMetaData *) noexcept { return false; }
            bool equals(const ValueView &, const ValueView &) { unavailable("json_tree::equals"); }
            std::partial_ordering compare(const ValueView &, const ValueView &) { unavailable("json_tree::compare"); }
        }
    }
}
