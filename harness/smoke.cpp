#include "vpch.h"
using namespace hgraph;
namespace {
struct TickingSource {
    static constexpr auto name = "ticking_source";
    static constexpr bool schedule_on_start = true;
    static void eval(NodeScheduler sched, Scalar<"count", std::int32_t> count, State<std::int32_t> emitted, Out<TS<std::int32_t>> out) {
        const std::int32_t n = emitted.get();
        out.set(n); emitted.set(n + 1);
        if (n + 1 < count.value()) sched.schedule(MIN_TD * 2);
    }
};
struct Obs : LifecycleObserver {
    void on_before_graph_evaluation(const GraphView &g) override { std::printf("cycle %lld\n", (long long)(g.evaluation_time() - MIN_ST).count()); }
};
}
int main() {
    stdlib::register_standard_operators();
    Wiring w;
    auto src = wire<TickingSource>(w, 3);
    wire<stdlib::dense_record_impl>(w, src, std::string{"out"});
    GraphBuilder gb = std::move(w).finish();
    Obs obs;
    GraphExecutorBuilder eb;
    eb.graph_builder(std::move(gb)).start_time(MIN_ST).end_time(MIN_ST + TimeDelta{100}).add_lifecycle_observer(&obs);
    auto ex = eb.make_executor();
    ex.view().run();
    auto rec = testing::get_recorded_values<std::int32_t>(ex.view().graph().global_state(), "out");
    for (auto &v : rec) std::printf("%s ", v ? std::to_string(*v).c_str() : "-");
    std::printf("\n");
}
