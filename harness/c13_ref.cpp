// C13 — reading through a reference equals reading its current target.
// Programs: if_then_else(cond, A, B) read by one / two consumers, the same reference passed through a nested graph, and a
// switch_ whose branches pass one of their inputs through; target shapes TS<Int>, TSS<Int>, TSD<Int,TS<Int>>. For every history
// of (selector tick in {-,T,F}) x (operation on A) x (operation on B) per cycle, a consumer that reads through the reference
// logs every evaluation (value, typed delta) and keeps ITS OWN COPY by applying the deltas it sees. Oracle: it is evaluated
// exactly when the current target ticks or the reference is re-pointed to a valid different target; what it reads is the
// target's current value; its delta is the target's delta on a target tick and the old->new difference on a retarget (no
// element reported removed that it did not hold, none added that it already held); its own copy always equals the value it
// reads; re-publishing the same reference and ticks of the unselected target never evaluate it.
#include "tsshapes.h"
using namespace hgraph;
using namespace tsshapes;

namespace
{
    struct Eval { long t; std::string value, added, removed, modified; std::string typed_added, typed_removed, typed_modified; std::string own_before, own_after; };
    struct Run
    {
        std::vector<std::string> script[3];   // 0: selector ("", "v1", "v0"), 1: target A ops, 2: target B ops
        int cycles{0};
        std::vector<Eval> evals[2];           // consumers
        std::set<long> own_set[2];
        std::map<long, long> own_map[2];
        long own_ts[2]{0, 0};
        bool own_valid[2]{false, false};
    };
    Run *g = nullptr;
    const bool g_debug = std::getenv("VERIF_DEBUG") != nullptr;

    struct SelWriter
    {
        static constexpr auto name = "c13_sel_writer";
        static constexpr bool schedule_on_start = true;
        static void eval(NodeScheduler sched, DateTime now, Out<TS<Bool>> out)
        {
            const long c = rel(now);
            if (c < g->cycles) { const std::string &op = g->script[0][static_cast<std::size_t>(c)]; if (!op.empty()) out.set(Bool{op == "v1"}); }
            if (c + 1 < g->cycles) sched.schedule(MIN_TD);
        }
    };
    struct KeyWriter  // Int selector for the switch_ program: v1 -> 1, v0 -> 2
    {
        static constexpr auto name = "c13_key_writer";
        static constexpr bool schedule_on_start = true;
        static void eval(NodeScheduler sched, DateTime now, Out<TS<Int>> out)
        {
            const long c = rel(now);
            if (c < g->cycles) { const std::string &op = g->script[0][static_cast<std::size_t>(c)]; if (!op.empty()) out.set(Int{op == "v1" ? 1 : 2}); }
            if (c + 1 < g->cycles) sched.schedule(MIN_TD);
        }
    };
    struct CmpWriter   // ticks LT once, in cycle 0 (the if_cmp program keeps its comparison constant)
    {
        static constexpr auto name = "c13_cmp_writer";
        static constexpr bool schedule_on_start = true;
        static void eval(Out<TS<stdlib::CmpResult>> out) { out.set(stdlib::CmpResult::LT); }
    };
    template <typename Sh>
    struct TargetWriter
    {
        static constexpr auto name = "c13_target_writer";
        static constexpr bool schedule_on_start = true;
        static void eval(NodeScheduler sched, Scalar<"which", Int> which, DateTime now, Out<typename Sh::S> out)
        {
            const long c = rel(now);
            if (c < g->cycles) { const std::string &ops = g->script[which.value()][static_cast<std::size_t>(c)]; if (!ops.empty()) for (auto &op : split(ops, ',')) Sh::apply(out, op, now); }
            if (c + 1 < g->cycles) sched.schedule(MIN_TD);
        }
    };

    /** "<added: <1, 2>, removed: <>>" + "added" -> "{1,2}" ; dict items "1: 5" -> "1=5". */
    std::string labelled_group(const std::string &canon_text, const std::string &label)
    {
        const std::string key = label + ": <";
        auto p = canon_text.find(key);
        if (p == std::string::npos) return "{}";
        p += key.size();
        int depth = 1; std::string body;
        while (p < canon_text.size() && depth > 0) { if (canon_text[p] == '<') ++depth; else if (canon_text[p] == '>') { if (--depth == 0) break; } body += canon_text[p++]; }
        std::vector<std::string> items; std::string cur;
        for (std::size_t i = 0; i < body.size(); ++i) { if (body[i] == ',') { items.push_back(cur); cur.clear(); if (i + 1 < body.size() && body[i + 1] == ' ') ++i; } else cur += body[i]; }
        if (!cur.empty()) items.push_back(cur);
        for (auto &it : items) { auto c = it.find(": "); if (c != std::string::npos) it = it.substr(0, c) + "=" + it.substr(c + 2); }
        return "{" + sorted_join(items) + "}";
    }

    std::string fmt_set(const std::set<long> &s) { std::vector<std::string> v; for (long k : s) v.push_back(std::to_string(k)); return "{" + sorted_join(v) + "}"; }
    std::string fmt_map(const std::map<long, long> &m) { std::vector<std::string> v; for (auto &[k, x] : m) v.push_back(std::to_string(k) + "=" + std::to_string(x)); return "{" + sorted_join(v) + "}"; }

    template <typename Sh>
    struct Consumer
    {
        static constexpr auto name = "c13_consumer";
        static void eval(In<"x", typename Sh::S> x, Scalar<"slot", Int> slot, DateTime now)
        {
            const int s = static_cast<int>(slot.value());
            Eval e; e.t = rel(now);
            if constexpr (std::is_same_v<Sh, ShapeTS>)
            {
                e.own_before = g->own_valid[s] ? std::to_string(g->own_ts[s]) : std::string{"-"};
                e.value = std::to_string(static_cast<long>(x.value()));
                e.modified = x.modified() ? "1" : "0";
                ValueView d = x.base().delta_value();
                e.added = d.has_value() ? d.to_string() : std::string{"<none>"};   // the delta of a TS is its value
                g->own_ts[s] = x.value(); g->own_valid[s] = true;
                e.own_after = std::to_string(g->own_ts[s]);
            }
            else if constexpr (std::is_same_v<Sh, ShapeTSS>)
            {
                e.own_before = fmt_set(g->own_set[s]);
                std::set<long> val, add, rem;
                for (auto v : x.values()) val.insert(v);
                for (auto v : x.added()) add.insert(v);
                for (auto v : x.removed()) rem.insert(v);
                e.value = fmt_set(val); e.typed_added = fmt_set(add); e.typed_removed = fmt_set(rem); e.modified = x.modified() ? "1" : "0";
                {
                    const std::string cd = canon(capture_delta(x.base()).to_string());
                    e.added = labelled_group(cd, "added"); e.removed = labelled_group(cd, "removed");
                }
                for (long k : rem) g->own_set[s].erase(k);
                for (long k : add) g->own_set[s].insert(k);
                e.own_after = fmt_set(g->own_set[s]);
            }
            else
            {
                e.own_before = fmt_map(g->own_map[s]);
                std::map<long, long> val, mod; std::set<long> add, rem;
                for (auto [k, c] : x.valid_items()) val[k.template checked_as<Int>()] = c.value();
                for (auto [k, c] : x.modified_items()) if (c.valid()) mod[k.template checked_as<Int>()] = c.value();
                for (auto [k, c] : x.added_items()) add.insert(k.template checked_as<Int>());
                for (auto [k, c] : x.removed_items()) rem.insert(k.template checked_as<Int>());
                e.value = fmt_map(val); e.typed_added = fmt_set(add); e.typed_removed = fmt_set(rem); e.typed_modified = fmt_map(mod);
                {
                    const std::string cd = canon(capture_delta(x.base()).to_string());
                    e.modified = labelled_group(cd, "modified"); e.removed = labelled_group(cd, "removed");
                    // keys of the canonical delta's modified map that the consumer did not hold are the added ones (checked by the oracle)
                    e.added = "{}";
                }
                for (long k : rem) g->own_map[s].erase(k);
                for (auto &[k, v] : mod) g->own_map[s][k] = v;
                e.own_after = fmt_map(g->own_map[s]);
            }
            if (g_debug) std::printf("t=%ld consumer %d value=%s added=%s removed=%s modified=%s capture_delta=%s\n", e.t, s, e.value.c_str(), e.added.c_str(), e.removed.c_str(), e.modified.c_str(), capture_delta(x.base()).to_string().c_str());
            g->evals[s].push_back(e);
        }
    };

    template <typename S>
    struct PassSub { static constexpr auto name = "c13_pass_sub"; static Port<S> compose(Wiring &, Port<S> in) { return in; } };
    template <typename S>
    struct PickA { static constexpr auto name = "c13_pick_a"; static Port<S> compose(Wiring &, Port<S> a, Port<S>) { return a; } };
    template <typename S>
    struct PickB { static constexpr auto name = "c13_pick_b"; static Port<S> compose(Wiring &, Port<S>, Port<S> b) { return b; } };

    // ---- reference --------------------------------------------------------------------------------------------------
    struct TargetModel { bool valid{false}; long ts{0}; std::set<long> set; std::map<long, long> map; };

    template <typename Sh>
    bool model_apply(TargetModel &m, const std::string &ops)   // returns "ticked with an observable change or a validating first tick"
    {
        if (ops.empty()) return false;
        bool effective = false;
        for (auto &op : split(ops, ','))
        {
            if constexpr (std::is_same_v<Sh, ShapeTS>) { m.ts = std::stol(op.substr(1)); effective = true; }
            else if constexpr (std::is_same_v<Sh, ShapeTSS>)
            {
                if (op[0] == '+') { if (m.set.insert(std::stol(op.substr(1))).second) effective = true; }
                else if (op[0] == '-') { if (m.set.erase(std::stol(op.substr(1)))) effective = true; }
            }
            else
            {
                if (op[0] == 's') { auto eq = op.find('='); m.map[std::stol(op.substr(1, eq - 1))] = std::stol(op.substr(eq + 1)); effective = true; }
                else if (op[0] == 'e') { if (m.map.erase(std::stol(op.substr(1)))) effective = true; }
            }
        }
        const bool first = !m.valid;
        m.valid = true;   // any mutation scope validates the target (empty collection)
        return effective || first;
    }
    template <typename Sh> std::string model_value(const TargetModel &m)
    {
        if constexpr (std::is_same_v<Sh, ShapeTS>) return std::to_string(m.ts);
        else if constexpr (std::is_same_v<Sh, ShapeTSS>) return fmt_set(m.set);
        else return fmt_map(m.map);
    }

    struct Outcome { std::optional<std::string> violation; std::string sig, sig_class; bool nontrivial{false}; std::uint64_t ticks{0}; };

    // desc: <program><shape>|<sel>|<A>|<B>      program: i ite, 2 two consumers, n nested pass-through, s switch_ ; shape: t|s|d
    template <typename Sh>
    Outcome run_shape(char program, const std::vector<std::string> &sel, const std::vector<std::string> &a, const std::vector<std::string> &b)
    {
        using S = typename Sh::S;
        Outcome out;
        Run run;
        run.script[0] = sel; run.script[1] = a; run.script[2] = b;
        run.cycles = static_cast<int>(sel.size());
        std::string exc;
        g = &run;
        try
        {
            Wiring w;
            auto pa = wire<TargetWriter<Sh>>(w, Int{1});
            auto pb = wire<TargetWriter<Sh>>(w, Int{2});
            Port<S> ref;
            if (program == 's')
            {
                auto key = wire<KeyWriter>(w);
                stdlib::SwitchCases cases;
                cases.cases.push_back({Value{Int{1}}, fn<PickA<S>>()});
                cases.cases.push_back({Value{Int{2}}, fn<PickB<S>>()});
                ref = wire<stdlib::switch_>(w, key, cases, pa, pb).template as<S>();
            }
            else
            {
                auto c = wire<SelWriter>(w);
                ref = wire<stdlib::if_then_else>(w, c, pa, pb).template as<S>();
                if (program == 'n') ref = nested_<PassSub<S>>(w, ref);
                // a reference selected through another reference-producing operator whose own selector never ticks again
                if (program == 'c') ref = wire<stdlib::if_cmp>(w, wire<CmpWriter>(w), ref, pa, pb).template as<S>();
            }
            wire<Consumer<Sh>>(w, ref, Int{0});
            if (program == '2') wire<Consumer<Sh>>(w, ref, Int{1});
            GraphBuilder gb = std::move(w).finish();
            GraphExecutorBuilder eb;
            eb.graph_builder(std::move(gb)).start_time(MIN_ST).end_time(MIN_ST + TimeDelta{run.cycles + 3});
            auto ex = eb.make_executor();
            ex.view().run();
        }
        catch (const std::exception &e) { exc = e.what(); }
        g = nullptr;
        if (!exc.empty()) { out.violation = "run threw: " + exc; return out; }

        TargetModel tm[2];
        int selected = -1;
        // "unknown" mode: the reference was re-pointed to a target that holds no value. The statement only covers retargets to valid
        // targets, so until the reference designates a valid target again the consumer may be detached or may keep following the
        // old target; its next evaluation re-bases the checker's copy.
        bool unknown = false;
        int effective = -1;           // the valid target the consumer was last known to follow
        std::map<long, const Eval *> got[2];
        for (int k = 0; k < 2; ++k) for (auto &e : run.evals[k]) got[k][e.t] = &e;
        std::ostringstream sig;
        int retargets = 0;
        bool coincident = false;
        long last_raw_tick[2] = {-100, -100};
        std::set<std::string> last_removed[2];
        // checker-side copies, maintained from the logged deltas
        std::set<std::string> copy[2];
        bool rebase[2] = {true, true};
        auto parse = [](const std::string &s2) { std::set<std::string> r; std::string cur; for (char ch : s2) { if (ch == '{' || ch == '}') continue; if (ch == ',') { r.insert(cur); cur.clear(); } else cur += ch; } if (!cur.empty()) r.insert(cur); return r; };
        auto keys_of = [](const std::set<std::string> &items) { std::set<std::string> r; for (auto &i : items) r.insert(i.substr(0, i.find('='))); return r; };
        for (long c = 0; c < run.cycles; ++c)
        {
            const std::set<std::string> last_removed_before[2] = {last_removed[0], last_removed[1]};
            auto model_keys = [&](const TargetModel &m) { std::set<std::string> r; for (long x : m.set) r.insert(std::to_string(x)); for (auto &[k2, v2] : m.map) r.insert(std::to_string(k2)); return r; };
            const std::set<std::string> keys_before[2] = {model_keys(tm[0]), model_keys(tm[1])};
            const bool tick[2] = {model_apply<Sh>(tm[0], a[static_cast<std::size_t>(c)]), model_apply<Sh>(tm[1], b[static_cast<std::size_t>(c)])};
            const bool raw_tick[2] = {!a[static_cast<std::size_t>(c)].empty(), !b[static_cast<std::size_t>(c)].empty()};
            for (int q = 0; q < 2; ++q)
                if (raw_tick[q])
                {
                    // what the target's own last tick removed (its slot delta keeps that until its next mutation)
                    last_removed[q].clear();
                    const auto now_keys = model_keys(tm[q]);
                    for (auto &k2 : keys_before[q]) if (!now_keys.count(k2)) last_removed[q].insert(k2);
                }
            int new_sel = selected;
            if (!sel[static_cast<std::size_t>(c)].empty()) new_sel = sel[static_cast<std::size_t>(c)] == "v1" ? 0 : 1;
            const bool retarget = new_sel != selected;
            selected = new_sel;
            if (retarget) ++retargets;
            enum { MUST, MUST_NOT, DONT_CARE } expect = MUST_NOT;
            bool entering_known = false;
            if (selected >= 0)
            {
                const TargetModel &t = tm[selected];
                if (!t.valid) { expect = DONT_CARE; unknown = true; }
                else if (unknown)
                {
                    // the designated target is valid again (re-pointed to a valid one, or the invalid one received its first value)
                    entering_known = true;
                    if (selected == effective && !tick[selected]) expect = DONT_CARE;   // back on the target it may never have left
                    else expect = (retarget || tick[selected]) ? MUST : DONT_CARE;
                    if (expect == MUST && selected == effective) expect = DONT_CARE;
                }
                else if (retarget) expect = MUST;
                else if (tick[selected]) expect = MUST;
                else if (raw_tick[selected]) expect = DONT_CARE;                    // a tick that changed nothing (e.g. removing an absent element)
                if (retarget && raw_tick[selected] && t.valid) coincident = true;
            }
            // known-finding predicate: a retarget within one cycle of a tick of the old or the new target
            const int old_target = effective;
            auto near_tick = [&](int q) { return q >= 0 && (raw_tick[q] || last_raw_tick[q] == c - 1); };
            const bool adjacent = retarget && (near_tick(selected) || near_tick(old_target));
            const std::string adjacent_class = "retarget within one cycle of a tick of the old or new target: the delta seen through the reference is not the old->new difference";
            const std::string stale_class = "retarget delta repeats an element the old target removed in its last tick";
            const std::string nested_class = "reference passed through a nested graph: the retarget delta does not remove the old target's elements";
            std::string kind;
            // sub-class of the adjacent-tick finding: program, shape, what is wrong with the delta, and which target ticked when
            auto sub = [&](const std::string &what) {
                std::string w = " [";
                w += program; w += Sh::name; w += ": " + what + "; ";
                w += std::string{"old target "} + (old_target >= 0 && raw_tick[old_target] ? "ticks now" : (old_target >= 0 && last_raw_tick[old_target] == c - 1 ? "ticked the cycle before" : "quiet"));
                w += std::string{", new target "} + (selected >= 0 && raw_tick[selected] ? "ticks now" : (selected >= 0 && last_raw_tick[selected] == c - 1 ? "ticked the cycle before" : "quiet"));
                return w + "]";
            };
            for (int k = 0; k < (program == '2' ? 2 : 1); ++k)
            {
                const bool evaluated = got[k].count(c) != 0;
                if (k == 0) sig << (evaluated ? got[k][c]->value : std::string{"."}) << ",";
                if (out.violation) continue;
                if (unknown && !entering_known) { if (evaluated) rebase[k] = true; continue; }   // don't-care stretch
                if (expect == MUST && !evaluated)
                {
                    out.violation = "cycle " + std::to_string(c) + ": consumer " + std::to_string(k) + " was not evaluated although " +
                                    (retarget ? std::string{"the reference was re-pointed to a valid target"} : std::string{"the referenced target ticked"});
                    if (program == 's' && entering_known && !retarget) out.sig_class = "switch_ pass-through selected while its input held no value: the input's first tick does not reach the consumer";
                }
                else if (expect == MUST_NOT && evaluated)
                    out.violation = "cycle " + std::to_string(c) + ": consumer " + std::to_string(k) + " was evaluated (read " + got[k][c]->value + ") although " +
                                    (selected < 0 ? std::string{"nothing is selected"} : (sel[static_cast<std::size_t>(c)].empty() ? std::string{"only the unselected target ticked or nothing ticked"} : std::string{"the same reference was published again"}));
                if (out.violation || !evaluated) continue;
                ++out.ticks;
                const Eval &e = *got[k][c];
                const std::string want = model_value<Sh>(tm[selected]);
                if (e.value != want) { out.violation = "cycle " + std::to_string(c) + ": consumer reads " + e.value + " through the reference but the selected target holds " + want; continue; }
                if constexpr (std::is_same_v<Sh, ShapeTS>)
                {
                    if (e.added != e.value) out.violation = "cycle " + std::to_string(c) + ": delta of the TS read through the reference is " + e.added + " but its value is " + e.value;
                }
                else
                {
                    const auto value_items = parse(e.value);
                    if (entering_known || rebase[k]) { copy[k] = value_items; rebase[k] = false; continue; }
                    const auto before = copy[k];
                    const auto rem = keys_of(parse(e.removed)), add = keys_of(parse(e.added));
                    // apply the delta the consumer saw to the checker's copy
                    std::set<std::string> after;
                    for (auto &i : before) if (!rem.count(i.substr(0, i.find('=')))) after.insert(i);
                    if constexpr (std::is_same_v<Sh, ShapeTSS>) for (auto &i : add) after.insert(i);
                    else
                    {
                        const auto mod = parse(e.modified);
                        for (auto &m : mod) { const std::string key = m.substr(0, m.find('=')); for (auto it = after.begin(); it != after.end();) { if (it->substr(0, it->find('=')) == key) it = after.erase(it); else ++it; } after.insert(m); }
                    }
                    copy[k] = value_items;
                    auto show = [](const std::set<std::string> &x) { std::string o = "{"; bool f = true; for (auto &i : x) { o += (f ? "" : ",") + i; f = false; } return o + "}"; };
                    if (after != value_items)
                    {
                        out.violation = "cycle " + std::to_string(c) + ": a copy maintained from the deltas seen through the reference is " + show(after) + " but the value read is " + e.value + " (copy before: " + show(before) +
                                        ", delta added=" + e.added + " removed=" + e.removed + " modified=" + e.modified + ")";
                        {
                            bool extra = false, missing = false;   // the copy kept something the value lacks (a removal was not reported) / lacks something (an addition was not reported)
                            for (auto &i : after) if (!value_items.count(i)) extra = true;
                            for (auto &i : value_items) if (!after.count(i)) missing = true;
                            kind = extra && missing ? "removal and addition not reported" : extra ? "removal not reported" : "addition not reported";
                        }
                        if (adjacent) out.sig_class = adjacent_class + sub(kind);
                        else if (retarget && program == 'n') out.sig_class = nested_class;
                        continue;
                    }
                    const auto before_keys = keys_of(before);
                    for (auto &k2 : rem) if (!before_keys.count(k2))
                    {
                        out.violation = "cycle " + std::to_string(c) + ": delta reports " + k2 + " as removed but the consumer's view did not hold it (view before: " + show(before) + ", value now " + e.value + ")";
                        // the element is one the OLD target removed in its own last tick (however long ago): the stale-removal finding
                        if (retarget && program != 'n' && old_target >= 0 && old_target != selected && last_removed_before[old_target].count(k2)) out.sig_class = stale_class;
                        else if (adjacent) out.sig_class = adjacent_class + sub("phantom removal");
                        else if (retarget) out.sig_class = stale_class + " (element not in the old target's last removal)";
                        break;
                    }
                    if (!out.violation) for (auto &k2 : add) if (before_keys.count(k2))
                    {
                        out.violation = "cycle " + std::to_string(c) + ": delta reports " + k2 + " as added but the consumer's view already held it (view before: " + show(before) + ")";
                        if (adjacent) out.sig_class = adjacent_class + sub("phantom addition");
                        else if (retarget && program == 'n') out.sig_class = nested_class;
                        break;
                    }
                }
            }
            if (selected >= 0 && tm[selected].valid) { unknown = false; effective = selected; }
            for (int q = 0; q < 2; ++q) if (raw_tick[q]) last_raw_tick[q] = c;
        }
        out.sig = std::string(1, program) + Sh::name + "#" + sig.str();
        out.nontrivial = retargets >= 2 || coincident;
        return out;
    }

    // ---- gate program: a consumer that REQUIRES the reference-read input to be valid and has a second, directly wired active input ------
    // (C03 through a reference: the consumer must not run on the other input's tick while the referenced target holds no value, and when
    //  it runs the value it reads must be one a target really holds)
    struct GateLog { long t; bool xvalid; long x; bool ymod; };
    std::vector<GateLog> *g_gate = nullptr;
    std::vector<std::string> g_yscript;
    struct YWriter
    {
        static constexpr auto name = "c13_y_writer";
        static constexpr bool schedule_on_start = true;
        static void eval(NodeScheduler sched, DateTime now, Out<TS<Int>> out)
        {
            const long c = rel(now);
            if (c < static_cast<long>(g_yscript.size()) && !g_yscript[static_cast<std::size_t>(c)].empty()) out.set(Int{700 + c});
            if (c + 1 < static_cast<long>(g_yscript.size())) sched.schedule(MIN_TD);
        }
    };
    struct GateConsumer
    {
        static constexpr auto name = "c13_gate_consumer";
        static void eval(In<"x", TS<Int>> x, In<"y", TS<Int>, InputActivity::Active, InputValidity::Unchecked> y, DateTime now)
        {
            g_gate->push_back({rel(now), x.valid(), x.valid() ? static_cast<long>(x.value()) : -1, y.modified()});
        }
    };
    // desc: yt|<sel>|<A>|<B>|<y ticks: "1" or "">
    Outcome run_gate(const std::vector<std::string> &sel, const std::vector<std::string> &a, const std::vector<std::string> &b, const std::vector<std::string> &y)
    {
        Outcome out;
        Run run;
        run.script[0] = sel; run.script[1] = a; run.script[2] = b; run.cycles = static_cast<int>(sel.size());
        std::vector<GateLog> log;
        g = &run; g_gate = &log; g_yscript = y;
        std::string exc;
        try
        {
            Wiring w;
            auto pa = wire<TargetWriter<ShapeTS>>(w, Int{1});
            auto pb = wire<TargetWriter<ShapeTS>>(w, Int{2});
            auto ref = wire<stdlib::if_then_else>(w, wire<SelWriter>(w), pa, pb).template as<TS<Int>>();
            wire<GateConsumer>(w, ref, wire<YWriter>(w));
            GraphBuilder gb = std::move(w).finish();
            GraphExecutorBuilder eb;
            eb.graph_builder(std::move(gb)).start_time(MIN_ST).end_time(MIN_ST + TimeDelta{run.cycles + 3});
            auto ex = eb.make_executor();
            ex.view().run();
        }
        catch (const std::exception &e) { exc = e.what(); }
        g = nullptr; g_gate = nullptr;
        if (!exc.empty()) { out.violation = "run threw: " + exc; return out; }
        bool valid[2] = {false, false}; long val[2] = {0, 0};
        int selected = -1, effective = -1;
        std::map<long, const GateLog *> at;
        for (auto &e : log) at[e.t] = &e;
        std::ostringstream sig;
        for (long c = 0; c < run.cycles; ++c)
        {
            bool tick[2] = {false, false};
            for (int q = 0; q < 2; ++q) { const std::string &op = (q == 0 ? a : b)[static_cast<std::size_t>(c)]; if (!op.empty()) { val[q] = std::stol(op.substr(1)); valid[q] = true; tick[q] = true; } }
            int new_sel = selected;
            if (!sel[static_cast<std::size_t>(c)].empty()) new_sel = sel[static_cast<std::size_t>(c)] == "v1" ? 0 : 1;
            const bool retarget = new_sel != selected;
            selected = new_sel;
            const bool yt = !y[static_cast<std::size_t>(c)].empty();
            const GateLog *e = at.count(c) ? at[c] : nullptr;
            sig << (e ? std::to_string(e->x) : std::string{"."}) << ",";
            ++out.ticks;
            if (out.violation) continue;
            const std::string where = "cycle " + std::to_string(c) + ": ";
            if (selected < 0) { if (e) out.violation = where + "the consumer ran although its required input designates nothing"; continue; }
            if (valid[selected])
            {
                effective = selected;
                const bool must = retarget || tick[selected] || yt;
                if (must && !e) out.violation = where + "the consumer was not evaluated although " + (yt ? "its directly wired input ticked" : "the referenced target ticked / was re-pointed") + " and the referenced target holds a value";
                else if (e && (!e->xvalid || e->x != val[selected])) out.violation = where + "the consumer read " + (e->xvalid ? std::to_string(e->x) : std::string{"<invalid>"}) + " through the reference but the selected target holds " + std::to_string(val[selected]);
            }
            else
            {
                // the designated target holds no value: the required input is not valid, so the consumer must not run - unless the runtime still
                // follows the previous valid target (then it must read THAT target's value)
                if (e && !(effective >= 0 && e->xvalid && e->x == val[effective]))
                    out.violation = where + "the consumer ran (read " + (e->xvalid ? std::to_string(e->x) : std::string{"<invalid>"}) + ") although the referenced target holds no value" + (effective >= 0 ? " and the value is not the previous target's (" + std::to_string(val[effective]) + ")" : std::string{});
            }
        }
        out.sig = "yt#" + sig.str();
        out.nontrivial = true;
        return out;
    }

    Outcome run_desc(const std::string &desc)
    {
        auto parts = split(desc, '|');
        if (parts.at(0) == "yt") return run_gate(split(parts.at(1), ';'), split(parts.at(2), ';'), split(parts.at(3), ';'), split(parts.at(4), ';'));
        const char program = parts.at(0)[0], shape = parts.at(0)[1];
        auto sel = split(parts.at(1), ';'), a = split(parts.at(2), ';'), b = split(parts.at(3), ';');
        if (shape == 't') return run_shape<ShapeTS>(program, sel, a, b);
        if (shape == 's') return run_shape<ShapeTSS>(program, sel, a, b);
        if (shape == 'd') return run_shape<ShapeDictI>(program, sel, a, b);
        throw verif::HarnessError("unknown shape");
    }

    void product(const std::vector<std::string> &alphabet, int cycles, std::vector<std::string> &out)
    {
        std::vector<int> idx(static_cast<std::size_t>(cycles), 0);
        while (true)
        {
            std::string s;
            for (int c = 0; c < cycles; ++c) s += (c ? ";" : "") + alphabet[static_cast<std::size_t>(idx[static_cast<std::size_t>(c)])];
            out.push_back(s);
            int p = 0;
            while (p < cycles && ++idx[static_cast<std::size_t>(p)] == static_cast<int>(alphabet.size())) { idx[static_cast<std::size_t>(p)] = 0; ++p; }
            if (p == cycles) break;
        }
    }
}  // namespace

void verif_init() { stdlib::register_standard_operators(); }
std::optional<std::string> verif_run_case(verif::Ctx &, const std::string &desc) { return run_desc(desc).violation; }

void verif_enumerate(verif::Ctx &ctx)
{
    const bool th = ctx.thorough();
    struct Space { std::string programs; char shape; std::vector<std::string> a_ops, b_ops; int cycles; };
    std::vector<Space> spaces = {
        {"i2nsc", 't', {"", "v1", "v2"}, {"", "v1", "v6"}, th ? 5 : 4},   // the two targets can hold EQUAL values (a retarget between them is still a tick)
        {"i2nsc", 's', {"", "+1", "-1", "+2"}, {"", "+2", "+3", "-2"}, th ? 4 : 3},
        {"i2ns", 'd', {"", "s1=5", "e1", "s2=6"}, {"", "s2=7", "s3=8", "e2"}, th ? 4 : 3},
        {"i", 's', {"", "+1", "-1"}, {"", "+1", "+2"}, th ? 5 : 4},
        {"i", 'd', {"", "s1=5", "e1"}, {"", "s1=6", "s2=7"}, th ? 5 : 4},
    };
    {
        // gate program: selector x target A x target B x ticks of the directly wired second input, T=4
        std::vector<std::string> sels, as, bs, ys;
        const int T = 4;
        product({"", "v1", "v0"}, T, sels);
        product({"", "v5"}, T, as);
        product({"", "v8"}, T, bs);
        product({"", "1"}, T, ys);
        for (auto &s2 : sels) for (auto &a2 : as) for (auto &b2 : bs) for (auto &y2 : ys)
        {
            if (!ctx.next_is_mine()) continue;
            const std::string desc = "yt|" + s2 + "|" + a2 + "|" + b2 + "|" + y2;
            ++ctx.evaluations; ++ctx.traces;
            Outcome o = run_desc(desc);
            ctx.transitions += o.ticks;
            ctx.state(o.sig);
            ctx.nontriv(desc);
            ctx.count("cases_yt");
            if (o.violation)
            {
                Outcome o2 = run_desc(desc);
                if (!o2.violation || *o2.violation != *o.violation) throw verif::HarnessError("case not reproducible: " + desc);
                ctx.violation(desc, *o.violation, "yt: " + o.violation->substr(o.violation->find(':') + 2, 50));
            }
        }
    }
    for (auto &sp : spaces)
    {
        std::vector<std::string> sels, as, bs;
        product({"", "v1", "v0"}, sp.cycles, sels);
        product(sp.a_ops, sp.cycles, as);
        product(sp.b_ops, sp.cycles, bs);
        for (char prog : sp.programs)
            for (auto &s : sels)
                for (auto &a : as)
                    for (auto &b : bs)
                    {
                        if (!ctx.next_is_mine()) continue;
                        const std::string desc = std::string(1, prog) + sp.shape + "|" + s + "|" + a + "|" + b;
                        ++ctx.evaluations; ++ctx.traces;
                        Outcome o = run_desc(desc);
                        ctx.transitions += o.ticks;
                        ctx.state(o.sig);
                        if (o.nontrivial) ctx.nontriv(desc);
                        ctx.count(std::string{"cases_"} + prog + sp.shape);
                        if (o.violation)
                        {
                            Outcome o2 = run_desc(desc);
                            if (!o2.violation || *o2.violation != *o.violation) throw verif::HarnessError("case not reproducible: " + desc);
                            ctx.violation(desc, *o.violation, o.sig_class.empty() ? std::string(1, prog) + sp.shape + ": " + o.violation->substr(o.violation->find(':') + 2, 50) : o.sig_class);
                        }
                        else if (ctx.evaluations % 19997 == 1) ctx.sample("cases", desc);
                    }
    }
}

VERIF_MAIN()
