// C01 (pause / resume part) — at most one evaluation per node per engine cycle also when a cycle PAUSES and is resumed.
// A node may ask to be resumed (its evaluate returns false, as mesh_ dependencies do); the cycle is then evaluated again at
// the same time and must continue AT the pausing node: nodes before it are not run again, nodes after it run once.
// Program: Before -> Gate -> After, flat, inside nested_<>, and inside try_except_<> (where a throwing cycle is captured), driven
// cycle by cycle through the repository's MockGraphExecutor. Every history over T cycles of {no tick, plain value, value that
// makes the gate throw, value that makes it pause once, value that makes it pause twice} is run and the evaluation ledger checked.
#include "vpch.h"
#include "vcommon.h"
#include "tsshapes.h"
#include <hgraph/lib/testing/mock_runtime.h>
#include <hgraph/lib/testing/runtime_support.h>
#include <hgraph/runtime/node_error.h>
#include <array>
#include <typeindex>
using namespace hgraph;
using namespace hgraph::testing;

namespace
{
    using tsshapes::split;
    struct Ledger
    {
        std::map<std::pair<long, std::string>, int> evals;     // (cycle time, node) -> completed evaluations
        std::map<long, int> gate_entries;                       // cycle -> times the gate was entered
        std::vector<std::string> trace;
    };
    Ledger *L = nullptr;
    long rel(DateTime t) { return static_cast<long>((t - MIN_ST) / MIN_TD); }

    struct Before
    {
        static constexpr auto name = "c01p_before";
        static void eval(In<"x", TS<Int>> x, DateTime now, Out<TS<Int>> out) { ++L->evals[{rel(now), "before"}]; L->trace.push_back("B" + std::to_string(static_cast<long>(x.value()))); out.set(x.value()); }
    };
    struct After
    {
        static constexpr auto name = "c01p_after";
        static void eval(In<"x", TS<Int>> x, DateTime now, Out<TS<Int>> out) { ++L->evals[{rel(now), "after"}]; L->trace.push_back("A" + std::to_string(static_cast<long>(x.value()))); out.set(x.value() + 1); }
    };
    struct GateTag {};
    // input value v: v < 0 throws; 100 <= v < 200 pauses once in its cycle; v >= 200 pauses twice; otherwise passes v through
    bool gate_evaluate_impl(const void *, const NodeView &view, DateTime evaluation_time)
    {
        auto root = view.input(evaluation_time);
        auto bundle = root.as_bundle();
        const Int x = bundle[0].value().checked_as<Int>();
        const long c = rel(evaluation_time);
        const int entry = ++L->gate_entries[c];
        if (x < 0) { L->trace.push_back("G!"); throw std::runtime_error("gate: negative input"); }
        const int pauses_wanted = x >= 200 ? 2 : x >= 100 ? 1 : 0;
        if (entry <= pauses_wanted) { L->trace.push_back("Gp"); return false; }
        ++L->evals[{c, "gate"}];
        L->trace.push_back("G" + std::to_string(static_cast<long>(x)));
        set_output_value(view, evaluation_time, x);
        return true;
    }
    NodeBuilder gate_node_builder()
    {
        const auto *ts_int = ts_type<TS<Int>>();
        NodeTypeMetaData meta;
        meta.display_name = "c01p_gate";
        meta.input_schema = TypeRegistry::instance().un_named_tsb({{"x", ts_int}});
        meta.output_schema = ts_int;
        NodeTypeDescriptor descriptor;
        descriptor.schema = std::move(meta);
        descriptor.ops.evaluate_impl = &gate_evaluate_impl;
        return NodeBuilder::from_descriptor(std::move(descriptor));
    }
    Port<TS<Int>> wire_chain(Wiring &w, Port<TS<Int>> x)
    {
        auto b = wire<Before>(w, x);
        const std::array<WiringPortRef, 1> inputs{b.erased()};
        WiringPortRef out = w.add_node(std::type_index(typeid(GateTag)), gate_node_builder(), std::span<const WiringPortRef>{inputs.data(), inputs.size()}, Value{});
        return wire<After>(w, Port<TS<Int>>{w, std::move(out)});
    }
    struct Child { static constexpr auto name = "c01p_child"; static Port<TS<Int>> compose(Wiring &w, Port<TS<Int>> x) { return wire_chain(w, x); } };
    using TryIntResult = UnNamedTSB<Field<"exception", TS<NodeError>>, Field<"out", TS<Int>>>;
    struct TryOut
    {
        static constexpr auto name = "c01p_try_out";
        static void eval(In<"r", TryIntResult, InputValidity::Unchecked> r, Out<TS<Int>> out) { auto f = r.template field<"out">(); if (f.valid() && f.modified()) out.set(f.value()); }
    };
    struct Sink { static constexpr auto name = "c01p_sink"; static void eval(In<"x", TS<Int>> x, DateTime now) { ++L->evals[{rel(now), "sink"}]; (void)x; } };

    // desc: <f|n|t>:<v;v;...>   program f flat, n nested_, t try_except_ ; "" = no tick
    std::optional<std::string> run_case_impl(const std::string &desc, verif::Ctx *ctx)
    {
        const char program = desc[0];
        const auto vals = split(desc.substr(2), ';');
        Ledger led; L = &led;
        std::string exc;
        bool failed_cycle = false;
        long cycles_run = 0, resumes = 0;
        try
        {
            Wiring w;
            auto x = wire<stdlib::replay_impl, TS<Int>>(w, Str{"x"});
            if (program == 'f') wire<Sink>(w, wire_chain(w, x));
            else if (program == 'n') wire<Sink>(w, nested_<Child>(w, x));
            else wire<Sink>(w, wire<TryOut>(w, try_except_<Child>(w, x).template as<TryIntResult>()));
            GraphBuilder gb = std::move(w).finish();
            std::vector<std::optional<Int>> xs;
            for (auto &v : vals) xs.push_back(v.empty() ? std::nullopt : std::optional<Int>{Int{std::stol(v)}});
            set_replay_values<Int>(gb.global_state(), "x", xs);
            MockGraphExecutor executor{gb, MIN_ST, MAX_ET};
            auto graph = executor.view().graph();
            graph.start(MIN_ST);
            DateTime when = graph.next_scheduled_time();
            while (when != MAX_DT && cycles_run < 16)
            {
                executor.set_evaluation_time(when);
                led.trace.push_back("|");
                int guard = 0;
                try
                {
                    while (!graph.evaluate(when)) { ++resumes; led.trace.push_back("~"); if (++guard > 6) break; }
                }
                catch (const std::exception &e)
                {
                    // only the flat and the nested program let a gate failure escape; the run ends there (as a real executor would)
                    failed_cycle = true; exc = e.what();
                    break;
                }
                ++cycles_run;
                when = graph.next_scheduled_time();
            }
            try { graph.stop(); } catch (...) {}
        }
        catch (const std::exception &e) { L = nullptr; return std::string{"wiring / start threw: "} + e.what(); }
        L = nullptr;
        std::string trace;
        for (auto &t : led.trace) trace += t + " ";
        if (ctx) { ctx->transitions += led.trace.size(); ctx->state(std::string(1, program) + trace); }
        // ---- expectations per cycle ---------------------------------------------------------------------------------------
        bool stopped = false;
        for (std::size_t c = 0; c < vals.size(); ++c)
        {
            const long cy = static_cast<long>(c);
            auto n = [&](const char *who) { auto it = led.evals.find({cy, who}); return it == led.evals.end() ? 0 : it->second; };
            const std::string where = "cycle " + std::to_string(c) + " (input " + (vals[c].empty() ? std::string{"none"} : vals[c]) + "), trace: " + trace + ": ";
            if (stopped || vals[c].empty())
            {
                if (n("before") || n("gate") || n("after")) return where + "nodes were evaluated although nothing ticked" + (stopped ? " (the run had failed)" : "");
                continue;
            }
            const long v = std::stol(vals[c]);
            for (const char *who : {"before", "gate", "after", "sink"})
                if (n(who) > 1) return where + "node '" + who + "' was evaluated " + std::to_string(n(who)) + " times in one engine cycle";
            if (n("before") != 1) return where + "node 'before' was evaluated " + std::to_string(n("before")) + " times, expected once";
            if (v < 0)
            {
                if (n("gate") != 0 || n("after") != 0) return where + "nodes ran after the gate threw";
                if (program != 't') stopped = true;   // the failure propagates; with try_except_ it is captured and the run goes on
                continue;
            }
            const int pauses = v >= 200 ? 2 : v >= 100 ? 1 : 0;
            if (led.gate_entries[cy] != pauses + 1) return where + "the pausing node was entered " + std::to_string(led.gate_entries[cy]) + " times, expected " + std::to_string(pauses + 1) + " (one per resume)";
            if (n("gate") != 1) return where + "the gate completed " + std::to_string(n("gate")) + " times";
            if (n("after") != 1) return where + "node 'after' was evaluated " + std::to_string(n("after")) + " times, expected once (after the resume)";
        }
        if (failed_cycle && program == 't') return "a gate failure inside try_except_ escaped: " + exc;
        (void)resumes;
        return std::nullopt;
    }
}  // namespace

void verif_init() { stdlib::register_standard_operators(); }
std::optional<std::string> verif_run_case(verif::Ctx &, const std::string &desc) { return run_case_impl(desc, nullptr); }

void verif_enumerate(verif::Ctx &ctx)
{
    const bool th = ctx.thorough();
    const int T = th ? 6 : 5;
    const std::vector<std::string> alpha = {"", "1", "-1", "100", "200"};
    for (char program : std::string{"fnt"})
    {
        std::vector<int> idx(static_cast<std::size_t>(T), 0);
        while (true)
        {
            if (ctx.next_is_mine())
            {
                std::string desc = std::string(1, program) + ":";
                int special = 0;
                for (int c = 0; c < T; ++c)
                {
                    std::string v = alpha[static_cast<std::size_t>(idx[static_cast<std::size_t>(c)])];
                    if (v == "1") v = std::to_string(1 + c); else if (v == "100") v = std::to_string(100 + c); else if (v == "200") v = std::to_string(200 + c);
                    if (v.size() >= 3 || v == "-1") ++special;
                    desc += (c ? ";" : "") + v;
                }
                ++ctx.evaluations; ++ctx.traces;
                if (special >= 2) ctx.nontriv(desc);
                ctx.count(std::string{"cases_"} + program);
                if (auto v = run_case_impl(desc, &ctx))
                {
                    auto v2 = run_case_impl(desc, nullptr);
                    if (!v2 || *v2 != *v) throw verif::HarnessError("case not reproducible: " + desc);
                    ctx.violation(desc, *v, std::string(1, program) + ": " + v->substr(v->rfind(": ") == std::string::npos ? 0 : v->rfind(": ") + 2, 50));
                }
            }
            int p = 0;
            while (p < T && ++idx[static_cast<std::size_t>(p)] == static_cast<int>(alpha.size())) { idx[static_cast<std::size_t>(p)] = 0; ++p; }
            if (p == T) break;
        }
    }
}

VERIF_MAIN()
