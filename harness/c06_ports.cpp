// C06 (port-kind part) — statement order must not matter for structured ports of every source kind.
// One dataflow program: src -> Tracker (ordinary output: bundle / list {a,b}; recordable state: the same shape, different
// contents) -> two consumers reading the ordinary output or the recordable state, whole or one leaf. Every permutation of the four
// wiring statements is built (a statement whose source port does not exist yet is wired on a forward-declared port,
// delayed_binding<S>, bound as soon as the source exists) x every input history; all permutations must produce the streams of
// the reference model (and hence identical streams).
#include "vpch.h"
#include "vcommon.h"
#include "tsshapes.h"
#include <hgraph/types/context_wiring.h>
using namespace hgraph;
using namespace tsshapes;

namespace
{
    using BundleAB = TSB<"C06PortsAB", Field<"a", TS<Int>>, Field<"b", TS<Int>>>;
    using ListAB = TSL<TS<Int>, 2>;

    struct Run { std::vector<std::string> script; std::map<int, std::vector<std::pair<long, std::string>>> log; };
    Run *g = nullptr;

    struct Src
    {
        static constexpr auto name = "c06p_src";
        static constexpr bool schedule_on_start = true;
        static void eval(NodeScheduler sched, DateTime now, Out<TS<Int>> out)
        {
            const long c = rel(now);
            if (c < static_cast<long>(g->script.size()) && !g->script[static_cast<std::size_t>(c)].empty()) out.set(Int{std::stol(g->script[static_cast<std::size_t>(c)])});
            if (c + 1 < static_cast<long>(g->script.size())) sched.schedule(MIN_TD);
        }
    };
    // ordinary output: a = 2*in (every tick), b = 3*in (odd inputs only); recordable state: a = in (every tick), b = in+100 (even inputs only)
    struct TrackerB
    {
        static constexpr auto name = "c06p_tracker_bundle";
        static void eval(In<"in", TS<Int>> in, RecordableState<BundleAB> state, Out<BundleAB> out)
        {
            const Int v = in.value();
            out.field<"a">().set(Int{2 * v});
            if (v % 2 != 0) out.field<"b">().set(Int{3 * v});
            state.field<"a">().set(v);
            if (v % 2 == 0) state.field<"b">().set(Int{v + 100});
        }
    };
    struct TrackerL
    {
        static constexpr auto name = "c06p_tracker_list";
        static void eval(In<"in", TS<Int>> in, RecordableState<ListAB> state, Out<ListAB> out)
        {
            const Int v = in.value();
            out.set(0, Int{2 * v});
            if (v % 2 != 0) out.set(1, Int{3 * v});
            state.set(0, v);
            if (v % 2 == 0) state.set(1, Int{v + 100});
        }
    };
    std::string opt(bool valid, long v) { return valid ? std::to_string(v) : std::string{"-"}; }
    struct ReadB
    {
        static constexpr auto name = "c06p_read_bundle";
        static void eval(In<"s", BundleAB, InputActivity::Active, InputValidity::Unchecked> s, Scalar<"id", Int> id, DateTime now)
        {
            auto a = s.field<"a">(); auto b = s.field<"b">();
            g->log[static_cast<int>(id.value())].emplace_back(rel(now), opt(a.valid(), a.valid() ? static_cast<long>(a.value()) : 0) + "/" + opt(b.valid(), b.valid() ? static_cast<long>(b.value()) : 0));
        }
    };
    struct ReadL
    {
        static constexpr auto name = "c06p_read_list";
        static void eval(In<"s", ListAB, InputActivity::Active, InputValidity::Unchecked> s, Scalar<"id", Int> id, DateTime now)
        {
            auto a = s[0]; auto b = s[1];
            g->log[static_cast<int>(id.value())].emplace_back(rel(now), opt(a.valid(), a.valid() ? static_cast<long>(a.value()) : 0) + "/" + opt(b.valid(), b.valid() ? static_cast<long>(b.value()) : 0));
        }
    };
    struct ReadLeaf
    {
        static constexpr auto name = "c06p_read_leaf";
        static void eval(In<"x", TS<Int>> x, Scalar<"id", Int> id, DateTime now) { g->log[static_cast<int>(id.value())].emplace_back(rel(now), std::to_string(static_cast<long>(x.value()))); }
    };

    struct Bump { static constexpr auto name = "c06p_bump"; static void eval(In<"x", TS<Int>> x, Out<TS<Int>> out) { out.set(x.value() + 1); } };
    struct Log2
    {
        static constexpr auto name = "c06p_log2";
        static void eval(In<"a", TS<Int>, InputActivity::Active, InputValidity::Unchecked> a, In<"b", TS<Int>, InputActivity::Active, InputValidity::Unchecked> b, Scalar<"id", Int> id, DateTime now)
        {
            g->log[static_cast<int>(id.value())].emplace_back(rel(now), opt(a.valid(), a.valid() ? static_cast<long>(a.value()) : 0) + "/" + opt(b.valid(), b.valid() ? static_cast<long>(b.value()) : 0));
        }
    };
    // a child graph that captures BOTH leaves of one producer: two same-typed projections of one node must stay two captures
    struct BothLeaves
    {
        static constexpr auto name = "c06p_both_leaves";
        static void compose(Wiring &w, Port<TS<Int>> a, Port<TS<Int>> b, Scalar<"id", Int> id) { wire<Log2>(w, wire<Bump>(w, a), wire<Bump>(w, b), id); }
    };

    // the same, but the two leaves reach the child as CAPTURED outer ports (contexts), not as arguments
    struct BothLeavesCaptured
    {
        static constexpr auto name = "c06p_both_leaves_captured";
        static void compose(Wiring &w, Port<TS<Int>> trigger, Scalar<"id", Int> id)
        {
            (void)trigger;
            auto lo = context::get<TS<Int>>(w, "c06p_lo");
            auto hi = context::get<TS<Int>>(w, "c06p_hi");
            wire<Log2>(w, wire<Bump>(w, lo), wire<Bump>(w, hi), id);
        }
    };

    // consumer spec: <kind><form>  kind: o ordinary output, r recordable state;  form: w whole structure, a leaf a / element 0, b leaf b / element 1
    struct Outcome { std::optional<std::string> violation; std::string sig; };

    template <typename S, typename Tracker, typename ReadWhole>
    Outcome run_program(const std::string &c1, const std::string &c2, const std::vector<int> &order, const std::vector<std::string> &script)
    {
        Outcome out;
        Run run; run.script = script;
        g = &run;
        std::string exc;
        try
        {
            Wiring w;
            std::optional<Port<TS<Int>>> src;
            std::optional<Port<S>> tracker;
            std::optional<decltype(delayed_binding<TS<Int>>(w))> src_late;
            struct Late { decltype(delayed_binding<S>(w)) port; char kind; };
            std::vector<Late> late;
            auto leaf = [&](const Port<S> &p, char form) -> Port<TS<Int>> {
                if constexpr (std::is_same_v<S, BundleAB>) return wire<stdlib::getattr_>(w, p, Str{form == 'a' ? "a" : "b"}).template as<TS<Int>>();
                else return tsl_element(p, form == 'a' ? 0 : 1);
            };
            auto source_port = [&](char kind) -> Port<S> { return kind == 'o' ? *tracker : recordable_state(*tracker).template as<S>(); };
            auto wire_consumer = [&](const std::string &spec, int id) {
                Port<S> p;
                if (tracker) p = source_port(spec[0]);
                else { late.push_back(Late{delayed_binding<S>(w), spec[0]}); p = late.back().port(); }
                if (spec[1] == 'w') wire<ReadWhole>(w, p, Int{id});
                else if (spec[1] == 'n') nested_<BothLeaves>(w, leaf(p, 'a'), leaf(p, 'b'), Int{id});
                else if (spec[1] == 'c')
                {
                    auto la = leaf(p, 'a'), lb = leaf(p, 'b');
                    context::scope<"c06p_lo"> c_lo{w, la};
                    context::scope<"c06p_hi"> c_hi{w, lb};
                    nested_<BothLeavesCaptured>(w, la, Int{id});
                }
                else wire<ReadLeaf>(w, leaf(p, spec[1]), Int{id});
            };
            for (int st : order)
            {
                switch (st)
                {
                    case 0: src = wire<Src>(w); if (src_late) (*src_late)(*src); break;
                    case 1:
                    {
                        if (src) tracker = wire<Tracker>(w, *src);
                        else { src_late = delayed_binding<TS<Int>>(w); tracker = wire<Tracker>(w, (*src_late)()); }
                        for (auto &l : late) l.port(source_port(l.kind));
                        late.clear();
                        break;
                    }
                    case 2: wire_consumer(c1, 1); break;
                    case 3: wire_consumer(c2, 2); break;
                    default: break;
                }
            }
            GraphBuilder gb = std::move(w).finish();
            GraphExecutorBuilder eb;
            eb.graph_builder(std::move(gb)).start_time(MIN_ST).end_time(MIN_ST + TimeDelta{static_cast<long>(script.size()) + 3});
            auto ex = eb.make_executor();
            ex.view().run();
        }
        catch (const std::exception &e) { exc = e.what(); }
        g = nullptr;
        if (!exc.empty()) { out.violation = "wiring/run threw: " + exc; return out; }
        // ---- reference model ---------------------------------------------------------------------------------------------------
        std::map<int, std::vector<std::pair<long, std::string>>> want;
        struct Pair2 { bool va{false}, vb{false}; long a{0}, b{0}; } o, r;
        for (std::size_t c = 0; c < script.size(); ++c)
        {
            if (script[c].empty()) continue;
            const long v = std::stol(script[c]);
            bool oa = true, ob = v % 2 != 0, ra = true, rb = v % 2 == 0;
            o.va = true; o.a = 2 * v; if (ob) { o.vb = true; o.b = 3 * v; }
            r.va = true; r.a = v; if (rb) { r.vb = true; r.b = v + 100; }
            int id = 0;
            for (const std::string *spec : {&c1, &c2})
            {
                ++id;
                const Pair2 &p = (*spec)[0] == 'o' ? o : r;
                const bool ta = (*spec)[0] == 'o' ? oa : ra, tb = (*spec)[0] == 'o' ? ob : rb;
                if ((*spec)[1] == 'w') want[id].emplace_back(static_cast<long>(c), opt(p.va, p.a) + "/" + opt(p.vb, p.b));
                else if ((*spec)[1] == 'n' || (*spec)[1] == 'c') { if (ta || tb) want[id].emplace_back(static_cast<long>(c), opt(p.va, p.a + 1) + "/" + opt(p.vb, p.b + 1)); }
                else if ((*spec)[1] == 'a' && ta) want[id].emplace_back(static_cast<long>(c), std::to_string(p.a));
                else if ((*spec)[1] == 'b' && tb) want[id].emplace_back(static_cast<long>(c), std::to_string(p.b));
            }
        }
        auto show = [](const std::vector<std::pair<long, std::string>> &v) { std::string s; for (auto &[t, x] : v) s += " t" + std::to_string(t) + "=" + x; return s; };
        for (int id : {1, 2})
        {
            out.sig += show(run.log[id]) + "|";
            if (run.log[id] != want[id])
            {
                out.violation = "consumer " + std::to_string(id) + " (" + (id == 1 ? c1 : c2) + ") saw" + show(run.log[id]) + " but the dataflow gives" + show(want[id]);
                return out;
            }
        }
        return out;
    }

    // desc: <shape b|l>:<c1>,<c2>:<order digits>:<script ;>
    Outcome run_desc(const std::string &desc)
    {
        const auto f = split(desc, ':');
        const auto cs = split(f[1], ',');
        std::vector<int> order; for (char ch : f[2]) order.push_back(ch - '0');
        const auto script = split(f[3], ';');
        if (f[0] == "b") return run_program<BundleAB, TrackerB, ReadB>(cs[0], cs[1], order, script);
        return run_program<ListAB, TrackerL, ReadL>(cs[0], cs[1], order, script);
    }
}  // namespace

void verif_init() { stdlib::register_standard_operators(); }
std::optional<std::string> verif_run_case(verif::Ctx &, const std::string &desc) { return run_desc(desc).violation; }

void verif_enumerate(verif::Ctx &ctx)
{
    const bool th = ctx.thorough();
    const std::vector<std::string> consumers = {"ow", "oa", "ob", "on", "oc", "rw", "ra", "rb", "rn", "rc"};
    std::vector<std::vector<std::string>> scripts;
    {
        // every history over T cycles of {no tick, odd value, even value}
        const int T = th ? 5 : 4;
        const std::vector<std::string> alpha = {"", "3", "4"};
        std::vector<int> idx(static_cast<std::size_t>(T), 0);
        while (true)
        {
            std::vector<std::string> s; bool any = false;
            for (int c = 0; c < T; ++c) { s.push_back(alpha[static_cast<std::size_t>(idx[static_cast<std::size_t>(c)])]); if (!s.back().empty()) { any = true; if (s.back() == "3") s.back() = std::to_string(3 + 2 * c); else s.back() = std::to_string(4 + 2 * c); } }
            if (any) scripts.push_back(s);
            int p = 0;
            while (p < T && ++idx[static_cast<std::size_t>(p)] == 3) { idx[static_cast<std::size_t>(p)] = 0; ++p; }
            if (p == T) break;
        }
    }
    std::vector<int> perm = {0, 1, 2, 3};
    std::vector<std::string> orders;
    do { std::string o; for (int x : perm) o += static_cast<char>('0' + x); orders.push_back(o); } while (std::next_permutation(perm.begin(), perm.end()));
    for (const char *shape : {"b", "l"})
        for (auto &c1 : consumers) for (auto &c2 : consumers)
            for (auto &sc : scripts)
            {
                std::string body;
                for (std::size_t i = 0; i < sc.size(); ++i) body += (i ? ";" : "") + sc[i];
                std::string first_sig;
                for (auto &ord : orders)
                {
                    if (!ctx.mine(ctx.case_counter)) continue;
                    const std::string desc = std::string{shape} + ":" + c1 + "," + c2 + ":" + ord + ":" + body;
                    ++ctx.evaluations; ++ctx.traces;
                    Outcome o = run_desc(desc);
                    ctx.state(std::string{shape} + c1 + c2 + o.sig);
                    if (ord != "0123") ctx.nontriv(desc);
                    ctx.count(std::string{"cases_"} + shape);
                    if (ord.find('1') > ord.find('2') || ord.find('1') > ord.find('3')) ctx.count("consumer_first_cases");
                    if (o.violation) ctx.violation(desc, *o.violation, std::string{shape} + ": " + c1 + "," + c2 + " order " + ord);
                    else if (first_sig.empty()) first_sig = o.sig;
                    else if (o.sig != first_sig) ctx.violation(desc, "streams differ between statement orders", std::string{shape} + ": order dependence");
                }
                ++ctx.case_counter;   // one (program, history) = one shard unit: all 24 orders are compared inside it
            }
}

VERIF_MAIN()
