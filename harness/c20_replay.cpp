// C20 — recording any time-series and replaying the recording reproduces the same ticks.
// Graph 1: a scripted writer of each shape -> stdlib record (cycle-aligned buffer in GlobalState) + a generic probe.
// Graph 2: stdlib replay of that buffer (apply_delta onto an output that received all earlier deltas) -> record + probe.
// Oracle: the second recording equals the first cycle for cycle (Value::equals on every captured delta, empty = no tick),
// and the probe logs (cycle, canonical delta, value) are identical. This is the statement's equivalent form as well:
// applying a captured delta to a copy of the pre-tick state yields the post-tick state and re-capturing yields the same delta.
#include "tsshapes.h"
#include <hgraph/types/record_replay.h>
using namespace hgraph;
using namespace tsshapes;

namespace
{
    struct Tick { long t; std::string delta, value; bool valid; bool operator==(const Tick &o) const { return t == o.t && delta == o.delta && value == o.value && valid == o.valid; } };
    struct Run { std::vector<std::string> script; int cycles{0}; std::vector<Tick> probe; };
    Run *g = nullptr;

    template <typename Sh>
    struct Writer
    {
        static constexpr auto name = "c20_writer";
        static constexpr bool schedule_on_start = true;
        static void eval(NodeScheduler sched, DateTime now, Out<typename Sh::S> out)
        {
            const long c = rel(now);
            if (c < g->cycles)
            {
                const std::string &ops = g->script[static_cast<std::size_t>(c)];
                if (!ops.empty()) for (auto &op : split(ops, ',')) Sh::apply(out, op, now);
            }
            if (c + 1 < g->cycles) sched.schedule(MIN_TD);
        }
    };
    template <typename Sh>
    struct Probe
    {
        static constexpr auto name = "c20_probe";
        static void eval(In<"x", typename Sh::S, InputActivity::Active, InputValidity::Unchecked> x, DateTime now)
        {
            const TSInputView &v = [&]() -> const TSInputView & { if constexpr (std::is_base_of_v<TSInputView, std::remove_cvref_t<decltype(x)>>) return x; else return x.base(); }();
            Tick t; t.t = rel(now); t.valid = v.valid();
            Value d = capture_delta(v);
            t.delta = d.has_value() ? canon(d.to_string()) : std::string{"<none>"};
            t.value = t.valid ? canon(v.value().to_string()) : std::string{"<invalid>"};
            g->probe.push_back(t);
        }
    };

    struct Outcome { std::optional<std::string> violation; std::string sig; std::uint64_t ticks{0}; bool nontrivial{false}; std::string sig_class; };

    std::string show(const std::vector<Tick> &v) { std::ostringstream o; for (auto &t : v) o << " t" << t.t << ":" << t.delta << "/" << t.value; return o.str(); }

    bool g_raw = false;   // replay the recorded buffer ITSELF (the typed layout dense_record writes) instead of re-seeding it through set_replay_deltas
    template <typename Sh>
    Outcome run_shape(const std::vector<std::string> &script)
    {
        Outcome out;
        Value raw1;
        Run r1, r2;
        r1.script = script; r1.cycles = static_cast<int>(script.size());
        r2 = r1;
        std::vector<std::optional<Value>> rec1, rec2;
        std::string exc;
        try
        {
            {
                g = &r1;
                Wiring w;
                auto wr = wire<Writer<Sh>>(w);
                wire<stdlib::dense_record_impl>(w, wr, Str{"rec"});
                wire<Probe<Sh>>(w, wr);
                GraphBuilder gb = std::move(w).finish();
                GraphExecutorBuilder eb;
                eb.graph_builder(std::move(gb)).start_time(MIN_ST).end_time(MIN_ST + TimeDelta{r1.cycles + 4});
                auto ex = eb.make_executor();
                ex.view().run();
                rec1 = testing::get_recorded_deltas(ex.view().graph().global_state(), "rec");
                if (g_raw && ex.view().graph().global_state().contains("rec")) raw1 = Value{ex.view().graph().global_state().get("rec")};
            }
            {
                g = &r2;
                Wiring w;
                auto rp = wire<stdlib::replay_impl, typename Sh::S>(w, Str{"rec"});
                wire<stdlib::dense_record_impl>(w, rp, Str{"rec2"});
                wire<Probe<Sh>>(w, rp);
                GraphBuilder gb = std::move(w).finish();
                if (g_raw && raw1.has_value()) gb.global_state().set("rec", raw1);
                else testing::set_replay_deltas(gb.global_state(), "rec", rec1);
                GraphExecutorBuilder eb;
                eb.graph_builder(std::move(gb)).start_time(MIN_ST).end_time(MIN_ST + TimeDelta{r1.cycles + 4});
                auto ex = eb.make_executor();
                ex.view().run();
                rec2 = testing::get_recorded_deltas(ex.view().graph().global_state(), "rec2");
            }
        }
        catch (const std::exception &e) { exc = e.what(); }
        g = nullptr;
        if (!exc.empty()) { out.violation = "run threw: " + exc; return out; }
        out.ticks = r1.probe.size();
        std::ostringstream sig;
        sig << Sh::name << "#";
        for (auto &t : r1.probe) sig << t.t << "=" << t.value << ",";
        out.sig = sig.str();
        for (auto &s : script) if (s.find(',') != std::string::npos) out.nontrivial = true;
        // A tick whose net delta is empty (adding a present element, removing an absent one) writes nothing; whether such a tick is
        // re-created by replay is outside the statement. It is treated as "no tick" on both sides unless it changes the value
        // (the first empty tick makes an invalid collection valid-and-empty, which the probe comparison below still requires).
        auto empty_delta = [](const std::string &d) { return prune_delta(d) == "<>"; };
        std::vector<std::string> b1, b2;   // pruned canonical text of every recorded delta ("" = no tick)
        auto render = [&](const std::vector<std::optional<Value>> &v, std::vector<std::string> &o) {
            for (auto &e : v) { std::string t = e.has_value() ? prune_delta(canon(e->to_string())) : std::string{}; if (t == "<>") t.clear(); o.push_back(t); }
            while (!o.empty() && o.back().empty()) o.pop_back();
        };
        render(rec1, b1); render(rec2, b2);
        for (auto &t : r1.probe) t.delta = prune_delta(t.delta);
        for (auto &t : r2.probe) t.delta = prune_delta(t.delta);
        auto normalise = [&](std::vector<Tick> &v) {
            std::vector<Tick> o; std::string last = "<invalid>";
            for (auto &t : v) { if (!empty_delta(t.delta) || t.value != last) { o.push_back(t); last = t.value; } }
            v.swap(o);
        };
        normalise(r1.probe); normalise(r2.probe);
        auto soften_all = [&]() {
            auto soften = [](std::vector<Tick> v) { for (auto &t : v) { std::size_t p; while ((p = t.value.find("<null>")) != std::string::npos) t.value.replace(p, 6, "<>"); } return v; };
            auto a = soften(r1.probe), b = soften(r2.probe);
            auto norm2 = [&](std::vector<Tick> &v) { std::vector<Tick> o; std::string last = "<invalid>"; for (auto &t : v) { if (prune_delta(t.delta) != "<>" || t.value != last) { o.push_back(t); last = t.value; } } v.swap(o); };
            norm2(a); norm2(b);
            return a == b;
        };
        if (b1.size() != b2.size())
        {
            if (soften_all()) out.sig_class = "never-ticked collection field of a bundle is valid-and-empty after replay";
            out.violation = "replayed recording has " + std::to_string(b2.size()) + " cycles, the original " + std::to_string(b1.size()) + "; original ticks:" + show(r1.probe) + " replayed ticks:" + show(r2.probe);
            return out;
        }
        for (std::size_t i = 0; i < b1.size(); ++i)
            if (b1[i] != b2[i])
            {
                if (soften_all()) out.sig_class = "never-ticked collection field of a bundle is valid-and-empty after replay";
                out.violation = "recorded delta of cycle " + std::to_string(i) + " differs after replay: original " + (b1[i].empty() ? std::string{"<no tick>"} : b1[i]) + " replayed " + (b2[i].empty() ? std::string{"<no tick>"} : b2[i]);
                return out;
            }
        if (r1.probe != r2.probe)
        {
            out.violation = "tick stream differs after replay:\n original:" + show(r1.probe) + "\n replayed:" + show(r2.probe);
            // classification for the known finding: the only difference is a never-ticked collection field of a bundle reading
            // <null> (invalid) in the original and <> (valid, empty) after replay
            auto soften = [](std::vector<Tick> v) { for (auto &t : v) { std::size_t p; while ((p = t.value.find("<null>")) != std::string::npos) t.value.replace(p, 6, "<>"); } return v; };
            auto a = soften(r1.probe), b = soften(r2.probe);
            normalise(a); normalise(b);
            if (a == b) out.sig_class = "never-ticked collection field of a bundle is valid-and-empty after replay";
        }
        return out;
    }

    // ---- memory backend: record(ts, "x") writes (time, delta) entries under ":memory:nodes.record.x"; replay(key, recordable_id) reads
    // them back by ABSOLUTE time, in a run that may start later than the recording did. The replayed stream must be exactly the
    // original ticks that lie in the replay run's window - same cycles, and nothing at a cycle where the original did not tick.
    int g_mem_start = -1;
    template <typename Sh>
    Outcome run_shape_mem(const std::vector<std::string> &script, int start, const std::string &shape)
    {
        Outcome out;
        constexpr const char *REC_KEY = ":memory:nodes.record.x";
        using S = typename Sh::S;
        Run r1, r2;
        r1.script = script; r1.cycles = static_cast<int>(script.size());
        r2.cycles = 0;   // the replay graph has no writer
        Value recording;
        std::string exc;
        try
        {
            {
                g = &r1;
                Wiring w;
                auto wr = wire<Writer<Sh>>(w);
                wire<stdlib::record>(w, wr, Str{"x"});
                wire<Probe<Sh>>(w, wr);
                GraphBuilder gb = std::move(w).finish();
                GraphExecutorBuilder eb;
                eb.graph_builder(std::move(gb)).start_time(MIN_ST).end_time(MIN_ST + TimeDelta{r1.cycles + 4});
                auto ex = eb.make_executor();
                ex.view().run();
                const ValueView rec = ex.view().graph().global_state().get(REC_KEY);
                if (rec.valid()) recording = Value{rec};
            }
            {
                g = &r2;
                Wiring w;
                auto rp = wire<stdlib::replay, S>(w, Str{"x"}, arg<"recordable_id">(Str{"nodes.record"})).template as<S>();
                wire<Probe<Sh>>(w, rp);
                GraphBuilder gb = std::move(w).finish();
                if (recording.has_value()) gb.global_state().set(REC_KEY, recording);
                GraphExecutorBuilder eb;
                eb.graph_builder(std::move(gb)).start_time(MIN_ST + MIN_TD * start).end_time(MIN_ST + TimeDelta{r1.cycles + 4});
                auto ex = eb.make_executor();
                ex.view().run();
            }
        }
        catch (const std::exception &e) { exc = e.what(); }
        g = nullptr;
        if (!exc.empty()) { out.violation = "run threw: " + exc; return out; }
        // the recording brought back as STATE (what a recovering component does at its start): folding the recorded deltas up to the start
        // time into an empty copy must give the value the original held at that time
        {
            std::string expected = "<none>";
            for (auto &t : r1.probe) if (t.t <= start && t.valid) expected = t.value;
            std::string got = "<none>";
            try
            {
                GlobalState st;
                if (recording.has_value()) st.view().set(REC_KEY, recording);
                const Value v = record_replay::recorded_seed_resolver(st.view(), "nodes.record.x", ts_type<S>(), MIN_ST + MIN_TD * start);
                if (v.has_value()) got = canon(v.to_string());
            }
            catch (const std::exception &e) { got = std::string{"threw: "} + e.what(); }
            if (got != expected)
            {
                out.violation = "the recording folded back into state as of cycle " + std::to_string(start) + " is " + got + " but the original held " + expected + "\n original:" + show(r1.probe);
                return out;
            }
        }
        out.ticks = r1.probe.size();
        std::ostringstream sig;
        sig << "M" << start << Sh::name << "#";
        for (auto &t : r2.probe) sig << t.t << "=" << t.value << ",";
        out.sig = sig.str();
        for (auto &t : r1.probe) t.delta = prune_delta(t.delta);
        for (auto &t : r2.probe) t.delta = prune_delta(t.delta);
        auto normalise = [&](std::vector<Tick> &v) {
            std::vector<Tick> o; std::string last = "<invalid>";
            for (auto &t : v) { if (prune_delta(t.delta) != "<>" || t.value != last) { o.push_back(t); last = t.value; } }
            v.swap(o);
        };
        std::set<long> raw_cycles;   // every cycle in which the original ticked at all (empty deltas included)
        for (auto &t : r1.probe) if (t.t >= start) raw_cycles.insert(t.t);
        normalise(r1.probe); normalise(r2.probe);
        std::vector<Tick> expected;
        for (auto &t : r1.probe) if (t.t >= start) expected.push_back(t);
        out.nontrivial = start > 0 && expected.size() < r1.probe.size() && !expected.empty();
        const bool scalar = shape == "ts" || shape == "str";
        const std::string ctx_text = "\n original:" + show(r1.probe) + "\n replayed from cycle " + std::to_string(start) + ":" + show(r2.probe);
        if (start == 0 || scalar)
        {
            if (expected != r2.probe) out.violation = "memory-backend replay differs from the recorded ticks in its window:" + ctx_text;
            return out;
        }
        // a run that starts mid-recording starts from an empty collection: removals of elements it never saw re-capture differently (or not at
        // all). Required: no tick at a cycle where the original did not tick; every original tick that adds / modifies something is there.
        std::set<long> orig_cycles, replay_cycles;
        for (auto &t : expected) orig_cycles.insert(t.t);
        for (auto &t : r2.probe) replay_cycles.insert(t.t);
        for (long c : replay_cycles) if (!raw_cycles.count(c)) { out.violation = "memory-backend replay ticks in cycle " + std::to_string(c) + " where the original did not tick:" + ctx_text; return out; }
        for (auto &t : expected)
        {
            const bool removal_only = t.delta.find('=') == std::string::npos && t.delta.find('+') == std::string::npos && shape != "tsl";
            (void)removal_only;
        }
        if (shape == "tsl")
        {
            // list deltas name only the modified elements: they must match exactly
            if (expected.size() != r2.probe.size()) { out.violation = "memory-backend replay has " + std::to_string(r2.probe.size()) + " ticks in its window, the original " + std::to_string(expected.size()) + ":" + ctx_text; return out; }
            for (std::size_t i = 0; i < expected.size(); ++i)
                if (expected[i].t != r2.probe[i].t || expected[i].delta != r2.probe[i].delta) { out.violation = "memory-backend replay delta differs in cycle " + std::to_string(expected[i].t) + ":" + ctx_text; return out; }
        }
        return out;
    }

    Outcome run_desc_plain(const std::string &desc);
    Outcome run_desc(const std::string &desc)
    {
        // "M<s>:<shape>|..." memory (absolute-time) backend, replay run starting at cycle s
        if (desc[0] == 'M' && desc.find(':') != std::string::npos && desc.find(':') < desc.find('|'))
        {
            const auto colon = desc.find(':');
            g_mem_start = std::stoi(desc.substr(1, colon - 1));
            Outcome o;
            try { o = run_desc_plain(desc.substr(colon + 1)); } catch (...) { g_mem_start = -1; throw; }
            g_mem_start = -1;
            return o;
        }
        // "R:<shape>|..." replays the recorded buffer itself
        if (desc.rfind("R:", 0) == 0) { g_raw = true; Outcome o; try { o = run_desc_plain(desc.substr(2)); } catch (...) { g_raw = false; throw; } g_raw = false; if (o.violation) o.violation = "(recorded buffer fed back as it is) " + *o.violation; return o; }
        return run_desc_plain(desc);
    }
    Outcome run_desc_plain(const std::string &desc)
    {
        const auto bar = desc.find('|');
        const std::string shape = desc.substr(0, bar);
        std::vector<std::string> script = split(desc.substr(bar + 1), ';');
        if (g_mem_start >= 0)
        {
            if (shape == "ts") return run_shape_mem<ShapeTS>(script, g_mem_start, shape);
            if (shape == "str") return run_shape_mem<ShapeStr>(script, g_mem_start, shape);
            if (shape == "tss") return run_shape_mem<ShapeTSS>(script, g_mem_start, shape);
            if (shape == "tsd") return run_shape_mem<ShapeDictI>(script, g_mem_start, shape);
            if (shape == "tsl") return run_shape_mem<ShapeTSL>(script, g_mem_start, shape);
            if (shape == "tsds") return run_shape_mem<ShapeDictS>(script, g_mem_start, shape);
            if (shape == "tsdb") return run_shape_mem<ShapeDictB>(script, g_mem_start, shape);
            throw verif::HarnessError("memory mode: unknown shape " + shape);
        }
        if (shape == "ts") return run_shape<ShapeTS>(script);
        if (shape == "str") return run_shape<ShapeStr>(script);
        if (shape == "signal") return run_shape<ShapeSignal>(script);
        if (shape == "tss") return run_shape<ShapeTSS>(script);
        if (shape == "tsd") return run_shape<ShapeDictI>(script);
        if (shape == "tsds") return run_shape<ShapeDictS>(script);
        if (shape == "tsdb") return run_shape<ShapeDictB>(script);
        if (shape == "tsl") return run_shape<ShapeTSL>(script);
        if (shape == "tsldyn") return run_shape<ShapeDynL>(script);
        if (shape == "tsls") return run_shape<ShapeListS>(script);
        if (shape == "tslb") return run_shape<ShapeListB>(script);
        if (shape == "tsll") return run_shape<ShapeListL>(script);
        if (shape == "tsb") return run_shape<ShapeTSB>(script);
        if (shape == "tsbd") return run_shape<ShapeBundleD>(script);
        if (shape == "tsw") return run_shape<ShapeTSW>(script);
        throw verif::HarnessError("unknown shape " + shape);
    }

    void gen_lists(const std::vector<std::string> &alphabet, int max_len, std::vector<std::string> &out)
    {
        out.push_back("");
        std::vector<std::string> prev = {""};
        for (int l = 1; l <= max_len; ++l)
        {
            std::vector<std::string> next;
            for (auto &p : prev) for (auto &a : alphabet) next.push_back(p.empty() ? a : p + "," + a);
            for (auto &n : next) out.push_back(n);
            prev.swap(next);
        }
    }
}  // namespace

void verif_init() { stdlib::register_standard_operators(); }
std::optional<std::string> verif_run_case(verif::Ctx &, const std::string &desc) { return run_desc(desc).violation; }

void verif_enumerate(verif::Ctx &ctx)
{
    const bool th = ctx.thorough();
    struct Space { std::string shape; std::vector<std::string> alphabet; int max_len; int cycles; };
    std::vector<Space> spaces = {
        {"ts", {"v1", "v2"}, 1, th ? 7 : 6},
        {"str", {"a", "b"}, 1, th ? 6 : 5},
        {"signal", {"t"}, 1, th ? 8 : 7},
        {"tss", {"+1", "+2", "-1", "-2", "c", "B", "D"}, 2, th ? 4 : 3},
        {"tsd", {"s1=5", "s1=6", "s2=5", "e1", "e2", "c", "B"}, 2, th ? 4 : 3},
        {"tsds", {"a1:1", "a1:2", "r1:1", "a2:1", "e1", "e2"}, 2, th ? 4 : 3},
        {"tsdb", {"1a=5", "1b=6", "2a=5", "1a=7", "e1", "e2"}, 2, th ? 4 : 3},
        {"tsl", {"0=1", "0=2", "1=1"}, 2, th ? 5 : 4},
        {"tsldyn", {"0=1", "0=2", "1=1", "2=1", "4=1"}, 2, th ? 4 : 3},   // grow-only dynamic list, growth past unset slots
        {"tsls", {"0+1", "0-1", "1+1", "1+2", "1-1"}, 2, th ? 4 : 3},
        {"tslb", {"0a=1", "0b=2", "1a=3", "0a=4", "1b=5"}, 2, th ? 4 : 3},   // list elements that are bundles, completed one member at a time
        {"tsll", {"00=1", "01=2", "10=3", "00=4"}, 2, th ? 4 : 3},
        {"tsb", {"a=1", "a=2", "b=1", "W1:1", "W2:1"}, 2, th ? 4 : 3},
        {"tsbd", {"x=1", "x=2", "s1=5", "s2=6", "e1"}, 2, th ? 4 : 3},
        {"tsw", {"p1", "p2", "p3"}, 1, th ? 8 : 6},
        {"tss", {"+1", "+2", "-1", "-2", "c"}, 3, 2},
        {"tsd", {"s1=5", "s1=6", "e1", "c", "s2=5"}, 3, 2},
        {"tsds", {"a1:1", "a1:2", "r1:1", "e1"}, 3, 2},
    };
    // memory (absolute-time) backend: every history x every start cycle of the replaying run
    {
        std::vector<Space> mem = {
            {"ts", {"v1", "v2"}, 1, th ? 6 : 5},
            {"str", {"a", "b"}, 1, th ? 5 : 4},
            {"tss", {"+1", "+2", "-1", "c"}, 1, th ? 5 : 4},
            {"tsd", {"s1=5", "s1=6", "s2=5", "e1"}, 1, th ? 5 : 4},
            {"tsl", {"0=1", "0=2", "1=1"}, 1, th ? 5 : 4},
            {"tsds", {"a1:1", "a1:2", "r1:1", "e1", "a2:1"}, 1, th ? 5 : 4},       // dictionaries whose values are structured: a key that leaves and returns
            {"tsdb", {"1a=5", "1b=6", "1a=7", "e1", "2a=5"}, 1, th ? 5 : 4},
        };
        for (auto &sp : mem)
        {
            std::vector<std::string> lists;
            gen_lists(sp.alphabet, sp.max_len, lists);
            std::vector<int> idx(static_cast<std::size_t>(sp.cycles), 0);
            while (true)
            {
                if (ctx.next_is_mine())
                for (int start = 0; start <= sp.cycles; ++start)
                {
                    std::string desc = "M" + std::to_string(start) + ":" + sp.shape + "|";
                    for (int c = 0; c < sp.cycles; ++c) desc += (c ? ";" : "") + lists[static_cast<std::size_t>(idx[static_cast<std::size_t>(c)])];
                    ++ctx.evaluations; ++ctx.traces;
                    Outcome o = run_desc(desc);
                    ctx.transitions += o.ticks;
                    ctx.state(o.sig);
                    if (o.nontrivial) ctx.nontriv(desc);
                    ctx.count("memcases_" + sp.shape);
                    if (o.violation)
                    {
                        Outcome o2 = run_desc(desc);
                        if (!o2.violation || *o2.violation != *o.violation) throw verif::HarnessError("case not reproducible: " + desc);
                        ctx.violation(desc, *o.violation, "memory " + sp.shape + ": " + o.violation->substr(0, 50));
                    }
                    else if (ctx.evaluations % 9973 == 1) ctx.sample("cases", desc);
                }
                int p = 0;
                while (p < sp.cycles && ++idx[static_cast<std::size_t>(p)] == static_cast<int>(lists.size())) { idx[static_cast<std::size_t>(p)] = 0; ++p; }
                if (p == sp.cycles) break;
            }
        }
    }
    for (auto &sp : spaces)
    {
        std::vector<std::string> lists;
        gen_lists(sp.alphabet, sp.max_len, lists);
        std::vector<int> idx(static_cast<std::size_t>(sp.cycles), 0);
        while (true)
        {
            if (ctx.next_is_mine())
            for (const char *mode : {"", "R:"})
            {
                std::string desc = std::string{mode} + sp.shape + "|";
                for (int c = 0; c < sp.cycles; ++c) desc += (c ? ";" : "") + lists[static_cast<std::size_t>(idx[static_cast<std::size_t>(c)])];
                ++ctx.evaluations; ++ctx.traces;
                Outcome o = run_desc(desc);
                ctx.transitions += o.ticks;
                ctx.state(o.sig);
                if (o.nontrivial) ctx.nontriv(desc);
                ctx.count(std::string{mode[0] ? "rawcases_" : "cases_"} + sp.shape);
                if (o.violation)
                {
                    Outcome o2 = run_desc(desc);
                    if (!o2.violation || *o2.violation != *o.violation) throw verif::HarnessError("case not reproducible: " + desc);
                    ctx.violation(desc, *o.violation, sp.shape + ": " + (o.sig_class.empty() ? o.violation->substr(0, 40) : o.sig_class));
                }
                else if (ctx.evaluations % 9973 == 1) ctx.sample("cases", desc);
            }
            int p = 0;
            while (p < sp.cycles && ++idx[static_cast<std::size_t>(p)] == static_cast<int>(lists.size())) { idx[static_cast<std::size_t>(p)] = 0; ++p; }
            if (p == sp.cycles) break;
        }
    }
}

VERIF_MAIN()
