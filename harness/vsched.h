// SCHED-X: a controlled thread scheduler + virtual clock for the real runtime, with NO source hooks.
//
// The harness executable defines pthread_mutex_lock/unlock/trylock, pthread_cond_wait/timedwait/clockwait/signal/broadcast
// and clock_gettime; every std::mutex, std::condition_variable and system/steady clock read of the runtime (statically linked
// into the executable) and of libstdc++ therefore lands here. Outside "controlled mode" the calls pass straight through to
// glibc. In controlled mode exactly one registered thread runs at a time; every operation on a SHARED mutex/condvar is a
// scheduling point; a thread parked in a timed wait can only time out through an explicit scheduler choice that advances the
// virtual clock to its deadline. An execution is identified by its list of choices, which makes it replayable.
#pragma once
#include <dlfcn.h>
#include <pthread.h>
#include <semaphore.h>
#include <sched.h>
#include <time.h>
#include <atomic>
#include <cerrno>
#include <cstdint>
#include <cstdio>
#include <cstdlib>
#include <cstring>
#include <functional>
#include <map>
#include <set>
#include <stdexcept>
#include <string>
#include <thread>
#include <vector>

namespace vs
{
    struct ChoicePoint
    {
        std::vector<int> options;   // encoded: thread id t (run t) or 1000+t (expire t's timed wait) or 2000+t (notify picks waiter t)
        int chosen_index{0};
        bool current_enabled{false};  // option 0 == keep running the current thread
        const char *kind{""};
    };

    struct Divergence : std::runtime_error { using std::runtime_error::runtime_error; };

    enum class St { NotStarted, Runnable, BlockedMutex, BlockedCond, BlockedGate, Done };

    struct Thread
    {
        int id{0};
        sem_t sem;
        St state{St::NotStarted};
        const void *wait_obj{nullptr};       // mutex or condvar
        const void *reacquire{nullptr};      // mutex to re-take after a cond wait
        bool timed{false};
        std::int64_t deadline{0};
        bool timed_out{false};
        std::function<void()> body;
        std::function<bool()> gate_pred;   // BlockedGate: enabled again when this holds
    };

    struct Sched
    {
        // real functions
        int (*real_lock)(pthread_mutex_t *) = nullptr;
        int (*real_unlock)(pthread_mutex_t *) = nullptr;
        int (*real_trylock)(pthread_mutex_t *) = nullptr;
        int (*real_cond_wait)(pthread_cond_t *, pthread_mutex_t *) = nullptr;
        int (*real_cond_timedwait)(pthread_cond_t *, pthread_mutex_t *, const struct timespec *) = nullptr;
        int (*real_cond_clockwait)(pthread_cond_t *, pthread_mutex_t *, clockid_t, const struct timespec *) = nullptr;
        int (*real_cond_signal)(pthread_cond_t *) = nullptr;
        int (*real_cond_broadcast)(pthread_cond_t *) = nullptr;
        int (*real_clock_gettime)(clockid_t, struct timespec *) = nullptr;
        std::atomic<int> resolving{0};

        std::atomic<bool> controlled{false};
        std::vector<Thread *> threads;
        int current{-1};
        std::map<const void *, int> owner;               // mutex -> owning thread
        std::map<const void *, std::set<int>> touched;   // object -> threads that touched it (this execution)
        std::set<const void *> shared;                    // objects touched by >= 2 threads (persist across executions of one exploration)
        bool shared_grew{false};
        bool unlock_points{getenv("VS_UNLOCK_POINTS") != nullptr};   // also offer a switch right after every unlock (redundant: see m_unlock)
        bool debug{getenv("VS_DEBUG") != nullptr};
        std::map<const void *, int> depth;               // recursive mutex depth
        std::int64_t clock_ns{0};
        std::uint64_t clock_reads{0};
        bool atomic_points{true};                         // scheduling points at hooked lock-free flag accesses
        bool trylock_seen{false};                         // some code path uses pthread_mutex_trylock: add scheduling points inside critical sections
        bool spurious{false};                             // offer spurious wake-ups of condition waiters as a (costly) deviation
        std::uint64_t spurious_wakes{0};
        std::int64_t clock_jump_ns{0};                    // != 0: every clock read is a choice point {stand still, jump ahead by this much}
        // choices
        std::vector<int> prefix;
        std::vector<ChoicePoint> trace;
        std::uint64_t steps{0};
        std::uint64_t step_cap{200000};
        bool deadlock{false}, livelock{false};
        std::string failure;
        sem_t done_sem;
        bool done_sem_ready{false};
        std::vector<Thread *> pool;
        bool pool_poisoned{false};
        bool pinned{false};
        std::function<void()> warmup;                     // re-run by run_controlled after a wedged execution abandoned the workers
        bool in_warmup{false};
        std::vector<std::string> events;                 // optional schedule log for replay artefacts
        std::function<void()> on_idle;
        std::function<void(bool forced)> on_expiry;     // a timed wait was expired by the scheduler; forced = nothing else was enabled                   // nothing enabled and no timer: called once before declaring deadlock

        void resolve()
        {
            if (real_lock) return;
            resolving = 1;
            real_lock = reinterpret_cast<int (*)(pthread_mutex_t *)>(dlsym(RTLD_NEXT, "pthread_mutex_lock"));
            real_unlock = reinterpret_cast<int (*)(pthread_mutex_t *)>(dlsym(RTLD_NEXT, "pthread_mutex_unlock"));
            real_trylock = reinterpret_cast<int (*)(pthread_mutex_t *)>(dlsym(RTLD_NEXT, "pthread_mutex_trylock"));
            real_cond_wait = reinterpret_cast<int (*)(pthread_cond_t *, pthread_mutex_t *)>(dlsym(RTLD_NEXT, "pthread_cond_wait"));
            real_cond_timedwait = reinterpret_cast<int (*)(pthread_cond_t *, pthread_mutex_t *, const struct timespec *)>(dlsym(RTLD_NEXT, "pthread_cond_timedwait"));
            real_cond_clockwait = reinterpret_cast<int (*)(pthread_cond_t *, pthread_mutex_t *, clockid_t, const struct timespec *)>(dlsym(RTLD_NEXT, "pthread_cond_clockwait"));
            real_cond_signal = reinterpret_cast<int (*)(pthread_cond_t *)>(dlsym(RTLD_NEXT, "pthread_cond_signal"));
            real_cond_broadcast = reinterpret_cast<int (*)(pthread_cond_t *)>(dlsym(RTLD_NEXT, "pthread_cond_broadcast"));
            real_clock_gettime = reinterpret_cast<int (*)(clockid_t, struct timespec *)>(dlsym(RTLD_NEXT, "clock_gettime"));
            resolving = 0;
        }
    };

    inline Sched &S() { static Sched s; return s; }
    inline thread_local int tl_tid = -1;

    inline bool in_control() { return S().controlled.load(std::memory_order_acquire) && tl_tid >= 0; }

    // ---- core: pick the next thing to run at a scheduling point -------------------------------------------------------
    inline bool mutex_free(Sched &s, const void *m) { auto it = s.owner.find(m); return it == s.owner.end() || it->second < 0; }

    inline bool enabled(Sched &s, const Thread &t)
    {
        if (t.state == St::Runnable) return true;
        if (t.state == St::BlockedMutex) return mutex_free(s, t.wait_obj);
        if (t.state == St::BlockedGate) return t.gate_pred && t.gate_pred();
        return false;
    }

    /** Called by the current thread (which holds the baton). Decides who runs next and hands the baton over if needed. */
    inline void reschedule(Sched &s, const char *kind, bool is_choice_point)
    {
        if (++s.steps > s.step_cap)
        {
            s.livelock = true; s.deadlock = true;
            s.failure = "step horizon exceeded (livelock or unbounded run)";
            sem_post(&s.done_sem);
            for (;;) pause();
        }
        const int me = s.current;
        Thread &self = *s.threads[static_cast<std::size_t>(me)];
        std::vector<int> opts;
        const bool me_enabled = enabled(s, self);
        if (me_enabled) opts.push_back(me);
        if (is_choice_point || !me_enabled)
        {
            for (auto *t : s.threads) if (t->id != me && enabled(s, *t)) opts.push_back(t->id);
            // timed waiters may time out (virtual clock jumps to the deadline). Offered when the current thread is blocked/finished, or
            // at explicit choice points; earliest deadline first.
            std::vector<std::pair<std::int64_t, int>> timers;
            for (auto *t : s.threads) if (t->state == St::BlockedCond && t->timed) timers.push_back({t->deadline, t->id});
            std::sort(timers.begin(), timers.end());
            for (auto &[d, id] : timers) opts.push_back(1000 + id);
            // optional deviation: a condition wait returns although nobody notified it (POSIX allows it; the code must re-check its predicate)
            // (never the only way forward: a wedged execution must still be recognised as a deadlock)
            if (s.spurious && !opts.empty()) for (auto *t : s.threads) if (t->state == St::BlockedCond) opts.push_back(4000 + t->id);
        }
        if (opts.empty())
        {
            if (s.on_idle) { auto f = s.on_idle; s.on_idle = nullptr; f(); return reschedule(s, kind, is_choice_point); }
            s.deadlock = true;
            s.failure = std::string{"deadlock: no thread is enabled and no timed wait can expire (at "} + kind + ")";
            std::string st;
            for (auto *t : s.threads) st += " T" + std::to_string(t->id) + ":" + std::to_string(static_cast<int>(t->state));
            s.failure += st;
            // wake main to report; this thread parks forever
            sem_post(&s.done_sem);
            for (;;) pause();
        }
        int pick_index = 0;
        if (opts.size() > 1)
        {
            ChoicePoint cp; cp.options = opts; cp.current_enabled = me_enabled; cp.kind = kind;
            const std::size_t pos = s.trace.size();
            if (pos < s.prefix.size())
            {
                pick_index = s.prefix[pos];
                if (pick_index < 0 || pick_index >= static_cast<int>(opts.size())) { s.failure = "replay divergence: choice out of range at point " + std::to_string(pos); pick_index = 0; s.livelock = true; }
            }
            cp.chosen_index = pick_index;
            s.trace.push_back(cp);
        }
        int pick = opts[static_cast<std::size_t>(pick_index)];
        if (pick >= 4000)
        {
            Thread &w = *s.threads[static_cast<std::size_t>(pick - 4000)];
            w.timed_out = false; w.state = St::BlockedMutex; w.wait_obj = w.reacquire; w.timed = false;
            ++s.spurious_wakes;
            return reschedule(s, "spurious-wake", false);
        }
        if (s.debug) { std::string o; for (int x : opts) o += std::to_string(x) + " "; fprintf(stderr, "[vs] step %llu T%d %s opts=[%s] pick=%d\n", (unsigned long long)s.steps, me, kind, o.c_str(), pick); }
        if (pick >= 1000)
        {
            Thread &w = *s.threads[static_cast<std::size_t>(pick - 1000)];
            if (s.on_expiry) { bool forced = true; for (int o : opts) if (o < 1000) forced = false; s.on_expiry(forced); }
            if (w.deadline > s.clock_ns) s.clock_ns = w.deadline;
            w.timed_out = true;
            w.state = St::BlockedMutex;
            w.wait_obj = w.reacquire;
            w.timed = false;
            return reschedule(s, "timer-expired", false);   // re-evaluate with the woken thread possibly enabled
        }
        if (pick == me) return;
        s.current = pick;
        Thread &n = *s.threads[static_cast<std::size_t>(pick)];
        const bool exiting = self.state == St::Done;   // read BEFORE handing over: once the baton is gone this thread's record may be recycled
        sem_post(&n.sem);
        if (exiting) return;
        while (sem_wait(&self.sem) != 0) {}
    }

    // Every mutex / condition-variable operation is a scheduling point. (An earlier version skipped objects touched by one thread only;
    // object identity by address is not stable across executions, which made prefix replay diverge, so there is no such reduction.)
    inline bool is_shared(Sched &, const void *) { return true; }

    // ---- modelled primitives ------------------------------------------------------------------------------------------------
    inline int m_lock(pthread_mutex_t *m)
    {
        Sched &s = S();
        Thread &self = *s.threads[static_cast<std::size_t>(tl_tid)];
        const bool sh = is_shared(s, m);
        if (sh) reschedule(s, "before-lock", true);
        while (!mutex_free(s, m) && s.owner[m] != tl_tid)
        {
            self.state = St::BlockedMutex; self.wait_obj = m;
            reschedule(s, "lock-blocked", false);
        }
        self.state = St::Runnable;
        s.owner[m] = tl_tid;
        ++s.depth[m];
        // Holding a mutex is observable to other threads only through trylock. Once any trylock has been seen in this process (sticky; the
        // warm-up executions see it first), a thread may also be preempted right after acquiring a lock, so that "trylock finds it busy" is explored.
        if (s.trylock_seen) reschedule(s, "after-lock", true);
        return 0;
    }
    inline int m_trylock(pthread_mutex_t *m)
    {
        Sched &s = S();
        s.trylock_seen = true;
        if (is_shared(s, m)) reschedule(s, "before-trylock", true);
        if (!mutex_free(s, m) && s.owner[m] != tl_tid) return EBUSY;
        s.owner[m] = tl_tid;
        ++s.depth[m];
        return 0;
    }
    inline int m_unlock(pthread_mutex_t *m)
    {
        Sched &s = S();
        if (--s.depth[m] > 0) return 0;
        s.depth[m] = 0;
        s.owner[m] = -1;
        // No choice point here by default: a switch right after an unlock is equivalent to a switch before the thread's next
        // synchronisation operation, except that harness bookkeeping in between happens earlier (which only sharpens the oracle).
        if (s.unlock_points) reschedule(s, "after-unlock", true);
        return 0;
    }
    inline int m_cond_wait(pthread_cond_t *c, pthread_mutex_t *m, bool timed, std::int64_t deadline)
    {
        Sched &s = S();
        Thread &self = *s.threads[static_cast<std::size_t>(tl_tid)];
        s.owner[m] = -1; s.depth[m] = 0;
        self.state = St::BlockedCond; self.wait_obj = c; self.reacquire = m; self.timed = timed; self.deadline = deadline; self.timed_out = false;
        reschedule(s, timed ? "timed-wait" : "wait", false);
        // we run again: either notified (state BlockedMutex -> mutex free) or timed out
        while (!mutex_free(s, m)) { self.state = St::BlockedMutex; self.wait_obj = m; reschedule(s, "wait-reacquire", false); }
        self.state = St::Runnable;
        s.owner[m] = tl_tid; s.depth[m] = 1;
        const bool to = self.timed_out;
        self.timed_out = false; self.timed = false;
        return to ? ETIMEDOUT : 0;
    }
    inline int m_cond_notify(pthread_cond_t *c, bool all)
    {
        Sched &s = S();
        const bool sh = is_shared(s, c);
        if (sh) reschedule(s, all ? "before-broadcast" : "before-signal", true);
        std::vector<Thread *> waiters;
        for (auto *t : s.threads) if (t->state == St::BlockedCond && t->wait_obj == c) waiters.push_back(t);
        if (!all && waiters.size() > 1)
        {
            // which waiter a signal wakes is the implementation's choice: make it an explicit (free) choice
            ChoicePoint cp; cp.kind = "signal-picks-waiter"; cp.current_enabled = true;
            for (auto *t : waiters) cp.options.push_back(2000 + t->id);
            const std::size_t pos = s.trace.size();
            int idx = pos < s.prefix.size() ? s.prefix[pos] : 0;
            if (idx < 0 || idx >= static_cast<int>(waiters.size())) idx = 0;
            cp.chosen_index = idx;
            s.trace.push_back(cp);
            Thread *w = waiters[static_cast<std::size_t>(idx)];
            waiters.clear(); waiters.push_back(w);
        }
        else if (!all && waiters.size() == 1) {}
        for (auto *t : waiters) { t->state = St::BlockedMutex; t->wait_obj = t->reacquire; t->timed = false; t->timed_out = false; }
        return 0;
    }

    // ---- harness-level API ---------------------------------------------------------------------------------------------------
    /** A harness-level blocking point: the calling controlled thread waits until pred() holds (re-evaluated at every scheduling step). */
    inline void gate(const std::function<bool()> &pred)
    {
        Sched &s = S();
        Thread &self = *s.threads[static_cast<std::size_t>(tl_tid)];
        while (!pred())
        {
            self.state = St::BlockedGate;
            self.gate_pred = pred;
            reschedule(s, "gate", false);
        }
        self.state = St::Runnable;
        self.gate_pred = nullptr;
    }
    inline void burn_time(std::int64_t ns) { S().clock_ns += ns; }
    inline std::int64_t now_ns() { return S().clock_ns; }

    inline void *thread_main(void *arg)
    {
        Thread *t = static_cast<Thread *>(arg);
        tl_tid = t->id;
        for (;;)
        {
            while (sem_wait(&t->sem) != 0) {}
            Sched &s = S();
            t->state = St::Runnable;
            try { t->body(); }
            catch (const std::exception &e) { if (s.failure.empty()) s.failure = std::string{"thread "} + std::to_string(t->id) + " threw: " + e.what(); }
            t->state = St::Done;
            bool all_done = true;
            for (auto *o : s.threads) if (o->state != St::Done) all_done = false;
            if (all_done) { s.controlled = false; sem_post(&s.done_sem); continue; }
            reschedule(s, "thread-exit", false);
        }
        return nullptr;
    }

    /** Run the bodies as controlled threads, following `prefix` then default choices. Returns the recorded trace.
     *  Worker threads persist across executions (a wedged execution abandons its workers and new ones are made). */
    inline std::vector<ChoicePoint> run_controlled(std::vector<std::function<void()>> bodies, const std::vector<int> &prefix, std::int64_t start_clock_ns)
    {
        Sched &s = S();
        s.resolve();
        if (!s.pinned)
        {
            // only one controlled thread runs at a time: keep the whole process on one CPU so that the baton hand-off is a local switch
            s.pinned = true;
            const char *want = getenv("VERIF_CPU");
            const int cpu = want ? atoi(want) : sched_getcpu();
            cpu_set_t set; CPU_ZERO(&set); CPU_SET(cpu, &set);
            sched_setaffinity(0, sizeof(set), &set);
        }
        if (s.pool_poisoned) { s.pool.clear(); s.pool_poisoned = false; }
        s.threads.clear(); s.owner.clear(); s.depth.clear(); s.touched.clear(); s.trace.clear(); s.events.clear();
        s.prefix = prefix; s.steps = 0; s.deadlock = s.livelock = false; s.failure.clear(); s.shared_grew = false;
        s.clock_ns = start_clock_ns; s.clock_reads = 0;
        s.on_idle = nullptr;
        if (!s.done_sem_ready) { sem_init(&s.done_sem, 0, 0); s.done_sem_ready = true; }
        while (s.pool.size() < bodies.size())
        {
            auto *t = new Thread; t->id = static_cast<int>(s.pool.size()); sem_init(&t->sem, 0, 0);
            s.pool.push_back(t);
            pthread_t h;
            pthread_attr_t attr; pthread_attr_init(&attr); pthread_attr_setdetachstate(&attr, PTHREAD_CREATE_DETACHED);
            pthread_create(&h, &attr, &thread_main, t);
            pthread_attr_destroy(&attr);
        }
        for (std::size_t i = 0; i < bodies.size(); ++i)
        {
            Thread *t = s.pool[i];
            t->body = std::move(bodies[i]); t->state = St::Runnable; t->wait_obj = t->reacquire = nullptr; t->timed = t->timed_out = false; t->gate_pred = nullptr;
            s.threads.push_back(t);
        }
        s.current = 0;
        s.controlled = true;
        sem_post(&s.threads[0]->sem);
        while (sem_wait(&s.done_sem) != 0) {}
        s.controlled = false;
        for (auto *t : s.threads) if (!s.deadlock) t->body = nullptr;
        if (s.deadlock)
        {
            // the wedged execution's workers stay parked forever; their replacements are cold (per-thread caches of the runtime), so they
            // are warmed exactly as at start-up before anything else runs on them. The result of THIS execution is preserved around that.
            const auto trace = s.trace; const std::string failure = s.failure; const bool livelock = s.livelock;
            s.pool.clear();
            if (s.warmup && !s.in_warmup) { s.in_warmup = true; s.warmup(); s.in_warmup = false; }
            if (s.deadlock && s.in_warmup == false && s.failure != failure) { /* a warm-up run must not wedge */ }
            s.trace = trace; s.failure = failure; s.deadlock = true; s.livelock = livelock;
        }
        return s.trace;
    }
}  // namespace vs

// ---- interposed symbols -----------------------------------------------------------------------------------------------------
// Source hook (guard HGRAPH_VERIF, see MANIFEST.hooks): the real-time executor's lock-free stop flag yields here around every access,
// so preemptions at that flag are explored like preemptions at mutex operations.
extern "C" void hgraph_verif_point(const char *what) noexcept
{
    if (vs::in_control() && vs::S().atomic_points) vs::reschedule(vs::S(), what, true);
}

extern "C"
{
    inline int vs_passthrough_guard() { return vs::S().resolving.load(); }

    int pthread_mutex_lock(pthread_mutex_t *m)
    {
        auto &s = vs::S();
        if (vs::in_control()) return vs::m_lock(m);
        if (!s.real_lock) { if (s.resolving) return 0; s.resolve(); }
        return s.real_lock(m);
    }
    int pthread_mutex_trylock(pthread_mutex_t *m)
    {
        auto &s = vs::S();
        if (vs::in_control()) return vs::m_trylock(m);
        if (!s.real_trylock) { if (s.resolving) return 0; s.resolve(); }
        return s.real_trylock(m);
    }
    int pthread_mutex_unlock(pthread_mutex_t *m)
    {
        auto &s = vs::S();
        if (vs::in_control()) return vs::m_unlock(m);
        if (!s.real_unlock) { if (s.resolving) return 0; s.resolve(); }
        return s.real_unlock(m);
    }
    int pthread_cond_wait(pthread_cond_t *c, pthread_mutex_t *m)
    {
        auto &s = vs::S();
        if (vs::in_control()) return vs::m_cond_wait(c, m, false, 0);
        if (!s.real_cond_wait) s.resolve();
        return s.real_cond_wait(c, m);
    }
    int pthread_cond_timedwait(pthread_cond_t *c, pthread_mutex_t *m, const struct timespec *ts)
    {
        auto &s = vs::S();
        if (vs::in_control()) return vs::m_cond_wait(c, m, true, static_cast<std::int64_t>(ts->tv_sec) * 1000000000LL + ts->tv_nsec);
        if (!s.real_cond_timedwait) s.resolve();
        return s.real_cond_timedwait(c, m, ts);
    }
    int pthread_cond_clockwait(pthread_cond_t *c, pthread_mutex_t *m, clockid_t clk, const struct timespec *ts)
    {
        auto &s = vs::S();
        if (vs::in_control()) return vs::m_cond_wait(c, m, true, static_cast<std::int64_t>(ts->tv_sec) * 1000000000LL + ts->tv_nsec);
        if (!s.real_cond_clockwait) s.resolve();
        return s.real_cond_clockwait(c, m, clk, ts);
    }
    int pthread_cond_signal(pthread_cond_t *c)
    {
        auto &s = vs::S();
        if (vs::in_control()) return vs::m_cond_notify(c, false);
        if (!s.real_cond_signal) s.resolve();
        return s.real_cond_signal(c);
    }
    int pthread_cond_broadcast(pthread_cond_t *c)
    {
        auto &s = vs::S();
        if (vs::in_control()) return vs::m_cond_notify(c, true);
        if (!s.real_cond_broadcast) s.resolve();
        return s.real_cond_broadcast(c);
    }
    int clock_gettime(clockid_t clk, struct timespec *ts)
    {
        auto &s = vs::S();
        if (vs::in_control() && (clk == CLOCK_REALTIME || clk == CLOCK_MONOTONIC))
        {
            ++s.clock_reads;
            if (s.clock_jump_ns != 0)
            {
                // environment choice: the wall clock stood still (default) or jumped ahead before this read
                vs::ChoicePoint cp; cp.kind = "clock-read"; cp.current_enabled = true; cp.options = {3000, 3001};
                const std::size_t pos = s.trace.size();
                int idx = pos < s.prefix.size() ? s.prefix[pos] : 0;
                if (idx < 0 || idx > 1) idx = 0;
                cp.chosen_index = idx;
                s.trace.push_back(cp);
                if (idx == 1) s.clock_ns += s.clock_jump_ns;
            }
            ts->tv_sec = static_cast<time_t>(s.clock_ns / 1000000000LL);
            ts->tv_nsec = static_cast<long>(s.clock_ns % 1000000000LL);
            return 0;
        }
        if (!s.real_clock_gettime) { if (s.resolving) { ts->tv_sec = 0; ts->tv_nsec = 0; return 0; } s.resolve(); }
        return s.real_clock_gettime(clk, ts);
    }
}
