// C06 (operand-order part) — "nodes that differ in any input ... always remain distinct": the SAME two ports wired to the SAME
// definition in the two operand orders, op(x, y) and op(y, x), are different nodes, whatever the operator claims about itself
// (the lifted scalar kernels carry a `commutative` flag). Next to them a true duplicate op(x, y) (which may be shared) and
// identical sinks on every result (which must all run). Every admissible statement order of the six statements, every operator of
// a vocabulary (lifted add_ on strings, lifted sub_ / add_ on ints, a static non-commutative node), every tick pattern of the two
// sources: each sink's stream must be the function of ITS operands in ITS order, identical for all statement orders.
#include "vpch.h"
#include "vcommon.h"
#include "tsshapes.h"
using namespace hgraph;

namespace
{
    using tsshapes::split;
    long rel(DateTime t) { return static_cast<long>((t - MIN_ST) / MIN_TD); }
    struct Run { std::vector<int> ticks; int cycles{0}; std::map<int, std::vector<std::string>> log; };
    Run *g = nullptr;

    template <int K> struct SrcI   // ticks in the cycles whose mask has bit K; value = 10 * (cycle + 1) + K + 1 (never equal between sources)
    {
        static constexpr auto name = K == 0 ? "c06s_src_i0" : "c06s_src_i1";
        static constexpr bool schedule_on_start = true;
        static void eval(NodeScheduler sched, DateTime now, Out<TS<Int>> out)
        {
            const long c = rel(now);
            if (c < g->cycles && (g->ticks[static_cast<std::size_t>(c)] >> K) & 1) out.set(Int{10 * (c + 1) + K + 1});
            if (c + 1 < g->cycles) sched.schedule(MIN_TD);
        }
    };
    template <int K> struct SrcS
    {
        static constexpr auto name = K == 0 ? "c06s_src_s0" : "c06s_src_s1";
        static constexpr bool schedule_on_start = true;
        static void eval(NodeScheduler sched, DateTime now, Out<TS<Str>> out)
        {
            const long c = rel(now);
            if (c < g->cycles && (g->ticks[static_cast<std::size_t>(c)] >> K) & 1) out.set(Str{std::string(1, K == 0 ? 'a' : 'b') + std::to_string(c)});
            if (c + 1 < g->cycles) sched.schedule(MIN_TD);
        }
    };
    struct NC { static constexpr auto name = "c06s_nc"; static void eval(In<"lhs", TS<Int>> lhs, In<"rhs", TS<Int>> rhs, Out<TS<Int>> out) { out.set(1000 * lhs.value() + rhs.value()); } };
    struct SinkI { static constexpr auto name = "c06s_sink_i"; static void eval(In<"x", TS<Int>> x, Scalar<"id", Int> id, DateTime now) { g->log[static_cast<int>(id.value())].push_back("t" + std::to_string(rel(now)) + "=" + std::to_string(static_cast<long>(x.value()))); } };
    struct SinkS { static constexpr auto name = "c06s_sink_s"; static void eval(In<"x", TS<Str>> x, Scalar<"id", Int> id, DateTime now) { g->log[static_cast<int>(id.value())].push_back("t" + std::to_string(rel(now)) + "=" + std::string{x.value()}); } };

    // statements: 0 J1=op(x,y) 1 J2=op(y,x) 2 J3=op(x,y) 3 K1=sink#1(J1) 4 K2=sink#2(J2) 5 K3=sink#1(J3)   (K1 and K3 are IDENTICAL sink definitions)
    template <typename T, typename Sink, typename Wire>
    void wire_program(Wiring &w, const std::vector<int> &order, Port<T> x, Port<T> y, Wire op)
    {
        std::optional<Port<T>> j[3];
        for (int st : order)
        {
            if (st == 0) j[0] = op(x, y);
            else if (st == 1) j[1] = op(y, x);
            else if (st == 2) j[2] = op(x, y);
            else wire<Sink>(w, *j[st - 3], Int{st == 4 ? 2 : 1});
        }
    }

    // sinks INSIDE sub-graphs: the same sub-graph wired twice on the same port (inlined, nested_, try_except_ around a sink graph)
    struct InnerSink { static constexpr auto name = "c06s_inner_sink"; static void eval(In<"x", TS<Int>> x, DateTime now) { g->log[7].push_back("t" + std::to_string(rel(now)) + "=" + std::to_string(static_cast<long>(x.value()))); } };
    struct PlusOne { static constexpr auto name = "c06s_plus_one"; static void eval(In<"x", TS<Int>> x, Out<TS<Int>> out) { out.set(x.value() + 1); } };
    struct GWithSink { static constexpr auto name = "c06s_g_with_sink"; static Port<TS<Int>> compose(Wiring &w, Port<TS<Int>> x) { wire<InnerSink>(w, x); return wire<PlusOne>(w, x); } };
    struct GSinkOnly { static constexpr auto name = "c06s_g_sink_only"; static void compose(Wiring &w, Port<TS<Int>> x) { wire<InnerSink>(w, x); } };
    struct ErrSink { static constexpr auto name = "c06s_err_sink"; static void eval(In<"e", TS<NodeError>> e) { (void)e; } };

    // higher-order operators called twice on the same input with DIFFERENT wired functions (a scalar of function type): distinct nodes
    struct PlusTwo { static constexpr auto name = "c06s_plus_two"; static void eval(In<"x", TS<Int>> x, Out<TS<Int>> out) { out.set(x.value() + 2); } };
    struct FOne { static constexpr auto name = "c06s_f_one"; static Port<TS<Int>> compose(Wiring &w, Port<TS<Int>> x) { return wire<PlusOne>(w, x); } };
    struct FTwo { static constexpr auto name = "c06s_f_two"; static Port<TS<Int>> compose(Wiring &w, Port<TS<Int>> x) { return wire<PlusTwo>(w, x); } };
    using TryIntResult = UnNamedTSB<Field<"exception", TS<NodeError>>, Field<"out", TS<Int>>>;
    struct TryOut
    {
        static constexpr auto name = "c06s_try_out";
        static void eval(In<"r", TryIntResult, InputActivity::Active, InputValidity::Unchecked> r, Scalar<"id", Int> id, DateTime now)
        {
            auto field = r.template field<"out">();
            if (field.valid() && field.modified()) g->log[static_cast<int>(id.value())].push_back("t" + std::to_string(rel(now)) + "=" + std::to_string(static_cast<long>(field.value())));
        }
    };
    struct DictSrc   // one key (1) carrying the source value
    {
        static constexpr auto name = "c06s_dict_src";
        static constexpr bool schedule_on_start = true;
        static void eval(NodeScheduler sched, DateTime now, Out<tsshapes::DictI> out)
        {
            const long c = rel(now);
            if (c < g->cycles && (g->ticks[static_cast<std::size_t>(c)] & 1)) out.set(Int{1}, Int{10 * (c + 1) + 1});
            if (c + 1 < g->cycles) sched.schedule(MIN_TD);
        }
    };
    struct DictSink
    {
        static constexpr auto name = "c06s_dict_sink";
        static void eval(In<"d", tsshapes::DictI> d, Scalar<"id", Int> id, DateTime now)
        {
            for (auto &&[key, child] : d.modified_items()) g->log[static_cast<int>(id.value())].push_back("t" + std::to_string(rel(now)) + "=" + std::to_string(static_cast<long>(child.value())));
        }
    };

    struct Outcome { std::optional<std::string> violation; std::string sig, cls; bool nontrivial{false}; };

    // desc: F|<form><order>|<tick masks>   form: e erased try_except(fn, x), m map_(fn, dict) ; order 0: F then G, 1: G then F
    Outcome run_fn_twins(const std::string &desc)
    {
        Outcome out;
        auto parts = split(desc, '|');
        const char form = parts.at(1)[0]; const bool swapped = parts.at(1)[1] == '1';
        Run run; for (char ch : parts.at(2)) run.ticks.push_back(ch - '0'); run.cycles = static_cast<int>(run.ticks.size());
        std::string exc;
        g = &run;
        try
        {
            Wiring w;
            if (form == 'e')
            {
                auto x = wire<SrcI<0>>(w);
                for (int k = 0; k < 2; ++k)
                {
                    const bool one = (k == 0) != swapped;
                    auto r = one ? wire<stdlib::try_except>(w, fn<FOne>(), x).template as<TryIntResult>() : wire<stdlib::try_except>(w, fn<FTwo>(), x).template as<TryIntResult>();
                    wire<TryOut>(w, r, Int{one ? 1 : 2});
                }
            }
            else
            {
                auto d = wire<DictSrc>(w);
                for (int k = 0; k < 2; ++k)
                {
                    const bool one = (k == 0) != swapped;
                    auto m = one ? wire<stdlib::map_>(w, fn<FOne>(), d).template as<tsshapes::DictI>() : wire<stdlib::map_>(w, fn<FTwo>(), d).template as<tsshapes::DictI>();
                    wire<DictSink>(w, m, Int{one ? 1 : 2});
                }
            }
            GraphBuilder gb = std::move(w).finish();
            GraphExecutorBuilder eb;
            eb.graph_builder(std::move(gb)).start_time(MIN_ST).end_time(MIN_ST + TimeDelta{run.cycles + 2});
            auto ex = eb.make_executor();
            ex.view().run();
        }
        catch (const std::exception &e) { exc = e.what(); }
        g = nullptr;
        if (!exc.empty()) { out.violation = "wiring or run threw: " + exc; return out; }
        std::ostringstream sig;
        for (int id : {1, 2})
        {
            std::vector<std::string> want;
            for (int c = 0; c < run.cycles; ++c) if (run.ticks[static_cast<std::size_t>(c)] & 1) want.push_back("t" + std::to_string(c) + "=" + std::to_string(10 * (c + 1) + 1 + id));
            const auto &got = run.log[id];
            for (auto &s2 : got) sig << s2 << ",";
            sig << "/";
            if (!out.violation && got != want)
            {
                std::string gs, ws; for (auto &s2 : got) gs += s2 + " "; for (auto &s2 : want) ws += s2 + " ";
                out.violation = std::string{form == 'e' ? "try_except" : "map_"} + " called with function +" + std::to_string(id) + " recorded [" + gs + "] but its own function gives [" + ws + "] (two calls that differ in the wired function are different nodes)";
            }
            if (!want.empty()) out.nontrivial = true;
        }
        out.sig = std::string{"F"} + parts.at(1) + sig.str();
        return out;
    }

    // desc: I|<form>|<tick masks>   form: i inlined twice, n nested_ twice, t try_except_<sink graph> twice
    Outcome run_inner(const std::string &desc)
    {
        Outcome out;
        auto parts = split(desc, '|');
        const char form = parts.at(1)[0];
        Run run; for (char ch : parts.at(2)) run.ticks.push_back(ch - '0'); run.cycles = static_cast<int>(run.ticks.size());
        std::string exc;
        g = &run;
        try
        {
            Wiring w;
            auto x = wire<SrcI<0>>(w);
            for (int k = 0; k < 2; ++k)
            {
                if (form == 'i') wire<SinkI>(w, wire<GWithSink>(w, x), Int{k + 1});
                else if (form == 'n') wire<SinkI>(w, nested_<GWithSink>(w, x), Int{k + 1});
                else wire<ErrSink>(w, try_except_<GSinkOnly>(w, x).template as<TS<NodeError>>());
            }
            GraphBuilder gb = std::move(w).finish();
            GraphExecutorBuilder eb;
            eb.graph_builder(std::move(gb)).start_time(MIN_ST).end_time(MIN_ST + TimeDelta{run.cycles + 2});
            auto ex = eb.make_executor();
            ex.view().run();
        }
        catch (const std::exception &e) { exc = e.what(); }
        g = nullptr;
        if (!exc.empty()) { out.violation = "wiring or run threw: " + exc; return out; }
        std::vector<std::string> want, once;
        for (int c = 0; c < run.cycles; ++c) if (run.ticks[static_cast<std::size_t>(c)] & 1) { const std::string t = "t" + std::to_string(c) + "=" + std::to_string(10 * (c + 1) + 1); want.push_back(t); want.push_back(t); once.push_back(t); }
        const auto &got = run.log[7];
        std::string gs; for (auto &s2 : got) gs += s2 + " ";
        out.sig = std::string{"I"} + form + gs;
        out.nontrivial = !once.empty();
        if (got != want)
        {
            out.violation = std::string{"the sink inside the sub-graph wired twice ("} + (form == 'i' ? "inlined" : form == 'n' ? "nested_" : "try_except_ around a sink graph") + ") recorded [" + gs + "]: two sink instances must each record every tick";
            if (got == once && form != 'i') out.cls = std::string{"a sub-graph holding a sink, wired twice on the same port as "} + (form == 'n' ? "nested_<G>" : "try_except_<G>") + ", is shared: its inner sink runs once";
        }
        return out;
    }

    // desc: <op>|<order digits>|<tick masks per cycle>     op: c concat(str add_) s sub_ a add_(int) n static node
    Outcome run_desc(const std::string &desc)
    {
        if (desc[0] == 'I') return run_inner(desc);
        if (desc[0] == 'F') return run_fn_twins(desc);
        Outcome out;
        auto parts = split(desc, '|');
        const char op = parts.at(0)[0];
        std::vector<int> order; for (char ch : parts.at(1)) order.push_back(ch - '0');
        Run run; for (char ch : parts.at(2)) run.ticks.push_back(ch - '0'); run.cycles = static_cast<int>(run.ticks.size());
        std::string exc;
        g = &run;
        try
        {
            Wiring w;
            if (op == 'c')
            {
                auto x = wire<SrcS<0>>(w); auto y = wire<SrcS<1>>(w);
                wire_program<TS<Str>, SinkS>(w, order, x, y, [&](Port<TS<Str>> l, Port<TS<Str>> r) { return wire<stdlib::add_>(w, l, r).template as<TS<Str>>(); });
            }
            else
            {
                auto x = wire<SrcI<0>>(w); auto y = wire<SrcI<1>>(w);
                wire_program<TS<Int>, SinkI>(w, order, x, y, [&](Port<TS<Int>> l, Port<TS<Int>> r) -> Port<TS<Int>> {
                    if (op == 's') return wire<stdlib::sub_>(w, l, r).template as<TS<Int>>();
                    if (op == 'a') return wire<stdlib::add_>(w, l, r).template as<TS<Int>>();
                    return wire<NC>(w, l, r);
                });
            }
            GraphBuilder gb = std::move(w).finish();
            GraphExecutorBuilder eb;
            eb.graph_builder(std::move(gb)).start_time(MIN_ST).end_time(MIN_ST + TimeDelta{run.cycles + 2});
            auto ex = eb.make_executor();
            ex.view().run();
        }
        catch (const std::exception &e) { exc = e.what(); }
        g = nullptr;
        if (!exc.empty()) { out.violation = "wiring or run threw: " + exc; return out; }
        // reference: a two-input node with default activity / validity runs when either operand ticked and both hold a value
        std::map<int, std::vector<std::string>> want;
        std::optional<long> xi, yi; std::optional<std::string> xs, ys;
        bool both = false;
        for (int c = 0; c < run.cycles; ++c)
        {
            const bool tx = run.ticks[static_cast<std::size_t>(c)] & 1, ty = run.ticks[static_cast<std::size_t>(c)] & 2;
            if (tx) { xi = 10 * (c + 1) + 1; xs = "a" + std::to_string(c); }
            if (ty) { yi = 10 * (c + 1) + 2; ys = "b" + std::to_string(c); }
            if (tx && ty) both = true;
            if (!(tx || ty) || !xi || !yi) continue;
            auto f = [&](bool swapped) -> std::string {
                if (op == 'c') return swapped ? *ys + *xs : *xs + *ys;
                const long l = swapped ? *yi : *xi, r = swapped ? *xi : *yi;
                return std::to_string(op == 's' ? l - r : op == 'a' ? l + r : 1000 * l + r);
            };
            const std::string t = "t" + std::to_string(c) + "=";
            want[1].push_back(t + f(false)); want[1].push_back(t + f(false));   // two identical sinks, both must run
            want[2].push_back(t + f(true));
        }
        std::ostringstream sig;
        for (int id : {1, 2})
        {
            const auto &got = run.log[id];
            for (auto &s : got) sig << s << ",";
            sig << "/";
            if (!out.violation && got != want[id])
            {
                std::string gs, ws; for (auto &s : got) gs += s + " "; for (auto &s : want[id]) ws += s + " ";
                out.violation = std::string{"sink "} + (id == 1 ? "on op(x,y) (two identical sinks, each tick twice)" : "on op(y,x)") + " recorded [" + gs + "] but its own operands in its own order give [" + ws + "]";
            }
        }
        out.sig = std::string(1, op) + sig.str();
        out.nontrivial = both && order != std::vector<int>{0, 1, 2, 3, 4, 5};
        return out;
    }
}  // namespace

void verif_init() { stdlib::register_standard_operators(); }
std::optional<std::string> verif_run_case(verif::Ctx &, const std::string &desc) { return run_desc(desc).violation; }

void verif_enumerate(verif::Ctx &ctx)
{
    const int T = ctx.thorough() ? 4 : 3;
    std::vector<std::string> orders;
    std::vector<int> p = {0, 1, 2, 3, 4, 5};
    do
    {
        std::array<int, 6> pos{}; for (int i = 0; i < 6; ++i) pos[static_cast<std::size_t>(p[static_cast<std::size_t>(i)])] = i;
        if (pos[3] > pos[0] && pos[4] > pos[1] && pos[5] > pos[2]) { std::string s; for (int v : p) s += static_cast<char>('0' + v); orders.push_back(s); }
    } while (std::next_permutation(p.begin(), p.end()));
    std::vector<std::string> hist = {""};
    for (int c = 0; c < T; ++c) { std::vector<std::string> nx; for (auto &h : hist) for (int m = 0; m < 4; ++m) nx.push_back(h + static_cast<char>('0' + m)); hist.swap(nx); }
    for (char form : std::string{"int"})
        for (auto &h : hist)
        {
            if (!ctx.next_is_mine()) continue;
            std::string hx; for (char ch : h) hx += (ch - '0') & 1 ? '1' : '0';
            const std::string desc = std::string{"I|"} + form + "|" + hx;
            ++ctx.evaluations; ++ctx.traces; ctx.transitions += static_cast<std::uint64_t>(T);
            Outcome r = run_desc(desc);
            ctx.state(r.sig);
            if (r.nontrivial) ctx.nontriv(desc);
            ctx.count("inner_sink_cases");
            if (r.violation) ctx.violation(desc, *r.violation, r.cls.empty() ? "inner sink " + desc.substr(0, 3) + ": " + r.violation->substr(0, 40) : r.cls);
        }
    for (const char *form : {"e0", "e1", "m0", "m1"})
        for (auto &h : hist)
        {
            if (!ctx.next_is_mine()) continue;
            std::string hx; for (char ch : h) hx += (ch - '0') & 1 ? '1' : '0';
            const std::string desc = std::string{"F|"} + form + "|" + hx;
            ++ctx.evaluations; ++ctx.traces; ctx.transitions += static_cast<std::uint64_t>(T);
            Outcome r = run_desc(desc);
            ctx.state(r.sig);
            if (r.nontrivial) ctx.nontriv(desc);
            ctx.count("fn_twin_cases");
            if (r.violation) ctx.violation(desc, *r.violation, "fn twins " + desc.substr(0, 4) + ": " + r.violation->substr(0, 40));
        }
    for (char op : std::string{"csan"})
    {
        std::map<std::string, std::string> by_hist;   // all statement orders of one (op, history) must agree
        for (auto &h : hist)
            for (auto &o : orders)
            {
                if (!ctx.next_is_mine()) continue;
                const std::string desc = std::string(1, op) + "|" + o + "|" + h;
                ++ctx.evaluations; ++ctx.traces; ctx.transitions += static_cast<std::uint64_t>(T);
                Outcome r = run_desc(desc);
                ctx.state(r.sig);
                if (r.nontrivial) ctx.nontriv(desc);
                ctx.count(std::string{"swap_cases_"} + op);
                if (r.violation)
                {
                    Outcome r2 = run_desc(desc);
                    if (!r2.violation || *r2.violation != *r.violation) throw verif::HarnessError("case not reproducible: " + desc);
                    ctx.violation(desc, *r.violation, std::string{"swap "} + op + ": " + r.violation->substr(0, 40));
                }
                else if (ctx.evaluations % 4999 == 1) ctx.sample("cases", desc);
            }
    }
}

VERIF_MAIN()
