// C05 (window part) — duration windows: the value after a tick is the previous value minus a PREFIX (evicted from the front)
// plus the pushed element at the back. Driven directly on a real TSOutput holding a duration TSW<Int> (registry.tsw_duration),
// for every history of {no tick, push, copy-then-push, move-then-push} over T cycles and several ranges; the oracle is
// boundary-agnostic (elements strictly older than now - range must be gone, strictly younger must stay, order and times kept),
// so it does not encode the implementation's inclusive/exclusive choice at exactly now - range.
#include "vpch.h"
#include "vcommon.h"
#include <hgraph/types/time_series/ts_output.h>
using namespace hgraph;

namespace
{
    using Window = std::vector<std::pair<long, long>>;   // (push cycle, value)
    long cyc(DateTime t) { return static_cast<long>((t - MIN_ST) / MIN_TD); }
    std::string show(const Window &w) { std::string o = "["; for (auto [t, v] : w) o += "t" + std::to_string(t) + ":" + std::to_string(v) + " "; return o + "]"; }

    // desc: wd:<range>:<ops>   ops: one char per cycle: '.' none, 'p' push, 'c' copy the output then push on the copy, 'm' move it then push
    std::optional<std::string> run_case_impl(const std::string &desc, verif::Ctx *ctx)
    {
        const auto p1 = desc.find(':'), p2 = desc.find(':', p1 + 1);
        const long range = std::stol(desc.substr(p1 + 1, p2 - p1 - 1));
        const std::string ops = desc.substr(p2 + 1);
        auto &registry = TypeRegistry::instance();
        const auto *int_meta = registry.register_scalar<Int>("int");
        const auto *schema = registry.tsw_duration(int_meta, MIN_TD * range);
        auto output = std::make_unique<TSOutput>(*schema);
        Window previous;
        bool wrapped_growth = false, evicted_before = false;
        for (std::size_t c = 0; c < ops.size(); ++c)
        {
            const char op = ops[c];
            if (op == '.') continue;
            const long now = static_cast<long>(c);
            const DateTime t = MIN_ST + MIN_TD * now;
            const long value = 100 + now;
            if (op == 'c') { auto copy = std::make_unique<TSOutput>(*output); output = std::move(copy); }
            if (op == 'm') { auto moved = std::make_unique<TSOutput>(std::move(*output)); output = std::move(moved); }
            {
                Value item{Int{value}};
                auto view = output->view(t);
                view.as_window().begin_mutation(t).push(item.view());
            }
            auto view = output->view(t);
            auto window = view.as_window();
            Window observed;
            for (std::size_t i = 0; i < window.size(); ++i) observed.emplace_back(cyc(window.time_at(i)), static_cast<long>(window.at(i).checked_as<Int>()));
            if (ctx) { ++ctx->transitions; ctx->state(std::to_string(range) + show(observed)); if (evicted_before && observed.size() > 4 && previous.size() <= observed.size() - 1 && (observed.size() == 5 || observed.size() == 9)) wrapped_growth = true; }
            const std::string where = "cycle " + std::to_string(now) + " (range " + std::to_string(range) + "): ";
            // the pushed element is the last one
            if (observed.empty() || observed.back() != std::make_pair(now, value)) return where + "the pushed element is not at the back: " + show(observed);
            // the rest is a suffix of the previous window (a prefix was evicted), unchanged
            Window rest(observed.begin(), observed.end() - 1);
            if (rest.size() > previous.size()) return where + "window " + show(observed) + " holds more old elements than the previous window " + show(previous);
            const std::size_t dropped = previous.size() - rest.size();
            if (dropped > 0) evicted_before = true;
            for (std::size_t i = 0; i < rest.size(); ++i)
                if (rest[i] != previous[dropped + i]) return where + "window is " + show(observed) + " but the previous window was " + show(previous) + " (elements may only leave from the front; order, times and values stay)";
            for (std::size_t i = 0; i < dropped; ++i)
                if (previous[i].first > now - range) return where + "element t" + std::to_string(previous[i].first) + " is younger than the range but was evicted: " + show(previous) + " -> " + show(observed);
            for (auto &e : rest)
                if (e.first < now - range) return where + "element t" + std::to_string(e.first) + " is older than the range but still in the window " + show(observed);
            // the tick's delta is the pushed element
            const auto delta = view.delta_value();
            if (!delta.has_value() || delta.checked_as<Int>() != value) return where + "delta_value is not the pushed element";
            if (!view.modified() || !view.valid()) return where + "output not modified/valid after a push";
            previous = observed;
        }
        if (ctx && wrapped_growth) ctx->count("histories_growing_past_4_or_8_after_an_eviction");   // the ring (initial capacity 4, doubling) relocates with a non-zero head
        return std::nullopt;
    }
}  // namespace

void verif_init() {}

std::optional<std::string> verif_run_case(verif::Ctx &, const std::string &desc) { return run_case_impl(desc, nullptr); }

void verif_enumerate(verif::Ctx &ctx)
{
    const bool th = ctx.thorough();
    const int T = th ? 22 : 18;
    // every tick pattern over T cycles with plain pushes; copy / move variants at one position of every pattern with >= 3 pushes
    for (long range : {1L, 2L, 3L, 5L, 9L})
        for (unsigned mask = 1; mask < (1u << T); ++mask)
        {
            if (!ctx.next_is_mine()) continue;
            std::string ops(static_cast<std::size_t>(T), '.');
            int pushes = 0;
            for (int c = 0; c < T; ++c) if (mask & (1u << c)) { ops[static_cast<std::size_t>(c)] = 'p'; ++pushes; }
            std::vector<std::string> variants{ops};
            if (pushes >= 3)
                for (char special : {'c', 'm'})
                    for (int c = 0; c < T; ++c)
                        if (ops[static_cast<std::size_t>(c)] == 'p' && (th || (mask >> c) % 3 == 1)) { std::string v = ops; v[static_cast<std::size_t>(c)] = special; variants.push_back(v); }
            for (auto &v : variants)
            {
                const std::string desc = "wd:" + std::to_string(range) + ":" + v;
                ++ctx.evaluations; ++ctx.traces;
                if (pushes >= 2) ctx.nontriv(desc);
                if (auto viol = run_case_impl(desc, &ctx)) ctx.violation(desc, *viol, viol->substr(viol->find("): ") == std::string::npos ? 0 : viol->find("): ") + 3, 40));
            }
        }
}

VERIF_MAIN()
