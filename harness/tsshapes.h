// Shapes shared by the collection / record-replay harnesses: how a scripted operation is applied to a real output of each
// shape through the typed Out<> API, and how a typed input of that shape is read back.
#pragma once
#include "vpch.h"
#include "vcommon.h"
#include <hgraph/types/metadata/value_plan_factory.h>
#include <hgraph/types/value/value_builder.h>

namespace tsshapes
{
    using namespace hgraph;

    struct Typed  // what a typed consumer reads on a tick
    {
        long t{0};
        std::string value, added, removed, modified;
        std::string str() const { return "t" + std::to_string(t) + " value=[" + value + "] added=[" + added + "] removed=[" + removed + "] modified=[" + modified + "]"; }
    };

    inline long rel(DateTime t) { return t <= MIN_DT ? -1000 : static_cast<long>((t - MIN_ST).count()); }

    inline std::vector<std::string> split(const std::string &s, char sep)
    {
        std::vector<std::string> out; std::string cur;
        for (char c : s) { if (c == sep) { out.push_back(cur); cur.clear(); } else cur += c; }
        out.push_back(cur);
        return out;
    }

    inline std::string canon(const std::string &in)
    {
        std::string s = in;
        std::size_t pos = 0;
        while ((pos = s.find('{', pos)) != std::string::npos)
        {
            const std::size_t close = s.find_first_of("{}", pos + 1);
            if (close == std::string::npos) break;
            if (s[close] == '{') { pos = close; continue; }
            std::vector<std::string> items; std::string cur; int depth = 0;
            for (std::size_t i = pos + 1; i < close; ++i)
            {
                if (s[i] == '<') ++depth;
                if (s[i] == '>') --depth;
                if (s[i] == ',' && depth == 0) { items.push_back(cur); cur.clear(); if (i + 1 < close && s[i + 1] == ' ') ++i; }
                else cur += s[i];
            }
            if (!cur.empty()) items.push_back(cur);
            std::sort(items.begin(), items.end());
            std::string rep = "<";
            for (std::size_t i = 0; i < items.size(); ++i) rep += (i ? ", " : "") + items[i];
            rep += ">";
            s.replace(pos, close - pos + 1, rep);
            pos = 0;
        }
        return s;
    }

    inline std::string join(const std::vector<std::string> &v) { std::string s; for (std::size_t i = 0; i < v.size(); ++i) s += (i ? "," : "") + v[i]; return s; }
    inline std::string sorted_join(std::vector<std::string> v) { std::sort(v.begin(), v.end()); return join(v); }
    template <typename C> std::string set_str(const C &c) { std::vector<std::string> v; for (auto x : c) v.push_back(std::to_string(static_cast<long>(x))); std::sort(v.begin(), v.end()); return "{" + join(v) + "}"; }


    // ---- structural pruning of canonical delta text --------------------------------------------------------------
    // After canon() every group is spelled <item, item, ...>; an item is "key: <group>", "key: scalar" or a bare scalar.
    // prune_delta removes every entry whose nested group is (recursively) empty, so "<1: <added: <>, removed: <>>>" -> "<>".
    inline std::string prune_delta(const std::string &text)
    {
        struct P
        {
            const std::string &s;
            std::size_t i{0};
            std::string group()  // s[i] == '<'
            {
                ++i;
                std::vector<std::string> items;
                while (i < s.size() && s[i] != '>')
                {
                    std::string key;
                    std::size_t start = i;
                    // read up to a top-level ',' or '>' ; detect "key: <" nested groups
                    std::string item;
                    while (i < s.size() && s[i] != ',' && s[i] != '>')
                    {
                        if (s[i] == '<')
                        {
                            const std::string sub = group();
                            if (sub == "<>" || sub == "<unset>" || sub == "<null>") { item.clear(); item = "\x01"; }  // marks an empty nested entry
                            else item += sub;
                        }
                        else item += s[i++];
                    }
                    (void)start; (void)key;
                    if (i < s.size() && s[i] == ',') { ++i; if (i < s.size() && s[i] == ' ') ++i; }
                    // "<unset>" / "<null>" spell an absent field of a bundle delta
                    if (item.size() >= 7 && (item.rfind(": <unset>") == item.size() - 9 || item.rfind(": <null>") == item.size() - 8)) item = "\x01";
                    if (item.find('\x01') == std::string::npos && !item.empty()) items.push_back(item);
                }
                if (i < s.size()) ++i;  // '>'
                std::string out = "<";
                for (std::size_t k = 0; k < items.size(); ++k) out += (k ? ", " : "") + items[k];
                return out + ">";
            }
        };
        if (text.empty() || text[0] != '<') return text;
        P p{text};
        return p.group();
    }

    // ---- shapes ---------------------------------------------------------------------------------------------------
    using PairL = TSL<TS<Int>, 2>;
    using PairB = UnNamedTSB<Field<"a", TS<Int>>, Field<"b", TS<Int>>>;
    using Win = TSW<Int, 3, 2>;
    using DictI = TSD<Int, TS<Int>>;
    using DictS = TSD<Int, TSS<Int>>;

    struct ShapeTS
    {
        using S = TS<Int>;
        static constexpr const char *name = "ts";
        static void apply(const Out<S> &out, const std::string &op, DateTime now)
        {
            if (op[0] == 'v') out.set(Int{std::stol(op.substr(1))});
            else if (op[0] == 'i') { auto m = static_cast<const TSOutputView &>(out).begin_mutation(now); (void)m.invalidate(); }
        }
        template <typename X> static Typed read(const X &x) { Typed t; t.value = std::to_string(static_cast<long>(x.value())); return t; }
    };
    struct ShapeTSS
    {
        using S = TSS<Int>;
        static constexpr const char *name = "tss";
        static void apply(const Out<S> &out, const std::string &op, DateTime)
        {
            if (op[0] == '+') (void)out.add(Int{std::stol(op.substr(1))});
            else if (op[0] == '-') (void)out.remove(Int{std::stol(op.substr(1))});
            else if (op[0] == 'c') out.clear();
            else if (op[0] == 'B') { for (long k = 4; k <= 12; ++k) (void)out.add(Int{k}); }   // crosses the first slot-capacity boundaries
            else if (op[0] == 'D') { for (long k = 4; k <= 12; ++k) (void)out.remove(Int{k}); }
        }
        template <typename X> static Typed read(const X &x) { Typed t; t.value = set_str(x.values()); t.added = set_str(x.added()); t.removed = set_str(x.removed()); return t; }
    };
    struct ShapeDictI
    {
        using S = DictI;
        static constexpr const char *name = "tsd";
        static void apply(const Out<S> &out, const std::string &op, DateTime)
        {
            if (op[0] == 's') { auto eq = op.find('='); out.set(Int{std::stol(op.substr(1, eq - 1))}, Int{std::stol(op.substr(eq + 1))}); }
            else if (op[0] == 'e') (void)out.erase(Int{std::stol(op.substr(1))});
            else if (op[0] == 'c') out.clear();
            else if (op[0] == 'B') { for (long k = 4; k <= 12; ++k) out.set(Int{k}, Int{k * 10}); }
            else if (op[0] == 'x')
            {
                // a "sweep": the element handle is taken, the key is erased, and the element is written once more through the handle.
                // The key stays removed (a late write to a removed element does not bring it back)
                auto eq = op.find('='); const Int k{std::stol(op.substr(1, eq - 1))};
                if (out.contains(k)) { auto element = out[k]; (void)out.erase(k); element.set(Int{std::stol(op.substr(eq + 1))}); }
            }
        }
        static std::string items(KeyValueRange<ValueView, In<"", TS<Int>>> range, bool with_value)
        {
            std::vector<std::string> v;
            for (auto [k, c] : range)
            {
                std::string s = std::to_string(static_cast<long>(k.template checked_as<Int>()));
                if (with_value) s += "=" + (c.valid() ? std::to_string(static_cast<long>(c.value())) : std::string{"?"});
                v.push_back(s);
            }
            return "{" + sorted_join(v) + "}";
        }
        template <typename X> static Typed read(const X &x)
        {
            Typed t;
            t.value = items(x.valid_items(), true);
            t.added = items(x.added_items(), false);
            t.removed = items(x.removed_items(), true);   // the removed child's value must stay readable during the removing cycle
            t.modified = items(x.modified_items(), true);
            return t;
        }
    };
    struct ShapeDictS
    {
        using S = DictS;
        static constexpr const char *name = "tsds";
        static void apply(const Out<S> &out, const std::string &op, DateTime)
        {
            if (op[0] == 'a') { auto c = op.find(':'); (void)out[Int{std::stol(op.substr(1, c - 1))}].add(Int{std::stol(op.substr(c + 1))}); }
            else if (op[0] == 'r') { auto c = op.find(':'); const Int k{std::stol(op.substr(1, c - 1))}; if (out.contains(k)) (void)out[k].remove(Int{std::stol(op.substr(c + 1))}); }
            else if (op[0] == 'e') (void)out.erase(Int{std::stol(op.substr(1))});
        }
        template <typename X> static Typed read(const X &x)
        {
            Typed t;
            std::vector<std::string> val, add, rem, mod;
            for (auto [k, c] : x.items()) val.push_back(std::to_string(static_cast<long>(k.template checked_as<Int>())) + "=" + (c.valid() ? set_str(c.values()) : std::string{"?"}));
            for (auto [k, c] : x.added_items()) add.push_back(std::to_string(static_cast<long>(k.template checked_as<Int>())));
            for (auto [k, c] : x.removed_items()) rem.push_back(std::to_string(static_cast<long>(k.template checked_as<Int>())));
            for (auto [k, c] : x.modified_items()) mod.push_back(std::to_string(static_cast<long>(k.template checked_as<Int>())) + "=+" + set_str(c.added()) + "-" + set_str(c.removed()));
            t.value = "{" + sorted_join(val) + "}"; t.added = "{" + sorted_join(add) + "}"; t.removed = "{" + sorted_join(rem) + "}"; t.modified = "{" + sorted_join(mod) + "}";
            return t;
        }
    };
    struct ShapeTSL
    {
        using S = PairL;
        static constexpr const char *name = "tsl";
        static void apply(const Out<S> &out, const std::string &op, DateTime) { auto eq = op.find('='); out.set(static_cast<std::size_t>(std::stol(op.substr(0, eq))), Int{std::stol(op.substr(eq + 1))}); }
        template <typename X> static Typed read(const X &x)
        {
            Typed t; std::vector<std::string> val, mod;
            for (std::size_t i = 0; i < 2; ++i)
            {
                auto e = x[i];
                val.push_back(std::to_string(i) + "=" + (e.valid() ? std::to_string(static_cast<long>(e.value())) : std::string{"?"}));
                if (e.modified()) mod.push_back(std::to_string(i) + "=" + std::to_string(static_cast<long>(e.value())));
            }
            t.value = "{" + join(val) + "}"; t.modified = "{" + join(mod) + "}";
            return t;
        }
    };
    using DynL = TSL<TS<Int>>;
    struct ShapeDynL   // grow-only dynamic list: writing index i grows the list to i+1, skipped slots stay unset
    {
        using S = DynL;
        static constexpr const char *name = "tsldyn";
        static void apply(const Out<S> &out, const std::string &op, DateTime) { auto eq = op.find('='); out.set(static_cast<std::size_t>(std::stol(op.substr(0, eq))), Int{std::stol(op.substr(eq + 1))}); }
        template <typename X> static Typed read(const X &x)
        {
            Typed t; std::vector<std::string> val, mod;
            const std::size_t n = x.size();
            for (std::size_t i = 0; i < n; ++i)
            {
                auto e = x[i];
                val.push_back(std::to_string(i) + "=" + (e.valid() ? std::to_string(static_cast<long>(e.value())) : std::string{"?"}));
                if (e.modified()) mod.push_back(std::to_string(i) + "=" + std::to_string(static_cast<long>(e.value())));
            }
            t.value = "{" + join(val) + "}"; t.modified = "{" + join(mod) + "}";
            return t;
        }
    };
    struct ShapeTSB
    {
        using S = PairB;
        static constexpr const char *name = "tsb";
        // "a=<v>" / "b=<v>" write one field; "W<x>:<y>" writes the WHOLE bundle value in one copy ('-' leaves a field out)
        static void apply(const Out<S> &out, const std::string &op, DateTime now)
        {
            if (op[0] == 'W')
            {
                const auto colon = op.find(':');
                const std::string xa = op.substr(1, colon - 1), xb = op.substr(colon + 1);
                const TSOutputView &ov = out.base();
                const auto *schema = ov.schema();
                BundleBuilder builder{ValuePlanFactory::instance().type_for(schema->value_schema)};
                if (xa != "-") { Value v{Int{std::stol(xa)}}; builder.set("a", v.view()); }
                if (xb != "-") { Value v{Int{std::stol(xb)}}; builder.set("b", v.view()); }
                Value whole = builder.build();
                auto mutation = ov.begin_mutation(now);
                (void)mutation.copy_value_from(whole.view());
                return;
            }
            const Int v{std::stol(op.substr(2))};
            if (op[0] == 'a') out.template field<"a">().set(v); else out.template field<"b">().set(v);
        }
        template <typename X> static Typed read(const X &x)
        {
            Typed t; std::vector<std::string> val, mod;
            int i = 0;
            for (const char *f : {"a", "b"})
            {
                TSInputView e = static_cast<const TSBInputView &>(x).field(f);
                val.push_back(std::to_string(i) + "=" + (e.valid() ? std::to_string(static_cast<long>(e.value().template checked_as<Int>())) : std::string{"?"}));
                if (e.modified()) mod.push_back(std::to_string(i) + "=" + std::to_string(static_cast<long>(e.value().template checked_as<Int>())));
                ++i;
            }
            t.value = "{" + join(val) + "}"; t.modified = "{" + join(mod) + "}";
            // the bundle's value read AS A WHOLE must show exactly the fields that hold a value, with those values
            {
                const TSInputView &whole_view = static_cast<const TSBInputView &>(x).base();
                if (whole_view.valid())
                {
                    const std::string whole = canon(whole_view.value().to_string());
                    std::string want = "<";
                    int j = 0;
                    for (const char *f : {"a", "b"})
                    {
                        TSInputView e = static_cast<const TSBInputView &>(x).field(f);
                        want += std::string{j ? ", " : ""} + f + ": " + (e.valid() ? std::to_string(static_cast<long>(e.value().template checked_as<Int>())) : std::string{"<unset>"});
                        ++j;
                    }
                    want += ">";
                    if (whole != want) t.value += " !whole-value=" + whole + " but the fields give " + want;
                }
            }
            return t;
        }
    };
    struct ShapeTSW
    {
        using S = Win;
        static constexpr const char *name = "tsw";
        static void apply(const Out<S> &out, const std::string &op, DateTime) { out.push(Int{std::stol(op.substr(1))}); }
        template <typename X> static Typed read(const X &x)
        {
            Typed t; std::vector<std::string> val;
            const std::size_t n = static_cast<const TSWInputView &>(x).size();
            for (std::size_t i = 0; i < n; ++i) val.push_back(std::to_string(static_cast<long>(x.at(i))));
            t.value = "[" + join(val) + "]";
            return t;
        }
    };


    // ---- further shapes used by the record/replay round trip (apply only) -----------------------------------------
    using ListS = TSL<TSS<Int>, 2>;
    using BundleD = UnNamedTSB<Field<"d", TSD<Int, TS<Int>>>, Field<"x", TS<Int>>>;
    using DictB = TSD<Int, PairB>;
    struct ShapeSignal
    {
        using S = SIGNAL;
        static constexpr const char *name = "signal";
        static void apply(const Out<S> &out, const std::string &, DateTime) { out.tick(); }
    };
    struct ShapeStr
    {
        using S = TS<Str>;
        static constexpr const char *name = "str";
        static void apply(const Out<S> &out, const std::string &op, DateTime) { out.set(Str{op}); }
    };
    struct ShapeListS
    {
        using S = ListS;
        static constexpr const char *name = "tsls";
        // "<i>+k" / "<i>-k"
        static void apply(const Out<S> &out, const std::string &op, DateTime)
        {
            const std::size_t i = static_cast<std::size_t>(op[0] - '0');
            const Int k{std::stol(op.substr(2))};
            if (op[1] == '+') (void)out[i].add(k); else (void)out[i].remove(k);
        }
    };
    using ListB = TSL<PairB, 2>;
    struct ShapeListB   // a fixed list whose elements are bundles populated one member at a time
    {
        using S = ListB;
        static constexpr const char *name = "tslb";
        // "<i>a=<v>" | "<i>b=<v>"
        static void apply(const Out<S> &out, const std::string &op, DateTime)
        {
            const std::size_t i = static_cast<std::size_t>(op[0] - '0');
            const Int v{std::stol(op.substr(3))};
            if (op[1] == 'a') out[i].template field<"a">().set(v); else out[i].template field<"b">().set(v);
        }
    };
    using ListL = TSL<TSL<TS<Int>, 2>, 2>;
    struct ShapeListL   // a fixed list of fixed lists
    {
        using S = ListL;
        static constexpr const char *name = "tsll";
        // "<i><j>=<v>"
        static void apply(const Out<S> &out, const std::string &op, DateTime) { out[static_cast<std::size_t>(op[0] - '0')].set(static_cast<std::size_t>(op[1] - '0'), Int{std::stol(op.substr(3))}); }
    };
    struct ShapeBundleD
    {
        using S = BundleD;
        static constexpr const char *name = "tsbd";
        // "x=v" | "s<k>=<v>" | "e<k>"
        static void apply(const Out<S> &out, const std::string &op, DateTime)
        {
            if (op[0] == 'x') out.template field<"x">().set(Int{std::stol(op.substr(2))});
            else if (op[0] == 's') { auto eq = op.find('='); out.template field<"d">().set(Int{std::stol(op.substr(1, eq - 1))}, Int{std::stol(op.substr(eq + 1))}); }
            else if (op[0] == 'e') (void)out.template field<"d">().erase(Int{std::stol(op.substr(1))});
        }
    };
    struct ShapeDictB
    {
        using S = DictB;
        static constexpr const char *name = "tsdb";
        // "<k>a=<v>" | "<k>b=<v>" | "e<k>"
        static void apply(const Out<S> &out, const std::string &op, DateTime)
        {
            if (op[0] == 'e') { (void)out.erase(Int{std::stol(op.substr(1))}); return; }
            const Int k{static_cast<long>(op[0] - '0')};
            const Int v{std::stol(op.substr(3))};
            if (op[1] == 'a') out[k].template field<"a">().set(v); else out[k].template field<"b">().set(v);
        }
    };
}  // namespace tsshapes
