// C15 — captured errors tick once, where they happen, and do not disturb the rest.
// Programs: (n) a throwing node with exception_time_series capture, optionally self-scheduling; (t) try_except_ around a
// one-node and a multi-node child graph; (m) map_ with keyed capture. Throw sets = every subset of T cycles (per key for the
// map). Differential oracle against the fault-free run of the same program and inputs: exactly one error tick per throwing
// cycle, in that cycle, carrying the message; run() does not throw; every stream that does not depend on the failing node is
// identical; in non-throwing cycles the failing node evaluates normally (its scheduled evaluations continue); in the keyed
// map the error is reported under that key only and other keys are identical.
#include "tsshapes.h"
#include <hgraph/runtime/node_error.h>
using namespace hgraph;
using namespace tsshapes;

namespace
{
    struct Tick { long t; std::string v; bool operator==(const Tick &o) const { return t == o.t && v == o.v; } };
    struct Run
    {
        unsigned throw_mask[4]{0, 0, 0, 0};
        unsigned input_mask2{0};                 // second source (programs y / z)      // per thrower id: cycles in which it throws
        unsigned input_mask{0};                  // cycles in which the source ticks
        int cycles{0};
        std::map<int, std::vector<Tick>> probes; // probe id -> ticks
        std::vector<std::string> script;         // dict writer ops
    };
    Run *g = nullptr;

    // the same node fails with the SAME message every time (an error tick must not be suppressed because it equals the previous one)
    // (a throw in an odd cycle carries a LONG message: the error tick must carry the exception's message, not a prefix of it)
    std::string msg_of(long id, long cycle)
    {
        std::string m = "boom id=" + std::to_string(id);
        if (cycle % 2 == 1) { m += " "; for (int i = 0; i < 260; ++i) m += "0123456789abcdef"[(i * 7 + id) % 16], m += "xyz-"; m += "END"; }
        return m;
    }

    struct Src
    {
        static constexpr auto name = "c15_src";
        static constexpr bool schedule_on_start = true;
        static void eval(NodeScheduler sched, DateTime now, Out<TS<Int>> out)
        {
            const long c = rel(now);
            if ((g->input_mask >> c) & 1u) out.set(Int{10 + c});
            if (c + 1 < g->cycles) sched.schedule(MIN_TD);
        }
    };
    struct Src2
    {
        static constexpr auto name = "c15_src2";
        static constexpr bool schedule_on_start = true;
        static void eval(NodeScheduler sched, DateTime now, Out<TS<Int>> out)
        {
            const long c = rel(now);
            if ((g->input_mask2 >> c) & 1u) out.set(Int{100 + c});
            if (c + 1 < g->cycles) sched.schedule(MIN_TD);
        }
    };
    // a healthy, self-scheduling node inside the wrapped sub-graph: every tick of y is re-emitted two steps later (own wake-up)
    struct Delay2
    {
        static constexpr auto name = "c15_delay2";
        static void eval(In<"y", TS<Int>> y, NodeScheduler sched, State<Int> pending, Out<TS<Int>> out)
        {
            if (y.modified()) { pending.set(y.value()); sched.schedule(MIN_TD * 2); }
            else out.set(pending.get());
        }
    };
    struct ThrowSink
    {
        static constexpr auto name = "c15_throw_sink";
        static void eval(In<"x", TS<Int>> x, DateTime now) { const long c = rel(now); (void)x; if ((g->throw_mask[0] >> c) & 1u) throw std::runtime_error(msg_of(0, c)); }
    };
    struct AddOne { static constexpr auto name = "c15_add_one"; static void eval(In<"ts", TS<Int>> ts, Out<TS<Int>> out) { out.set(ts.value() + 1); } };
    struct Thrower
    {
        static constexpr auto name = "c15_thrower";
        static void eval(In<"ts", TS<Int>> ts, Scalar<"id", Int> id, DateTime now, Out<TS<Int>> out)
        {
            const long c = rel(now);
            if ((g->throw_mask[id.value()] >> c) & 1u) throw std::runtime_error(msg_of(id.value(), c));
            out.set(ts.value() * 2);
        }
    };
    struct TimerThrower   // evaluates on every input tick AND one step after each (its own wake-up)
    {
        static constexpr auto name = "c15_timer_thrower";
        static void eval(In<"ts", TS<Int>> ts, NodeScheduler sched, Scalar<"id", Int> id, DateTime now, Out<TS<Int>> out)
        {
            const long c = rel(now);
            if (ts.modified()) sched.schedule(MIN_TD, std::string{"t"});
            if ((g->throw_mask[id.value()] >> c) & 1u) throw std::runtime_error(msg_of(id.value(), c));
            out.set(ts.value() * 2 + (ts.modified() ? 0 : 1));
        }
    };
    struct PerpetualThrower   // once started by an input tick it re-schedules ITSELF every step (untagged) until cycle 6
    {
        static constexpr auto name = "c15_perpetual_thrower";
        static void eval(In<"ts", TS<Int>> ts, NodeScheduler sched, Scalar<"id", Int> id, DateTime now, Out<TS<Int>> out)
        {
            const long c = rel(now);
            if (c < 6) sched.schedule(MIN_TD);
            if ((g->throw_mask[id.value()] >> c) & 1u) throw std::runtime_error(msg_of(id.value(), c));
            out.set(ts.value() * 2 + c);
        }
    };
    struct KeyThrower
    {
        static constexpr auto name = "c15_key_thrower";
        static void eval(In<"key", TS<Int>> key, In<"ts", TS<Int>> ts, DateTime now, Out<TS<Int>> out)
        {
            const long c = rel(now);
            if ((g->throw_mask[key.value()] >> c) & 1u) throw std::runtime_error(msg_of(key.value(), c));
            out.set(ts.value() * 2);
        }
    };
    struct DictWriter
    {
        static constexpr auto name = "c15_dict_writer";
        static constexpr bool schedule_on_start = true;
        static void eval(NodeScheduler sched, DateTime now, Out<DictI> out)
        {
            const long c = rel(now);
            if (c < g->cycles) { const std::string &ops = g->script[static_cast<std::size_t>(c)]; if (!ops.empty()) for (auto &op : split(ops, ',')) ShapeDictI::apply(out, op, now); }
            if (c + 1 < g->cycles) sched.schedule(MIN_TD);
        }
    };
    struct IntProbe { static constexpr auto name = "c15_int_probe"; static void eval(In<"x", TS<Int>> x, Scalar<"id", Int> id, DateTime now) { g->probes[static_cast<int>(id.value())].push_back({rel(now), std::to_string(static_cast<long>(x.value()))}); } };
    struct ErrProbe
    {
        static constexpr auto name = "c15_err_probe";
        static void eval(In<"e", TS<NodeError>> e, Scalar<"id", Int> id, DateTime now)
        {
            g->probes[static_cast<int>(id.value())].push_back({rel(now), e.base().value().as_bundle().at("error_msg").checked_as<Str>()});
        }
    };
    using TryIntResult = UnNamedTSB<Field<"exception", TS<NodeError>>, Field<"out", TS<Int>>>;
    struct TryProbe
    {
        static constexpr auto name = "c15_try_probe";
        static void eval(In<"r", TryIntResult, InputValidity::Unchecked> r, DateTime now)
        {
            auto ex = r.template field<"exception">();
            if (ex.valid() && ex.modified()) g->probes[20].push_back({rel(now), ex.base().value().as_bundle().at("error_msg").checked_as<Str>()});
            auto o = r.template field<"out">();
            if (o.valid() && o.modified()) g->probes[21].push_back({rel(now), std::to_string(static_cast<long>(o.value()))});
        }
    };
    struct DictProbe
    {
        static constexpr auto name = "c15_dict_probe";
        static void eval(In<"x", DictI, InputActivity::Active, InputValidity::Unchecked> x, Scalar<"id", Int> id, DateTime now)
        {
            if (!x.valid()) return;
            for (auto [k, c] : x.modified_items()) if (c.valid()) g->probes[static_cast<int>(id.value()) + static_cast<int>(k.template checked_as<Int>())].push_back({rel(now), std::to_string(static_cast<long>(c.value()))});
        }
    };
    struct ErrDictProbe
    {
        static constexpr auto name = "c15_err_dict_probe";
        static void eval(In<"x", TSD<Int, TS<NodeError>>, InputActivity::Active, InputValidity::Unchecked> x, Scalar<"id", Int> id, DateTime now)
        {
            if (!x.valid()) return;
            for (auto [k, c] : x.modified_items())
                if (c.valid()) g->probes[static_cast<int>(id.value()) + static_cast<int>(k.template checked_as<Int>())].push_back({rel(now), c.base().value().as_bundle().at("error_msg").template checked_as<Str>()});
        }
    };

    struct Child1 { static constexpr auto name = "c15_child1"; static Port<TS<Int>> compose(Wiring &w, Port<TS<Int>> x) { return wire<Thrower>(w, x, Int{0}); } };
    struct Child2 { static constexpr auto name = "c15_child2"; static Port<TS<Int>> compose(Wiring &w, Port<TS<Int>> x) { return wire<Thrower>(w, wire<AddOne>(w, x), Int{0}); } };   // failing node at index > 0
    struct Child3 { static constexpr auto name = "c15_child3"; static Port<TS<Int>> compose(Wiring &w, Port<TS<Int>> x) { return wire<AddOne>(w, wire<Thrower>(w, wire<AddOne>(w, x), Int{0})); } };
    struct MapChild { static constexpr auto name = "c15_map_child"; static Port<TS<Int>> compose(Wiring &w, NamedPort<"key", TS<Int>> key, Port<TS<Int>> ts) { return wire<KeyThrower>(w, key, wire<AddOne>(w, ts)); } };

    // a wrapped sub-graph with two INDEPENDENT parts: a timer node fed by y and a failing sink fed by x (timer ranked before / after the sink)
    struct ChildDelayFirst { static constexpr auto name = "c15_child_delay_first"; static Port<TS<Int>> compose(Wiring &w, Port<TS<Int>> x, Port<TS<Int>> y) { auto d = wire<Delay2>(w, y); wire<ThrowSink>(w, x); return d; } };
    struct ChildSinkFirst { static constexpr auto name = "c15_child_sink_first"; static Port<TS<Int>> compose(Wiring &w, Port<TS<Int>> x, Port<TS<Int>> y) { wire<ThrowSink>(w, x); return wire<Delay2>(w, y); } };
    // a NON-capturing map_ inside a try_except_ sub-graph: a child's exception escapes the map and is captured by the enclosing try_except_
    struct ChildMap { static constexpr auto name = "c15_child_map"; static Port<DictI> compose(Wiring &w, Port<DictI> d) { return wire<stdlib::map_>(w, fn<MapChild>(), d).template as<DictI>(); } };
    using TryDictResult = UnNamedTSB<Field<"exception", TS<NodeError>>, Field<"out", DictI>>;
    struct TryDictProbe
    {
        static constexpr auto name = "c15_try_dict_probe";
        static void eval(In<"r", TryDictResult, InputValidity::Unchecked> r, DateTime now)
        {
            auto ex = r.template field<"exception">();
            if (ex.valid() && ex.modified()) g->probes[20].push_back({rel(now), ex.base().value().as_bundle().at("error_msg").checked_as<Str>()});
            auto o = r.template field<"out">();
            if (o.valid() && o.modified())
                for (auto [k, c] : o.modified_items()) if (c.valid()) g->probes[100 + static_cast<int>(k.template checked_as<Int>())].push_back({rel(now), std::to_string(static_cast<long>(c.value()))});
        }
    };

    struct Observed { std::map<int, std::vector<Tick>> probes; std::string exc; };

    Observed execute(char program, const Run &cfg)
    {
        Observed o;
        Run run = cfg;
        run.probes.clear();
        g = &run;
        try
        {
            Wiring w;
            if (program == 'x')
            {
                auto d = wire<DictWriter>(w);
                wire<TryDictProbe>(w, try_except_<ChildMap>(w, d).template as<TryDictResult>());
                wire<DictProbe>(w, d, Int{300});
            }
            else if (program == 'y' || program == 'z')
            {
                auto x = wire<Src>(w);
                auto y = wire<Src2>(w);
                Port<TryIntResult> r = program == 'y' ? try_except_<ChildDelayFirst>(w, x, y).template as<TryIntResult>() : try_except_<ChildSinkFirst>(w, x, y).template as<TryIntResult>();
                wire<TryProbe>(w, r);
                wire<IntProbe>(w, wire<AddOne>(w, x), Int{1});
            }
            else if (program == 'm')
            {
                auto d = wire<DictWriter>(w);
                auto mapped = wire<stdlib::map_>(w, fn<MapChild>(), d).template as<DictI>();
                Port<TSD<Int, TS<NodeError>>> errors = exception_time_series(mapped);
                wire<DictProbe>(w, mapped, Int{100});     // 100 + key
                wire<ErrDictProbe>(w, errors, Int{200});  // 200 + key
                wire<DictProbe>(w, d, Int{300});          // independent of the failing children
            }
            else
            {
                auto src = wire<Src>(w);
                wire<IntProbe>(w, wire<AddOne>(w, src), Int{1});   // independent sibling
                if (program == 'n' || program == 's' || program == 'p')
                {
                    Port<TS<Int>> th = program == 'n' ? wire<Thrower>(w, src, Int{0}) : (program == 's' ? wire<TimerThrower>(w, src, Int{0}) : wire<PerpetualThrower>(w, src, Int{0}));
                    auto err = exception_time_series(th);
                    wire<IntProbe>(w, th, Int{2});
                    wire<ErrProbe>(w, err, Int{3});
                    wire<IntProbe>(w, wire<AddOne>(w, th), Int{4});  // downstream of the failing node
                }
                else
                {
                    Port<TryIntResult> r;
                    if (program == '1') r = try_except_<Child1>(w, src).template as<TryIntResult>();
                    else if (program == '2') r = try_except_<Child2>(w, src).template as<TryIntResult>();
                    else r = try_except_<Child3>(w, src).template as<TryIntResult>();
                    wire<TryProbe>(w, r);
                }
            }
            GraphBuilder gb = std::move(w).finish();
            GraphExecutorBuilder eb;
            eb.graph_builder(std::move(gb)).start_time(MIN_ST).end_time(MIN_ST + TimeDelta{run.cycles + 3});
            auto ex = eb.make_executor();
            ex.view().run();
        }
        catch (const std::exception &e) { o.exc = e.what(); }
        g = nullptr;
        o.probes = run.probes;
        return o;
    }

    std::string show(const std::vector<Tick> &v) { std::ostringstream o; for (auto &t : v) { o << " t" << t.t << "="; if (t.v.size() > 48) o << t.v.substr(0, 40) << "...(" << t.v.size() << " chars)"; else o << t.v; } return o.str(); }

    struct Outcome { std::optional<std::string> violation; std::string sig, sig_class; bool nontrivial{false}; std::uint64_t ticks{0}; };

    // desc: <program>|<input mask>|<throw mask 0>,<throw mask 1>,<throw mask 2>
    Outcome run_desc(const std::string &desc)
    {
        Outcome out;
        auto parts = split(desc, '|');
        const char program = parts.at(0)[0];
        Run cfg;
        cfg.cycles = 5;
        cfg.input_mask = static_cast<unsigned>(std::stoul(parts.at(1)));
        { auto ms = split(parts.at(2), ','); for (std::size_t i = 0; i < ms.size() && i < 4; ++i) cfg.throw_mask[i] = static_cast<unsigned>(std::stoul(ms[i])); }
        if (parts.size() > 3) cfg.input_mask2 = static_cast<unsigned>(std::stoul(parts[3]));
        cfg.script = {"s1=5,s2=6", "s1=7", "s2=8,s3=9", "s1=10,s3=11", "s2=12"};
        if (program == 'x' && cfg.input_mask == 2) cfg.script = {"s1=5,s2=6", "s1=7,s2=1", "s3=9", "s3=11,s2=4", "s1=2,s2=12"};
        if (program == 'x' && cfg.input_mask == 3) cfg.script = {"s1=5", "s1=7", "s2=8", "s1=10", "s2=12,s3=1"};
        Run clean = cfg;
        for (auto &m : clean.throw_mask) m = 0;
        const Observed ref = execute(program, clean);
        const Observed got = execute(program, cfg);
        if (!ref.exc.empty()) throw verif::HarnessError("fault-free run threw: " + ref.exc);
        std::ostringstream sig;
        for (auto &[id, v] : got.probes) { sig << id << ":"; for (auto &t : v) sig << t.t << ","; sig << ";"; }
        out.sig = std::string(1, program) + "#" + sig.str();
        for (auto &[id, v] : got.probes) out.ticks += v.size();
        if (!got.exc.empty()) { out.violation = "a captured exception escaped run(): " + got.exc; return out; }
        auto stream = [](const Observed &o, int id) { auto it = o.probes.find(id); return it == o.probes.end() ? std::vector<Tick>{} : it->second; };
        auto expect_equal = [&](int id, const char *what) {
            if (!out.violation && stream(got, id) != stream(ref, id))
                out.violation = std::string{what} + " differs from the fault-free run:\n with faults:" + show(stream(got, id)) + "\n fault-free :" + show(stream(ref, id));
        };
        if (program == 'x')
        {
            // one key throws per cycle at most (the enumeration guarantees it); the throwing cycle's dictionary output is a don't-care,
            // every other cycle must carry exactly the fault-free ticks of every key, and each throwing cycle exactly one error tick
            std::set<long> throwing;
            std::vector<Tick> want_err;
            for (int k = 1; k <= 3; ++k)
                for (auto &t : stream(ref, 100 + k)) if ((cfg.throw_mask[k] >> t.t) & 1u) { throwing.insert(t.t); want_err.push_back({t.t, msg_of(k, t.t)}); }
            std::sort(want_err.begin(), want_err.end(), [](const Tick &a, const Tick &b) { return a.t < b.t; });
            if (stream(got, 20) != want_err) out.violation = "error ticks are" + show(stream(got, 20)) + " but the children throw exactly in" + show(want_err);
            for (int k = 1; k <= 3 && !out.violation; ++k)
            {
                expect_equal(300 + k, "the input dictionary (independent of the failing children)");
                std::vector<Tick> g2, r2;
                for (auto &t : stream(got, 100 + k)) if (!throwing.count(t.t)) g2.push_back(t);
                for (auto &t : stream(ref, 100 + k)) if (!throwing.count(t.t)) r2.push_back(t);
                if (!out.violation && g2 != r2) out.violation = "key " + std::to_string(k) + ": outside the throwing cycles the map inside try_except_ produced" + show(g2) + " but the fault-free run gives" + show(r2) + " (the failing sub-graph must evaluate normally again)";
            }
            out.nontrivial = !throwing.empty();
            return out;
        }
        if (program == 'y' || program == 'z')
        {
            // the failing sink evaluates exactly when x ticks; the timer node is independent of it: outside the throwing cycles its
            // stream must be the fault-free one (a pending wake-up of a healthy node survives a failure of its neighbour)
            std::vector<Tick> want_err; std::set<long> throwing;
            for (long c = 0; c < cfg.cycles; ++c) if (((cfg.input_mask >> c) & 1u) && ((cfg.throw_mask[0] >> c) & 1u)) { want_err.push_back({c, msg_of(0, c)}); throwing.insert(c); }
            expect_equal(1, "the stream of a node outside the wrapped sub-graph");
            if (!out.violation && stream(got, 20) != want_err) out.violation = "error ticks are" + show(stream(got, 20)) + " but the sink throws exactly in" + show(want_err);
            std::vector<Tick> g2, r2;
            for (auto &t : stream(got, 21)) if (!throwing.count(t.t)) g2.push_back(t);
            for (auto &t : stream(ref, 21)) if (!throwing.count(t.t)) r2.push_back(t);
            if (!out.violation && g2 != r2)
                out.violation = "the healthy timer node inside the wrapped sub-graph produced" + show(g2) + " outside the throwing cycles, the fault-free run gives" + show(r2) + " (its wake-ups must survive a neighbour's failure)";
            out.nontrivial = !throwing.empty() && !r2.empty();
            return out;
        }
        if (program == 'm')
        {
            for (int k = 1; k <= 3; ++k)
            {
                expect_equal(300 + k, "the input dictionary (independent of the failing children)");
                // per key: error ticks exactly in the throwing cycles in which the child evaluated in the fault-free run
                std::vector<Tick> want_err, want_val;
                for (auto &t : stream(ref, 100 + k)) { if ((cfg.throw_mask[k] >> t.t) & 1u) want_err.push_back({t.t, msg_of(k, t.t)}); else want_val.push_back(t); }
                if (!out.violation && stream(got, 200 + k) != want_err)
                    out.violation = "key " + std::to_string(k) + ": error ticks are" + show(stream(got, 200 + k)) + " but the child throws exactly in" + show(want_err);
                if (!out.violation && stream(got, 100 + k) != want_val)
                    out.violation = "key " + std::to_string(k) + ": value ticks are" + show(stream(got, 100 + k)) + " expected (fault-free values of the non-throwing cycles)" + show(want_val);
                if (cfg.throw_mask[k]) out.nontrivial = true;
            }
            return out;
        }
        expect_equal(1, "the stream of a node that does not depend on the failing node");
        const bool direct = program == 'n' || program == 's' || program == 'p';
        const int val_id = direct ? 2 : 21, err_id = direct ? 3 : 20;
        std::vector<Tick> want_err, want_val;
        for (auto &t : stream(ref, val_id)) { if ((cfg.throw_mask[0] >> t.t) & 1u) want_err.push_back({t.t, msg_of(0, t.t)}); else want_val.push_back(t); }
        if (!out.violation && stream(got, err_id) != want_err)
        {
            out.violation = "error ticks are" + show(stream(got, err_id)) + " but the node throws exactly in" + show(want_err) + " (one error tick per throwing evaluation, in that cycle, with the message)";
        }
        if (!out.violation && stream(got, val_id) != want_val)
            out.violation = "the failing node's ordinary output is" + show(stream(got, val_id)) + " but in the non-throwing cycles it must evaluate normally:" + show(want_val);
        if (out.violation && (program == '2' || program == '3'))
        {
            // known defect: a throw from a child node at index > 0 leaves the child graph's evaluation cursor behind
            out.sig_class = "try_except_ with a multi-node child: after a throw from a node at index > 0 the next cycle skips the child's earlier nodes";
        }
        if (cfg.throw_mask[0] && !want_err.empty()) out.nontrivial = true;
        return out;
    }
}  // namespace

void verif_init() { stdlib::register_standard_operators(); }
std::optional<std::string> verif_run_case(verif::Ctx &, const std::string &desc) { return run_desc(desc).violation; }

void verif_enumerate(verif::Ctx &ctx)
{
    const bool th = ctx.thorough();
    const int T = 5;
    for (char program : std::string{"nsp123"})
        for (unsigned im = 1; im < (1u << T); ++im)
            for (unsigned tm = 0; tm < (1u << ((program == 's' || program == 'p') ? T + 2 : T)); ++tm)
            {
                if (!th && program != 'n' && program != 's' && program != 'p' && (im & 1u) == 0) continue;   // quick: try_except programs start ticking in cycle 0
                if (!ctx.next_is_mine()) continue;
                const std::string desc = std::string(1, program) + "|" + std::to_string(im) + "|" + std::to_string(tm);
                ++ctx.evaluations; ++ctx.traces;
                Outcome o = run_desc(desc);
                ctx.transitions += o.ticks;
                ctx.state(o.sig);
                if (o.nontrivial) ctx.nontriv(desc);
                ctx.count(std::string{"cases_"} + program);
                if (o.violation)
                {
                    Outcome o2 = run_desc(desc);
                    if (!o2.violation || *o2.violation != *o.violation) throw verif::HarnessError("case not reproducible: " + desc);
                    ctx.violation(desc, *o.violation, o.sig_class.empty() ? std::string(1, program) + ": " + o.violation->substr(0, 50) : o.sig_class);
                }
                else if (ctx.evaluations % 997 == 1) ctx.sample("cases", desc);
            }
    // two independent parts inside one try_except_: every tick pattern of x and y, every subset of x's ticks throwing. Program z (timer ranked
    // AFTER the failing sink): only throw cycles in which the timer node is not due itself (neither a y tick nor its wake-up two steps later) -
    // an evaluation lost IN the failing cycle is that cycle's failure, not a later one
    for (char program : std::string{"yz"})
        for (unsigned im = 1; im < (1u << T); ++im)
            for (unsigned im2 = 1; im2 < (1u << T); ++im2)
                for (unsigned tm = im; ; tm = (tm - 1) & im)
                {
                    const unsigned due = im2 | (im2 << 2);
                    if (tm != 0 && !(program == 'z' && (tm & due)) && ctx.next_is_mine())
                    {
                        const std::string desc = std::string(1, program) + "|" + std::to_string(im) + "|" + std::to_string(tm) + "|" + std::to_string(im2);
                        ++ctx.evaluations; ++ctx.traces;
                        Outcome o = run_desc(desc);
                        ctx.transitions += o.ticks;
                        ctx.state(o.sig);
                        if (o.nontrivial) ctx.nontriv(desc);
                        ctx.count(std::string{"cases_"} + program);
                        if (o.violation)
                        {
                            Outcome o2 = run_desc(desc);
                            if (!o2.violation || *o2.violation != *o.violation) throw verif::HarnessError("case not reproducible: " + desc);
                            ctx.violation(desc, *o.violation, std::string(1, program) + ": " + o.violation->substr(0, 50));
                        }
                    }
                    if (tm == 0) break;
                }
    // non-capturing map_ inside try_except_: 3 input scripts x throw sets in which at most one key throws per cycle, never in a cycle that creates a key
    for (int script = 1; script <= 3; ++script)
        for (unsigned m1 = 0; m1 < 32; ++m1) for (unsigned m2 = 0; m2 < 32; ++m2) for (unsigned m3 = 0; m3 < 32; ++m3)
        {
            if ((m1 & m2) || (m1 & m3) || (m2 & m3)) continue;                 // one thrower per cycle
            if ((m1 | m2 | m3) & 0b00101u) continue;                            // cycles 0 and 2 create keys in scripts 1 and 3
            if (script != 1 && ((m1 | m2 | m3) & 0b10100u)) continue;           // scripts 2 / 3 create keys in cycle 2 / 2 and 4
            if ((m1 | m2 | m3) == 0 && script != 1) continue;
            if (!ctx.next_is_mine()) continue;
            const std::string desc = "x|" + std::to_string(script) + "|0," + std::to_string(m1) + "," + std::to_string(m2) + "," + std::to_string(m3);
            ++ctx.evaluations; ++ctx.traces;
            Outcome o = run_desc(desc);
            ctx.transitions += o.ticks;
            ctx.state(o.sig);
            if (o.nontrivial) ctx.nontriv(desc);
            ctx.count("cases_x");
            if (o.violation)
            {
                Outcome o2 = run_desc(desc);
                if (!o2.violation || *o2.violation != *o.violation) throw verif::HarnessError("case not reproducible: " + desc);
                ctx.violation(desc, *o.violation, "x: " + o.violation->substr(0, 50));
            }
        }
    // keyed map: throw masks for keys 1..3 over the 5 cycles (each key throws in a subset of cycles)
    const unsigned per = th ? 32u : 8u;
    for (unsigned m1 = 0; m1 < 32; ++m1)
        for (unsigned m2 = 0; m2 < per; ++m2)
            for (unsigned m3 = 0; m3 < per; ++m3)
            {
                if (!ctx.next_is_mine()) continue;
                const std::string desc = "m|31|0," + std::to_string(m1) + "," + std::to_string(m2 << (th ? 0 : 2)) + "," + std::to_string(m3 << (th ? 0 : 2));
                ++ctx.evaluations; ++ctx.traces;
                Outcome o = run_desc(desc);
                ctx.transitions += o.ticks;
                ctx.state(o.sig);
                if (o.nontrivial) ctx.nontriv(desc);
                ctx.count("cases_m");
                if (o.violation)
                {
                    Outcome o2 = run_desc(desc);
                    if (!o2.violation || *o2.violation != *o.violation) throw verif::HarnessError("case not reproducible: " + desc);
                    ctx.violation(desc, *o.violation, "m: " + o.violation->substr(0, 50));
                }
            }
}

VERIF_MAIN()
