// C09 — a sub-graph behaves the same inlined or nested, at any depth      (sub-space "c09")
// C02 — simulation honours every scheduled wake-up at exactly its time     (sub-space "c02")
//
// c09: every sub-graph body up to N statements over {self-scheduling ticker (periods 1..3), stateful accumulator,
//      1/2-input compute, pass-through of a boundary input} is wired (i) inlined, (ii) nested_, (iii) nested in nested,
//      (iv) depth 3, for every input history of two outer sources; the outer streams must be identical across the four
//      variants (differential) and equal to the reference interpreter; a child graph is never evaluated before its
//      parent's current time; no internal wake-up is lost.
// c02: programs of scripted self-scheduling sources and tickers at the root and inside nested graphs of depth 1-2, every
//      tick history, several run windows: the set of root cycle times must EQUAL the reference's requested times inside
//      [start, end), strictly increasing; every node evaluates exactly at its requested times; next_scheduled_time()
//      after every cycle equals the reference's earliest pending request.
#include "gx.h"
using namespace gx;

namespace
{
    struct Outcome
    {
        std::optional<std::string> violation;
        std::string sink_sig;   // outer observation only (comparable across variants)
        std::string full_sig;
        std::uint64_t evals{0}, nested_evals{0};
        bool idle_parent_wakeup{false};  // a cycle happened that was driven only by a wake-up inside a nested child
        std::vector<long> cycles;
    };

    struct RunCfg
    {
        long origin{0};   // start = MIN_ST + origin
        long end{200};    // end   = start + end
        bool check_cycles{false};
        bool check_next{false};
    };

    struct BuiltG
    {
        Program p;
        std::optional<GraphBuilder> gb;
        std::string exc;
    };
    void build_g(BuiltG &b, const Program &p)
    {
        b.p = p;
        try
        {
            Wiring w;
            WireCtx c{w};
            wire_program(c, p, true);
            b.gb.emplace(std::move(w).finish());
        }
        catch (const std::exception &e) { b.exc = e.what(); }
    }

    Outcome run_built(BuiltG &b, const History &h, const RunCfg &cfg)
    {
        Outcome out;
        const Program &p = b.p;
        if (!b.exc.empty()) { out.violation = "wiring threw: " + b.exc; return out; }
        RunLog log;
        Monitor mon;
        std::string exc;
        run_origin() = cfg.origin;
        g_log = &log;
        try
        {
            seed_history(*b.gb, p, h);
            GraphExecutorBuilder eb;
            eb.graph_builder(*b.gb).start_time(MIN_ST + TimeDelta{cfg.origin}).end_time(MIN_ST + TimeDelta{cfg.origin + cfg.end}).add_lifecycle_observer(&mon);
            auto ex = eb.make_executor();
            ex.view().run();
        }
        catch (const std::exception &e) { exc = e.what(); }
        g_log = nullptr;
        run_origin() = 0;
        out.evals = mon.node_evals;
        out.nested_evals = mon.nested_graph_evals;
        out.cycles = log.root_cycles;
        if (!exc.empty()) { out.violation = "run threw: " + exc; return out; }
        std::vector<Rec> want;
        std::vector<long> cycles;
        ref_run(p, h, true, cfg.end, want, cycles);
        std::vector<Rec> got = log.evals;
        std::stable_sort(got.begin(), got.end());
        std::stable_sort(want.begin(), want.end());
        std::ostringstream ss, fs;
        for (auto &r : got) { fs << r.id << "@" << r.t << "=" << r.out << ";"; if (r.id >= 9000000) ss << r.id << "@" << r.t << "=" << r.v[0] << ";"; }
        out.sink_sig = ss.str();
        out.full_sig = fs.str();
        if (!log.monitor_error.empty()) { out.violation = "monitor: " + log.monitor_error; return out; }
        if (got.size() != want.size() || !std::equal(got.begin(), got.end(), want.begin()))
        {
            std::ostringstream o;
            std::size_t i = 0;
            while (i < got.size() && i < want.size() && got[i] == want[i]) ++i;
            o << "evaluation log differs from the reference (a wake-up was lost, moved or invented): first difference at #" << i << " got "
              << (i < got.size() ? got[i].str() : std::string{"<end>"}) << " want " << (i < want.size() ? want[i].str() : std::string{"<end>"});
            out.violation = o.str();
            return out;
        }
        // strictly increasing, inside the window
        for (std::size_t i = 0; i < log.root_cycles.size(); ++i)
        {
            const long t = log.root_cycles[i];
            if (t < 0 || t >= cfg.end) { out.violation = "cycle at " + std::to_string(t) + " outside the run window [0," + std::to_string(cfg.end) + ")"; return out; }
            if (i && t <= log.root_cycles[i - 1]) { out.violation = "evaluation time did not strictly increase: " + std::to_string(log.root_cycles[i - 1]) + " then " + std::to_string(t); return out; }
        }
        if (cfg.check_cycles && log.root_cycles != cycles)
        {
            std::ostringstream o;
            o << "root cycle times differ from the requested wake-up times: got";
            for (long t : log.root_cycles) o << " " << t;
            o << " want";
            for (long t : cycles) o << " " << t;
            out.violation = o.str();
            return out;
        }
        if (cfg.check_next && log.root_next.size() == cycles.size())
        {
            for (std::size_t i = 0; i < cycles.size(); ++i)
            {
                const long want_next = i + 1 < cycles.size() ? cycles[i + 1] : LONG_MAX;
                // the reference's full request list may extend beyond the window; recompute the unbounded successor
                long got_next = log.root_next[i];
                if (i + 1 < cycles.size() && got_next != want_next)
                {
                    out.violation = "after cycle " + std::to_string(cycles[i]) + " next_scheduled_time() = " + (got_next == LONG_MAX ? std::string{"none"} : std::to_string(got_next)) +
                                    " but the earliest pending request is " + std::to_string(want_next);
                    return out;
                }
            }
        }
        return out;
    }

    Outcome run_program(const Program &p, const History &h, const RunCfg &cfg)
    {
        BuiltG b;
        build_g(b, p);
        return run_built(b, h, cfg);
    }

    std::vector<std::string> split_colon(const std::string &s)
    {
        std::vector<std::string> out; std::string cur;
        for (char ch : s) { if (ch == ':') { out.push_back(cur); cur.clear(); } else cur += ch; }
        out.push_back(cur);
        return out;
    }
    History make_history(int cycles, const std::vector<unsigned> &masks)
    {
        History h; h.cycles = cycles; h.tick = masks; h.bval.assign(masks.size(), 0u);
        return h;
    }

    // ------------------------------------------------------------------------------------------------------ c09
    // desc: "c09:<variant>:<body text>#<cycles>:<m0>,<m1>"      variant: i inlined, n nested, d nested-in-nested, e depth 3
    struct C09Case { char variant; std::string body; int cycles; std::vector<unsigned> masks; };

    void install_bodies(const std::string &body_text)
    {
        auto &b = bodies();
        b.clear();
        b.push_back(parse_program(body_text));   // 0 the body under test
        b.push_back(parse_program("nA,Bk0"));     // 1 wrapper: nests body 0
        b.push_back(parse_program("nA,Bk1"));     // 2 wrapper of wrapper
    }

    Program outer_program(char variant)
    {
        switch (variant)
        {
            case 'i': return parse_program("s;s;m0,1k0");
            case 'n': return parse_program("s;s;n0,1k0");
            case 'd': return parse_program("s;s;n0,1k1");
            case 'e': return parse_program("s;s;n0,1k2");
        }
        throw verif::HarnessError("bad variant");
    }

    C09Case parse_c09(const std::string &desc)
    {
        C09Case c;
        c.variant = desc.at(4);
        const std::string rest = desc.substr(6);
        const auto h = rest.find('#');
        c.body = rest.substr(0, h);
        const std::string hs = rest.substr(h + 1);
        const auto c1 = hs.find(':');
        c.cycles = std::stoi(hs.substr(0, c1));
        std::string cur;
        for (char ch : hs.substr(c1 + 1)) { if (ch == ',') { c.masks.push_back(static_cast<unsigned>(std::stoul(cur))); cur.clear(); } else cur += ch; }
        if (!cur.empty()) c.masks.push_back(static_cast<unsigned>(std::stoul(cur)));
        return c;
    }

    Outcome run_c09(const C09Case &c)
    {
        install_bodies(c.body);
        RunCfg cfg;
        return run_program(outer_program(c.variant), make_history(c.cycles, c.masks), cfg);
    }

    void gen_bodies(int n, std::vector<Stmt> &cur, const std::function<void(const std::vector<Stmt> &)> &emit)
    {
        const int i = static_cast<int>(cur.size());
        if (i == n)
        {
            // the boundary must matter or the body must have its own clock; skip bodies where some statement is dead
            std::vector<bool> used(cur.size(), false);
            for (auto &s : cur) for (int j = 0; j < n_inputs(s.kind); ++j) if (s.in[j] >= 0) used[static_cast<std::size_t>(s.in[j])] = true;
            for (int j = 0; j + 1 < n; ++j) if (!used[static_cast<std::size_t>(j)]) return;
            emit(cur);
            return;
        }
        std::vector<int> ports = {-1, -2};
        for (int j = 0; j < i; ++j) ports.push_back(j);
        for (int period : {1, 2, 3}) { Stmt s; s.kind = TICK; s.k = period * 16 + 2; cur.push_back(s); gen_bodies(n, cur, emit); cur.pop_back(); }
        for (int a : ports) { Stmt s; s.kind = ACC; s.in[0] = a; cur.push_back(s); gen_bodies(n, cur, emit); cur.pop_back(); }
        for (int a : ports) { Stmt s; s.kind = F1; s.in[0] = a; s.k = 1; cur.push_back(s); gen_bodies(n, cur, emit); cur.pop_back(); }
        for (int a : ports) for (int b : ports) { Stmt s; s.kind = F2; s.in[0] = a; s.in[1] = b; s.k = 1; cur.push_back(s); gen_bodies(n, cur, emit); cur.pop_back(); }
        for (int a : {-1, -2}) { Stmt s; s.kind = ARG; s.in[0] = a; cur.push_back(s); gen_bodies(n, cur, emit); cur.pop_back(); }
    }

    // ---- the same sub-graph inside a graph that is CREATED LATE (a switch_ branch selected in a later cycle): nested vs inlined -------
    // When the branch starts, its boundary inputs may already hold values; the nested child must be sampled exactly like the inlined nodes.
    struct KeyAt
    {
        static constexpr auto name = "c09_key_at";
        static void start(NodeScheduler sched, Scalar<"cycle", Int> cycle) { sched.schedule(MIN_ST + TimeDelta{run_origin() + cycle.value()}); }
        static void eval(Scalar<"cycle", Int>, Out<TS<Int>> out) { out.set(Int{1}); }
    };
    std::vector<std::pair<long, long>> *g_late_log = nullptr;
    struct LateLog { static constexpr auto name = "c09_late_log"; static void eval(In<"x", TS<Int>> x, DateTime now) { if (g_late_log) g_late_log->emplace_back(rel(now), static_cast<long>(x.value())); } };
    struct BrNested { static constexpr auto name = "c09_br_nested"; static Port<TS<Int>> compose(Wiring &w, Port<TS<Int>> a, Port<TS<Int>> b) { return nested_<GxSub>(w, a, b, Int{0}, Int{300}); } };
    struct BrInline { static constexpr auto name = "c09_br_inline"; static Port<TS<Int>> compose(Wiring &w, Port<TS<Int>> a, Port<TS<Int>> b) { return wire<GxSub>(w, a, b, Int{0}, Int{300}); } };

    // desc: "c09w:<body text>#<cycles>:<m0>,<m1>:<activation cycle>"
    std::optional<std::string> run_late(const std::string &desc, std::string *sig = nullptr)
    {
        const std::string rest = desc.substr(5);
        const auto h = rest.find('#');
        const std::string body = rest.substr(0, h);
        const auto parts = split_colon(rest.substr(h + 1));
        const int cycles = std::stoi(parts.at(0));
        const auto comma = parts.at(1).find(',');
        const unsigned m0 = static_cast<unsigned>(std::stoul(parts.at(1).substr(0, comma))), m1 = static_cast<unsigned>(std::stoul(parts.at(1).substr(comma + 1)));
        const long act = std::stol(parts.at(2));
        install_bodies(body);
        usrc_masks()[0] = m0; usrc_masks()[1] = m1;
        std::vector<std::pair<long, long>> logs[2];
        std::string excs[2];
        for (int variant = 0; variant < 2; ++variant)
        {
            g_late_log = &logs[variant];
            try
            {
                Wiring w;
                auto s0 = wire<NUSrc>(w, Int{0});
                auto s1 = wire<NUSrc>(w, Int{1});
                stdlib::SwitchCases cases;
                cases.cases.push_back({Value{Int{1}}, variant == 0 ? fn<BrInline>() : fn<BrNested>()});
                auto o = wire<stdlib::switch_>(w, wire<KeyAt>(w, Int{act}), cases, s0, s1).template as<TS<Int>>();
                wire<LateLog>(w, o);
                GraphBuilder gb = std::move(w).finish();
                GraphExecutorBuilder eb;
                eb.graph_builder(std::move(gb)).start_time(MIN_ST).end_time(MIN_ST + TimeDelta{cycles + 12});
                auto ex = eb.make_executor();
                ex.view().run();
            }
            catch (const std::exception &e) { excs[variant] = e.what(); }
            g_late_log = nullptr;
        }
        auto show = [](const std::vector<std::pair<long, long>> &v) { std::string o; for (auto &[t, x] : v) o += " t" + std::to_string(t) + "=" + std::to_string(x); return o.empty() ? std::string{" (none)"} : o; };
        if (sig) *sig = show(logs[0]);
        if (excs[0] != excs[1]) return "inlined and nested variants fail differently: inlined '" + excs[0] + "' nested '" + excs[1] + "'";
        if (logs[0] != logs[1]) return "inside a branch selected in cycle " + std::to_string(act) + " the nested sub-graph gives" + show(logs[1]) + " but the inlined one gives" + show(logs[0]);
        return std::nullopt;
    }

    void c09_enumerate(verif::Ctx &ctx)
    {
        const bool th = ctx.thorough();
        const int max_n = th ? 4 : 3;
        const int cycles = 4;
        const unsigned per = 1u << cycles;
        std::uint64_t nbodies = 0;
        for (int n = 1; n <= max_n; ++n)
        {
            std::vector<Stmt> cur;
            gen_bodies(n, cur, [&](const std::vector<Stmt> &st) {
                if (!ctx.next_is_mine()) return;
                ++nbodies;
                Program body; body.st = st;
                const std::string btxt = to_text(body);
                bool has_timer = false;
                for (auto &s : st) if (s.kind == TICK) has_timer = true;
                install_bodies(btxt);
                std::map<char, BuiltG> built;
                for (char v : {'i', 'n', 'd', 'e'}) build_g(built[v], outer_program(v));
                for (unsigned m0 = 0; m0 < per; ++m0)
                    for (unsigned m1 = 0; m1 < per; ++m1)
                    {
                        if (th && n == max_n && (m0 == 0 && m1 == 0) && !has_timer) continue;
                        std::string ref_sig;
                        for (char v : {'i', 'n', 'd', 'e'})
                        {
                            C09Case c{v, btxt, cycles, {m0, m1}};
                            std::ostringstream d;
                            d << "c09:" << v << ":" << btxt << "#" << cycles << ":" << m0 << "," << m1;
                            const std::string desc = d.str();
                            ++ctx.evaluations;
                            Outcome o = run_built(built[v], make_history(cycles, {m0, m1}), RunCfg{});
                            ctx.transitions += o.evals;
                            ++ctx.traces;
                            if (o.violation)
                            {
                                Outcome o2 = run_c09(c);
                                if (!o2.violation || *o2.violation != *o.violation) throw verif::HarnessError("case not reproducible: " + desc);
                                ctx.violation(desc, *o.violation, std::string{"c09 "} + v + " " + o.violation->substr(0, 50));
                                continue;
                            }
                            if (v == 'i') { ref_sig = o.sink_sig; ctx.state(o.sink_sig); }
                            else if (o.sink_sig != ref_sig)
                                ctx.violation(desc, "outer output stream of the nested variant differs from the inlined variant:\n nested : " + o.sink_sig + "\n inlined: " + ref_sig,
                                              std::string{"c09 differential "} + v);
                            if (v != 'i' && has_timer && (m0 | m1) != 0) ctx.nontriv(desc);
                            if (ctx.evaluations % 30011 == 1) ctx.sample("c09_cases", desc + " => " + o.sink_sig.substr(0, 120));
                        }
                    }
            });
        }
        ctx.counters["bodies"] = nbodies;
        // late-created enclosing graph: bodies of <= 2 statements (3 thorough) x every input history x activation cycle 0..2
        for (int n = 1; n <= (th ? 3 : 2); ++n)
        {
            std::vector<Stmt> cur;
            gen_bodies(n, cur, [&](const std::vector<Stmt> &st) {
                if (!ctx.next_is_mine()) return;
                Program body; body.st = st;
                const std::string btxt = to_text(body);
                for (unsigned m0 = 0; m0 < per; ++m0)
                    for (unsigned m1 = 0; m1 < per; ++m1)
                        for (long act = 0; act <= 2; ++act)
                        {
                            std::ostringstream d;
                            d << "c09w:" << btxt << "#" << cycles << ":" << m0 << "," << m1 << ":" << act;
                            const std::string desc = d.str();
                            ctx.evaluations += 2; ctx.traces += 2;
                            std::string sig2;
                            auto v = run_late(desc, &sig2);
                            ctx.state("late|" + sig2);
                            if (act > 0 && (m0 | m1) != 0) ctx.nontriv(desc);
                            ctx.count("late_created_cases");
                            if (v) ctx.violation(desc, *v, "c09 late-created graph: nested differs from inlined");
                        }
            });
        }
    }

    // ------------------------------------------------------------------------------------------------------ c02
    // desc: "c02:<origin>:<end>:<program>#<cycles>:<masks>"   with bodies fixed by setup_c02_bodies()
    void setup_c02_bodies()
    {
        auto &b = bodies();
        b.clear();
        b.push_back(parse_program("tk" + std::to_string(3 * 16 + 2) + ";g0,Ak1"));   // 0: ticker(period 3) combined with boundary a
        b.push_back(parse_program("tk" + std::to_string(1 * 16 + 3) + ";f0k1"));     // 1: ticker on consecutive smallest steps, ignores inputs
        b.push_back(parse_program("nA,Bk0"));                                          // 2: nested inside nested (ticker at depth 2)
        b.push_back(parse_program("tk" + std::to_string(5 * 16 + 2) + ";aA;g0,1k1")); // 3: far ticker + stateful
        b.push_back(parse_program("tk" + std::to_string(2 * 16 + 2) + ";nA,0k1"));    // 4: ticker feeding a nested ticker body
    }

    struct C02Case { long origin, end; Program p; History h; };

    C02Case parse_c02(const std::string &desc)
    {
        C02Case c;
        auto p1 = desc.find(':'), p2 = desc.find(':', p1 + 1), p3 = desc.find(':', p2 + 1);
        c.origin = std::stol(desc.substr(p1 + 1, p2 - p1 - 1));
        c.end = std::stol(desc.substr(p2 + 1, p3 - p2 - 1));
        const std::string rest = desc.substr(p3 + 1);
        const auto h = rest.find('#');
        c.p = parse_program(rest.substr(0, h));
        const std::string hs = rest.substr(h + 1);
        const auto c1 = hs.find(':');
        std::vector<unsigned> masks;
        std::string cur;
        for (char ch : hs.substr(c1 + 1)) { if (ch == ',') { masks.push_back(static_cast<unsigned>(std::stoul(cur))); cur.clear(); } else cur += ch; }
        if (!cur.empty()) masks.push_back(static_cast<unsigned>(std::stoul(cur)));
        c.h = make_history(std::stoi(hs.substr(0, c1)), masks);
        return c;
    }

    Outcome run_c02(const C02Case &c)
    {
        setup_c02_bodies();
        RunCfg cfg; cfg.origin = c.origin; cfg.end = c.end; cfg.check_cycles = true; cfg.check_next = true;
        return run_program(c.p, c.h, cfg);
    }

    void c02_enumerate(verif::Ctx &ctx)
    {
        const bool th = ctx.thorough();
        setup_c02_bodies();
        // programs: up to 2 scripted sources, then up to K statements from {ticker(period p, count c), F1, F2, ACC, nested body 0..4}
        std::vector<Stmt> choices_src;
        std::vector<std::string> programs;
        const std::vector<int> tick_ks = th ? std::vector<int>{1 * 16 + 3, 2 * 16 + 2, 3 * 16 + 2, 5 * 16 + 2, 1 * 16 + 1} : std::vector<int>{1 * 16 + 3, 2 * 16 + 2, 3 * 16 + 2, 5 * 16 + 2};
        const int max_extra = th ? 3 : 2;
        std::function<void(std::vector<Stmt> &, int)> rec = [&](std::vector<Stmt> &cur, int extra) {
            if (extra > 0) { Program p; p.st = cur; programs.push_back(to_text(p)); }
            if (extra == max_extra) return;
            std::vector<int> ports;
            for (int j = 0; j < static_cast<int>(cur.size()); ++j) ports.push_back(j);
            for (int k : tick_ks) { Stmt s; s.kind = TICK; s.k = k; cur.push_back(s); rec(cur, extra + 1); cur.pop_back(); }
            for (int a : ports) { Stmt s; s.kind = F1; s.in[0] = a; s.k = 1; cur.push_back(s); rec(cur, extra + 1); cur.pop_back(); }
            for (int a : ports) { Stmt s; s.kind = ACC; s.in[0] = a; cur.push_back(s); rec(cur, extra + 1); cur.pop_back(); }
            for (int a : ports) for (int b : ports) if (a < b) { Stmt s; s.kind = F2; s.in[0] = a; s.in[1] = b; s.k = 1; cur.push_back(s); rec(cur, extra + 1); cur.pop_back(); }
            for (int a : ports) for (int b : ports) if (a <= b)
                for (int body = 0; body < static_cast<int>(bodies().size()); ++body) { Stmt s; s.kind = NEST; s.in[0] = a; s.in[1] = b; s.k = body; cur.push_back(s); rec(cur, extra + 1); cur.pop_back(); }
        };
        for (int nsrc = 1; nsrc <= 2; ++nsrc)
        {
            std::vector<Stmt> cur;
            for (int i = 0; i < nsrc; ++i) { Stmt s; s.kind = USRC; cur.push_back(s); }
            rec(cur, 0);
        }
        ctx.counters["programs_total"] = programs.size();
        const int cycles = th ? 5 : 4;
        const unsigned per = 1u << cycles;
        struct Win { long origin, end; };
        const std::vector<Win> wins = {{0, 40}, {0, 1}, {0, 3}, {0, 6}, {7, 1}, {7, 3}, {7, 6}, {7, 40}};
        for (auto &ptxt : programs)
        {
            if (!ctx.next_is_mine()) continue;
            ctx.count("programs");
            Program p = parse_program(ptxt);
            BuiltG built;
            build_g(built, p);
            int nsrc = 0;
            for (auto &s : p.st) if (s.kind == USRC) ++nsrc;
            std::uint64_t nh = 1;
            for (int i = 0; i < nsrc; ++i) nh *= per;
            for (std::uint64_t hi = 0; hi < nh; ++hi)
            {
                std::vector<unsigned> masks;
                std::uint64_t x = hi;
                for (int i = 0; i < nsrc; ++i) { masks.push_back(static_cast<unsigned>(x % per)); x /= per; }
                for (auto &wdw : wins)
                {
                    std::ostringstream d;
                    d << "c02:" << wdw.origin << ":" << wdw.end << ":" << ptxt << "#" << cycles << ":";
                    for (std::size_t i = 0; i < masks.size(); ++i) d << (i ? "," : "") << masks[i];
                    const std::string desc = d.str();
                    C02Case c{wdw.origin, wdw.end, p, make_history(cycles, masks)};
                    ++ctx.evaluations;
                    RunCfg cfg; cfg.origin = wdw.origin; cfg.end = wdw.end; cfg.check_cycles = true; cfg.check_next = true;
                    Outcome o = run_built(built, c.h, cfg);
                    ctx.transitions += o.cycles.size();
                    ++ctx.traces;
                    {
                        std::ostringstream cs;
                        for (long t : o.cycles) cs << t << ",";
                        ctx.state("c02|" + cs.str() + "|" + o.full_sig);  // distinct observed traces (cycle times + every node evaluation)
                    }
                    if (o.nested_evals && o.cycles.size() >= 3) ctx.nontriv(desc);
                    if (o.violation)
                    {
                        Outcome o2 = run_c02(c);
                        if (!o2.violation || *o2.violation != *o.violation) throw verif::HarnessError("case not reproducible: " + desc);
                        ctx.violation(desc, *o.violation, "c02 " + o.violation->substr(0, 50));
                    }
                    else if (ctx.evaluations % 30011 == 1) ctx.sample("c02_cases", desc);
                }
            }
        }
    }
}  // namespace

void verif_init() { stdlib::register_standard_operators(); }

std::optional<std::string> verif_run_case(verif::Ctx &, const std::string &desc)
{
    if (desc.rfind("c09w:", 0) == 0) return run_late(desc);
    if (desc.rfind("c09:", 0) == 0)
    {
        C09Case c = parse_c09(desc);
        Outcome o = run_c09(c);
        if (o.violation) return o.violation;
        if (c.variant != 'i')
        {
            C09Case ci = c; ci.variant = 'i';
            Outcome oi = run_c09(ci);
            if (!oi.violation && oi.sink_sig != o.sink_sig) return "outer output stream of the nested variant differs from the inlined variant:\n nested : " + o.sink_sig + "\n inlined: " + oi.sink_sig;
        }
        return std::nullopt;
    }
    if (desc.rfind("c02:", 0) == 0) { Outcome o = run_c02(parse_c02(desc)); if (std::getenv("VERIF_DEBUG")) { std::printf("cycles:"); for (long t : o.cycles) std::printf(" %ld", t); std::printf("\nfull: %s\n", o.full_sig.c_str()); } return o.violation; }
    throw verif::HarnessError("unknown case " + desc);
}

void verif_enumerate(verif::Ctx &ctx)
{
    if (ctx.sub == "c02") c02_enumerate(ctx);
    else c09_enumerate(ctx);
}

VERIF_MAIN()
