// C18 — Node scheduler wakes the node at every pending time and its queries agree.
//
// (a) "comp": explicit-state BFS to fixpoint over the real NodeScheduler view acting on a live
//     NodeSchedulerState, driven by the engine's own per-evaluation protocol (node.cpp evaluate_impl:
//     scheduled_now computed before user code, advance() after it iff scheduled_now). Every reachable
//     canonical state is compared with a reference pending-set model after every operation.
// (b) "integ": a scripted static node executing every operation list per evaluation inside a real simulation
//     graph (alone / next to a second self-scheduling node / driven by an input source); its evaluation
//     times and the scheduler's answers are compared with the same reference model.
#include "vpch.h"
#include "vcommon.h"

using namespace hgraph;

namespace
{
    // ---------------------------------------------------------------------------------------------
    // Reference model: the set of pending requests (time relative to an absolute integer axis).
    // ---------------------------------------------------------------------------------------------
    struct Model
    {
        std::set<long> untagged;          // pending untagged times
        std::map<std::string, long> tag;  // tag -> its single pending time
        std::set<long> ever;              // every time ever accepted as a request (for the don't-care on cancelled times)

        bool empty() const { return untagged.empty() && tag.empty(); }
        long next() const
        {
            long n = LONG_MAX;
            if (!untagged.empty()) n = std::min(n, *untagged.begin());
            for (auto &[k, v] : tag) n = std::min(n, v);
            return n;
        }
        std::set<long> pending_times() const
        {
            std::set<long> s = untagged;
            for (auto &[k, v] : tag) s.insert(v);
            return s;
        }
        void schedule(long when, const std::string &t, long now, bool started)
        {
            if (started ? when <= now : when < now) return;  // ignored without disturbing anything
            ever.insert(when);
            if (t.empty()) untagged.insert(when);
            else tag[t] = when;  // one pending time per tag: replaces
        }
        void un_schedule_tag(const std::string &t) { tag.erase(t); }
        long pop_tag(const std::string &t, long dflt)
        {
            auto it = tag.find(t);
            if (it == tag.end()) return dflt;
            long w = it->second;
            tag.erase(it);
            return w;
        }
        // "cancel the next (earliest) pending event": order is (time, tag) with the untagged event ("") first
        void un_schedule_first()
        {
            if (empty()) return;
            long n = next();
            if (untagged.count(n)) { untagged.erase(n); return; }
            std::string best;
            bool have = false;
            for (auto &[k, v] : tag) if (v == n && (!have || k < best)) { best = k; have = true; }
            tag.erase(best);
        }
        void reset() { untagged.clear(); tag.clear(); }
        void consume_through(long now)
        {
            while (!untagged.empty() && *untagged.begin() <= now) untagged.erase(untagged.begin());
            for (auto it = tag.begin(); it != tag.end();) { if (it->second <= now) it = tag.erase(it); else ++it; }
        }
        std::string canon(long now) const
        {
            std::ostringstream o;
            for (long t : untagged) o << (t - now) << ",";
            o << "|";
            for (auto &[k, v] : tag) o << k << "=" << (v - now) << ",";
            return o.str();
        }
    };

    // Operation alphabet ---------------------------------------------------------------------------
    struct Op
    {
        char kind;  // 'S' schedule(delta,tag)  'A' schedule(absolute now+d,tag)  'U' un_schedule(tag)  'F' un_schedule()
                    // 'P' pop_tag(tag)  'R' reset
        int d{0};
        std::string tag{};
        std::string str() const
        {
            std::ostringstream o;
            o << kind;
            if (kind == 'S' || kind == 'A') o << d;
            if (!tag.empty()) o << tag;
            return o.str();
        }
    };

    Op parse_op(const std::string &s)
    {
        Op op;
        op.kind = s.at(0);
        std::size_t i = 1;
        if (op.kind == 'S' || op.kind == 'A')
        {
            std::size_t j = i;
            if (j < s.size() && s[j] == '-') ++j;
            while (j < s.size() && std::isdigit(static_cast<unsigned char>(s[j]))) ++j;
            op.d = std::stoi(s.substr(i, j - i));
            i = j;
        }
        op.tag = s.substr(i);
        return op;
    }

    std::vector<Op> alphabet(bool thorough, bool integ)
    {
        std::vector<Op> a;
        const std::vector<std::string> tags = {"", "x", "y"};
        (void)thorough;
        for (int d : {1, 2, 3, 0}) for (auto &t : tags) a.push_back({'S', d, t});
        for (auto &t : tags) a.push_back({'A', -1, t});
        if (!integ) for (auto &t : tags) a.push_back({'A', 2, t});
        for (auto &t : tags) if (!t.empty()) { a.push_back({'U', 0, t}); a.push_back({'P', 0, t}); }
        a.push_back({'F', 0, ""});
        a.push_back({'R', 0, ""});
        return a;
    }

    DateTime at(long t) { return MIN_ST + TimeDelta{t} * 1; }
    long rel(DateTime t) { return t == MIN_DT ? LONG_MIN : (t == MAX_DT ? LONG_MAX : static_cast<long>((t - MIN_ST).count())); }

    /** Apply one op through the real view and through the model; returns a mismatch description or "". */
    std::string apply_op(const Op &op, const NodeScheduler &sched, Model &m, long now, bool started)
    {
        std::optional<std::string> tag = op.tag.empty() ? std::nullopt : std::optional<std::string>{op.tag};
        switch (op.kind)
        {
            case 'S': sched.schedule(TimeDelta{op.d}, tag); m.schedule(now + op.d, op.tag, now, started); break;
            case 'A': sched.schedule(at(now + op.d), tag); m.schedule(now + op.d, op.tag, now, started); break;
            case 'U': sched.un_schedule(op.tag); m.un_schedule_tag(op.tag); break;
            case 'F': sched.un_schedule(); m.un_schedule_first(); break;
            case 'P':
            {
                const DateTime got = sched.pop_tag(op.tag, at(-777));
                const long want = m.pop_tag(op.tag, -777);
                if (rel(got) != want) { return "pop_tag(" + op.tag + ") returned " + std::to_string(rel(got)) + " expected " + std::to_string(want); }
                break;
            }
            case 'R': sched.reset(); m.reset(); break;
            default: throw verif::HarnessError("bad op");
        }
        return {};
    }

    /** Compare every query of the real view with the model. */
    std::string compare_queries(const NodeScheduler &sched, const Model &m, long now)
    {
        std::ostringstream e;
        const long mn = m.next();
        const long in = rel(sched.next_scheduled_time());
        if (m.empty()) { if (sched.next_scheduled_time() != MIN_DT) e << "next_scheduled_time=" << in << " but nothing pending; "; }
        else if (in != mn) e << "next_scheduled_time=" << in << " model=" << mn << "; ";
        if (sched.is_scheduled() != !m.empty()) e << "is_scheduled=" << sched.is_scheduled() << " model=" << !m.empty() << "; ";
        const bool mnow = !m.empty() && mn == now;
        if (sched.is_scheduled_now() != mnow) e << "is_scheduled_now=" << sched.is_scheduled_now() << " model=" << mnow << "; ";
        for (const char *t : {"x", "y"})
        {
            const bool has = m.tag.count(t) != 0;
            if (sched.has_tag(t) != has) e << "has_tag(" << t << ")=" << sched.has_tag(t) << " model=" << has << "; ";
            const long tt = rel(sched.tag_time(t, at(-555)));
            const long mt = has ? m.tag.at(t) : -555;
            if (tt != mt) e << "tag_time(" << t << ")=" << tt << " model=" << mt << "; ";
            const bool tn = has && mt == now;
            if (sched.tag_is_scheduled_now(t) != tn) e << "tag_is_scheduled_now(" << t << ")=" << sched.tag_is_scheduled_now(t) << " model=" << tn << "; ";
        }
        return e.str();
    }

    /** Structural agreement of the live state with the model (pending set exactly equal). */
    std::string compare_state(const NodeSchedulerState &st, const Model &m)
    {
        std::set<std::pair<long, std::string>> impl, model;
        for (auto &[t, tag] : st.events) impl.insert({rel(t), tag});
        for (long t : m.untagged) model.insert({t, ""});
        for (auto &[k, v] : m.tag) model.insert({v, k});
        std::ostringstream e;
        if (impl != model)
        {
            e << "pending set differs: impl={";
            for (auto &[t, g] : impl) e << t << (g.empty() ? "" : ":" + g) << " ";
            e << "} model={";
            for (auto &[t, g] : model) e << t << (g.empty() ? "" : ":" + g) << " ";
            e << "}; ";
        }
        for (auto &[k, v] : st.tags)
            if (!m.tag.count(k) || m.tag.at(k) != rel(v)) e << "tag index entry " << k << "=" << rel(v) << " not in model; ";
        if (st.tags.size() != m.tag.size()) e << "tag index size " << st.tags.size() << " model " << m.tag.size() << "; ";
        return e.str();
    }

    // ---------------------------------------------------------------------------------------------
    // (a) component-level BFS
    // ---------------------------------------------------------------------------------------------
    struct CompState
    {
        NodeSchedulerState st;
        Model m;
        long now{0};
        bool started{false};        // false while the node's start hook runs
        bool scheduled_now{false};  // engine's pre-evaluation snapshot for the current evaluation
        std::string path;           // op history reaching this state (first found = shortest)
    };

    std::string comp_key(const CompState &s)
    {
        std::ostringstream o;
        o << (s.started ? 'E' : 'S') << (s.scheduled_now ? '1' : '0') << "#";
        for (auto &[t, g] : s.st.events) o << (rel(t) - s.now) << ":" << g << ",";
        o << "#";
        for (auto &[k, v] : s.st.tags) o << k << "=" << (rel(v) - s.now) << ",";
        o << "#" << s.m.canon(s.now);
        return o.str();
    }

    // Path element grammar: an op string, or "T<k>" = finish the current phase and evaluate next at now+k.
    std::optional<std::string> comp_step(CompState &s, const std::string &el)
    {
        if (el[0] == 'T')
        {
            const long k = std::stol(el.substr(1));
            // end of the current phase, exactly as node.cpp does it
            if (s.started)
            {
                NodeScheduler sched{s.st, nullptr, 0, at(s.now), true};
                if (s.scheduled_now) { sched.advance(); s.m.consume_through(s.now); }
            }
            const long target = s.now + k;
            if (!s.m.empty() && s.m.next() < target) throw verif::HarnessError("driver skipped a pending time");
            s.started = true;
            s.now = target;
            // the engine's snapshot: earliest live event == evaluation time
            s.scheduled_now = !s.st.events.empty() && s.st.events.begin()->first == at(s.now);
            NodeScheduler sched{s.st, nullptr, 0, at(s.now), true};
            std::string e = compare_state(s.st, s.m) + compare_queries(sched, s.m, s.now);
            const bool model_due = !s.m.empty() && s.m.next() == s.now;
            if (model_due != s.scheduled_now) e += "engine sees scheduled_now=" + std::to_string(s.scheduled_now) + " model due=" + std::to_string(model_due) + "; ";
            if (!e.empty()) return e;
            return std::nullopt;
        }
        const Op op = parse_op(el);
        NodeScheduler sched{s.st, nullptr, 0, at(s.now), s.started};
        std::string e = apply_op(op, sched, s.m, s.now, s.started);
        e += compare_state(s.st, s.m) + compare_queries(sched, s.m, s.now);
        if (!e.empty()) return e;
        return std::nullopt;
    }

    std::vector<std::string> split(const std::string &s, char sep)
    {
        std::vector<std::string> out;
        std::string cur;
        for (char c : s) { if (c == sep) { out.push_back(cur); cur.clear(); } else cur += c; }
        if (!cur.empty()) out.push_back(cur);
        return out;
    }

    std::optional<std::string> run_comp_path(const std::string &path, CompState *final_state = nullptr)
    {
        CompState s;
        for (auto &el : split(path, ' '))
        {
            if (auto e = comp_step(s, el)) return "after '" + el + "' in [" + path + "]: " + *e;
        }
        if (final_state) *final_state = s;
        return std::nullopt;
    }

    void comp_bfs(verif::Ctx &ctx)
    {
        const auto ops = alphabet(true, false);
        std::deque<CompState> frontier;
        std::unordered_set<std::string> seen;
        CompState init;
        seen.insert(comp_key(init));
        frontier.push_back(init);
        std::size_t max_depth = 0;
        std::set<std::string> query_classes;
        while (!frontier.empty())
        {
            CompState cur = std::move(frontier.front());
            frontier.pop_front();
            std::vector<std::string> els;
            for (auto &op : ops) els.push_back(op.str());
            // time steps: from start the node may be evaluated at now (k=0) or later; afterwards strictly later.
            for (long k = cur.started ? 1 : 0; k <= 3; ++k)
            {
                // after the phase ends the fired events (if any) are consumed; the engine never skips a pending time
                Model after = cur.m;
                if (cur.started && cur.scheduled_now) after.consume_through(cur.now);
                if (!after.empty() && after.next() < cur.now + k) continue;
                els.push_back("T" + std::to_string(k));
            }
            for (auto &el : els)
            {
                CompState nxt = cur;
                nxt.path = cur.path.empty() ? el : cur.path + " " + el;
                ++ctx.transitions;
                auto e = comp_step(nxt, el);
                if (e)
                {
                    // determinism obligation: replay the whole path from scratch twice
                    auto r1 = run_comp_path(nxt.path), r2 = run_comp_path(nxt.path);
                    if (!r1 || !r2 || *r1 != *r2) throw verif::HarnessError("comp path not reproducible: " + nxt.path);
                    ctx.violation("comp:" + nxt.path, *r1, "comp: " + *e);
                    continue;
                }
                const std::string key = comp_key(nxt);
                if (seen.insert(key).second)
                {
                    max_depth = std::max(max_depth, split(nxt.path, ' ').size());
                    ctx.state("comp|" + key);
                    if (seen.size() % 37 == 1) ctx.sample("comp_paths", nxt.path + "  => state " + key);
                    frontier.push_back(std::move(nxt));
                }
            }
            ++ctx.traces;  // one more reachable state whose full outgoing alphabet was validated against the model
            if (seen.size() > 2000000) { ctx.capped = true; ctx.cap_note = "comp BFS state cap hit"; break; }
        }
        ctx.counters["comp_states"] = seen.size();
        ctx.counters["comp_max_depth"] = max_depth;
        ctx.counters["comp_fixpoint"] = ctx.capped ? 0 : 1;
    }

    // ---------------------------------------------------------------------------------------------
    // (b) integrated: scripted node in a real simulation graph
    // ---------------------------------------------------------------------------------------------
    struct IntegRun
    {
        std::vector<std::vector<Op>> start_script;  // size 0 or 1
        std::vector<std::vector<Op>> eval_scripts;  // per evaluation
        // log
        struct Eval { long t; std::string query_err; };
        std::vector<Eval> evals;
        std::vector<long> cycles;
        Model m;
        std::size_t next_eval{0};
        std::string err;
        bool in_start{false};
        std::set<long> input_ticks;
        std::set<long> tolerated;                 // times requested and cancelled within one hook invocation
        char variant{'a'};
        unsigned mask{0};
        std::string frontier_key;  // canonical state at the first evaluation beyond the supplied scripts
        bool frontier_reached{false};
    };
    IntegRun *g_run = nullptr;

    void scripted_body(NodeScheduler &sched, bool starting)
    {
        IntegRun &r = *g_run;
        const long now = rel(sched.now());
        if (!starting)
        {
            // wake-up discipline, checked at the moment of evaluation
            const std::set<long> pend = r.m.pending_times();
            if (!pend.empty() && *pend.begin() < now && r.err.empty())
                r.err = "evaluated at " + std::to_string(now) + " but pending time " + std::to_string(*pend.begin()) + " was never honoured";
            const bool due = pend.count(now) != 0;
            const bool input = r.input_ticks.count(now) != 0;
            // A time requested and cancelled again inside ONE hook invocation: schedule() arms the graph slot at once and a cancellation
            // cannot disarm it, so the node is still woken then (the statement is silent on it). A time requested in an EARLIER hook and
            // cancelled or postponed later is NOT tolerated: after user code the engine re-arms the slot from what is still pending.
            const bool dont_care = r.tolerated.count(now) != 0;
            if (!due && !input && !dont_care && r.err.empty())
                r.err = "evaluated at " + std::to_string(now) + " which was never requested (pending=" + r.m.canon(0) + ")";
            std::string q = compare_queries(sched, r.m, now);
            if (!q.empty() && r.err.empty()) r.err = "at evaluation t=" + std::to_string(now) + " before ops: " + q;
            r.evals.push_back({now, q});
        }
        if (!starting && r.next_eval == r.eval_scripts.size() && !r.frontier_reached)
        {
            // The future of the run from the start of an evaluation depends on: the pending set relative to now, and the
            // remaining external drivers (input ticks after now / the other node's absolute phase). The node's graph slot
            // equals now by construction (that is why it is being evaluated), so it is not part of the key.
            std::ostringstream k;
            k << r.variant << "|" << r.m.canon(now) << "|";
            if (r.variant == 'i') k << (r.mask >> (now + 1 > 31 ? 31 : now + 1));
            if (r.variant == 'o') k << std::min<long>(now, 5);
            r.frontier_key = k.str();
            r.frontier_reached = true;
        }
        const std::vector<Op> *script = nullptr;
        static const std::vector<Op> none;
        if (starting) script = r.start_script.empty() ? &none : &r.start_script[0];
        else { script = r.next_eval < r.eval_scripts.size() ? &r.eval_scripts[r.next_eval] : &none; ++r.next_eval; }
        std::set<long> asked_in_this_hook;
        for (auto &op : *script)
        {
            if (op.kind == 'S' || op.kind == 'A') asked_in_this_hook.insert(now + op.d);
            std::string e = apply_op(op, sched, r.m, now, !starting);
            e += compare_queries(sched, r.m, now);
            if (!e.empty() && r.err.empty()) r.err = "t=" + std::to_string(now) + (starting ? " (start)" : "") + " after " + op.str() + ": " + e;
        }
        {
            const std::set<long> still = r.m.pending_times();
            for (long t : asked_in_this_hook) if (r.m.ever.count(t) && !still.count(t)) r.tolerated.insert(t);
        }
        if (!starting)
        {
            // what the engine must do after user code: requests at or before now are satisfied by this evaluation
            r.m.consume_through(now);
        }
    }

    struct Scripted
    {
        static constexpr auto name = "c18_scripted";
        static void start(NodeScheduler sched) { scripted_body(sched, true); }
        static void eval(NodeScheduler sched, Out<TS<Int>> out) { scripted_body(sched, false); out.set(Int{1}); }
    };
    struct ScriptedIn
    {
        static constexpr auto name = "c18_scripted_in";
        static void start(NodeScheduler sched) { scripted_body(sched, true); }
        // validity Unchecked: the C03 readiness gate (required inputs valid) must not mask a wake-up of this node
        static void eval(In<"ts", TS<Int>, InputValidity::Unchecked> ts, NodeScheduler sched, Out<TS<Int>> out) { scripted_body(sched, false); out.set(Int{1}); }
    };
    // A second self-scheduling node so the graph's next-time cache is shared: ticks at 0, 2, 4 (period 2) three times.
    struct Other
    {
        static constexpr auto name = "c18_other";
        static constexpr bool schedule_on_start = true;
        static void eval(NodeScheduler sched, State<Int> n, Out<TS<Int>> out)
        {
            const Int k = n.get();
            out.set(k);
            n.set(k + 1);
            if (k < 2) sched.schedule(MIN_TD * 2);
        }
    };

    struct CycleObs : LifecycleObserver
    {
        void on_before_graph_evaluation(const GraphView &g) override { if (g_run) g_run->cycles.push_back(rel(g.evaluation_time())); }
    };

    // desc grammar:  integ:<variant>:<inputmask>:<start ops ,>;<eval1 ops ,>;<eval2 ops>...
    //   variant: a = alone, o = with Other node, i = driven by a replay input (mask bit c => tick at cycle c)
    std::string integ_desc(char variant, unsigned mask, const std::vector<Op> &start, const std::vector<std::vector<Op>> &evals)
    {
        std::ostringstream o;
        o << "integ:" << variant << ":" << mask << ":";
        for (std::size_t i = 0; i < start.size(); ++i) o << (i ? "," : "") << start[i].str();
        for (auto &e : evals) { o << ";"; for (std::size_t i = 0; i < e.size(); ++i) o << (i ? "," : "") << e[i].str(); }
        return o.str();
    }

    std::vector<Op> parse_ops(const std::string &s)
    {
        std::vector<Op> v;
        for (auto &p : split(s, ',')) v.push_back(parse_op(p));
        return v;
    }

    struct IntegOutcome
    {
        std::optional<std::string> violation;
        std::size_t evals{0};
        bool more_possible{false};  // the node was evaluated more often than scripts were supplied
        std::string frontier_key;
        std::string signature;
    };

    IntegOutcome run_integ(const std::string &desc)
    {
        // split "integ:v:mask:rest"
        auto p1 = desc.find(':'), p2 = desc.find(':', p1 + 1), p3 = desc.find(':', p2 + 1);
        const char variant = desc[p1 + 1];
        const unsigned mask = static_cast<unsigned>(std::stoul(desc.substr(p2 + 1, p3 - p2 - 1)));
        const std::string rest = desc.substr(p3 + 1);
        IntegRun run;
        {
            std::vector<std::string> parts;
            std::string cur;
            for (char c : rest) { if (c == ';') { parts.push_back(cur); cur.clear(); } else cur += c; }
            parts.push_back(cur);
            run.start_script.push_back(parse_ops(parts[0]));
            for (std::size_t i = 1; i < parts.size(); ++i) run.eval_scripts.push_back(parse_ops(parts[i]));
        }
        if (variant == 'i') for (long c = 0; c < 8; ++c) if (mask & (1u << c)) run.input_ticks.insert(c);
        run.variant = variant;
        run.mask = mask;
        g_run = &run;
        CycleObs obs;
        std::string exc;
        long final_next = LONG_MIN;
        try
        {
            Wiring w;
            if (variant == 'i')
            {
                auto src = wire<stdlib::replay_impl, TS<Int>>(w, std::string{"in"});
                auto o = wire<ScriptedIn>(w, src);
                wire<stdlib::dense_record_impl>(w, o, std::string{"out"});
            }
            else
            {
                if (variant == 'o') { auto o2 = wire<Other>(w); wire<stdlib::dense_record_impl>(w, o2, std::string{"other"}); }
                auto o = wire<Scripted>(w);
                wire<stdlib::dense_record_impl>(w, o, std::string{"out"});
            }
            GraphBuilder gb = std::move(w).finish();
            if (variant == 'i')
            {
                std::vector<std::optional<Int>> seq;
                for (long c = 0; c < 8; ++c) seq.push_back((mask & (1u << c)) ? std::optional<Int>{Int{c}} : std::nullopt);
                while (!seq.empty() && !seq.back()) seq.pop_back();
                testing::set_replay_values<Int>(gb.global_state(), "in", seq);
            }
            GraphExecutorBuilder eb;
            eb.graph_builder(std::move(gb)).start_time(MIN_ST).end_time(MIN_ST + TimeDelta{1000}).add_lifecycle_observer(&obs);
            auto ex = eb.make_executor();
            ex.view().run();
        }
        catch (const std::exception &e) { exc = e.what(); }
        g_run = nullptr;

        IntegOutcome out;
        out.evals = run.evals.size();
        out.more_possible = run.frontier_reached;
        out.frontier_key = run.frontier_key;
        std::ostringstream sig;
        for (auto &e : run.evals) sig << e.t << ",";
        sig << "|" << run.m.canon(0);
        out.signature = sig.str();
        std::string err = run.err;
        if (err.empty() && !exc.empty()) err = "run threw: " + exc;
        if (err.empty() && !run.m.empty())
            err = "run went quiescent with pending wake-ups never honoured: " + run.m.canon(0);
        if (err.empty())
        {
            // cycles must be strictly increasing (sanity of observation)
            for (std::size_t i = 1; i < run.cycles.size(); ++i)
                if (run.cycles[i] <= run.cycles[i - 1]) err = "cycle times not strictly increasing";
        }
        if (!err.empty())
        {
            std::ostringstream o;
            o << err << " [evaluations at:";
            for (auto &e : run.evals) o << " " << e.t;
            o << "]";
            out.violation = o.str();
        }
        return out;
    }

    struct IntegNode { std::vector<Op> start; std::vector<std::vector<Op>> evals; };

    /** BFS over evaluation-boundary states of one variant; every (state, op list) pair is executed on a fresh real graph. */
    void integ_variant(verif::Ctx &ctx, char variant, unsigned mask, const std::vector<std::vector<Op>> &start_lists,
                       const std::vector<std::vector<Op>> &lists)
    {
        std::unordered_set<std::string> seen;
        std::deque<IntegNode> frontier;
        std::size_t max_depth = 0;
        auto run_one = [&](const IntegNode &n) {
            const std::string desc = integ_desc(variant, mask, n.start, n.evals);
            ++ctx.evaluations;
            IntegOutcome o = run_integ(desc);
            ctx.transitions += o.evals;
            ++ctx.traces;
            ctx.state("integobs|" + std::string(1, variant) + "|" + o.signature);
            if (o.evals >= 2) ctx.nontriv(desc);
            if (o.violation)
            {
                IntegOutcome o2 = run_integ(desc);
                if (!o2.violation || *o2.violation != *o.violation) throw verif::HarnessError("integ case not reproducible: " + desc);
                ctx.violation(desc, *o.violation, "integ: " + o.violation->substr(0, o.violation->find(" [")));
                return;
            }
            if (ctx.evaluations % 4999 == 1) ctx.sample("integ_cases", desc + "  => evals@" + o.signature);
            if (o.more_possible && seen.insert(o.frontier_key).second)
            {
                ctx.state("integ|" + o.frontier_key);
                max_depth = std::max(max_depth, n.evals.size() + 1);
                frontier.push_back(n);
            }
        };
        for (auto &sl : start_lists) run_one(IntegNode{sl, {}});
        while (!frontier.empty())
        {
            IntegNode n = std::move(frontier.front());
            frontier.pop_front();
            for (auto &l : lists)
            {
                if (l.empty()) continue;  // the empty continuation already ran when this state was discovered
                IntegNode c = n;
                c.evals.push_back(l);
                run_one(c);
            }
            if (n.evals.size() > 12) { ctx.capped = true; ctx.cap_note = "integ depth cap 12 hit"; break; }
        }
        const std::string tag = std::string("integ_") + variant + std::to_string(mask);
        ctx.counters[tag + "_boundary_states"] = seen.size();
        ctx.counters[tag + "_max_depth"] = max_depth;
    }

    void integ(verif::Ctx &ctx)
    {
        const bool th = ctx.thorough();
        const auto ops = alphabet(th, true);
        std::vector<std::vector<Op>> lists;
        lists.push_back({});
        for (auto &a : ops) lists.push_back({a});
        for (auto &a : ops) for (auto &b : ops) lists.push_back({a, b});
        if (th)
        {
            std::vector<Op> core;  // length-3 lists over the core alphabet (one tag)
            for (auto &o : ops) if (o.tag != "y") core.push_back(o);
            for (auto &a : core) for (auto &b : core) for (auto &c : core) lists.push_back({a, b, c});
        }
        ctx.counters["integ_lists_per_eval"] = lists.size();
        std::vector<std::vector<Op>> start_lists;
        start_lists.push_back({});
        for (auto &a : ops) start_lists.push_back({a});
        for (auto &a : ops) for (auto &b : ops) start_lists.push_back({a, b});
        struct Var { char v; unsigned mask; };
        std::vector<Var> vars = {{'a', 0}, {'o', 0}, {'i', 0b1}, {'i', 0b101}, {'i', 0b110}, {'i', 0b1010}, {'i', 0b111}};
        if (th) { vars.push_back({'i', 0b10010}); vars.push_back({'i', 0b1111}); }
        for (auto &var : vars)
        {
            if (!ctx.next_is_mine()) continue;
            integ_variant(ctx, var.v, var.mask, start_lists, lists);
        }
    }
}  // namespace

void verif_init() { stdlib::register_standard_operators(); }

std::optional<std::string> verif_run_case(verif::Ctx &, const std::string &desc)
{
    if (desc.rfind("comp:", 0) == 0) return run_comp_path(desc.substr(5));
    if (desc.rfind("integ:", 0) == 0) return run_integ(desc).violation;
    throw verif::HarnessError("unknown case descriptor: " + desc);
}

void verif_enumerate(verif::Ctx &ctx)
{
    if (ctx.sub.empty() || ctx.sub == "comp") { if (ctx.shard == 0) comp_bfs(ctx); }
    if (ctx.sub.empty() || ctx.sub == "integ") integ(ctx);
}

VERIF_MAIN()
