// C04 (activity part) — a NON-PEERED structured input (a list / bundle assembled on the consumer side from independent outputs)
// keeps telling the truth about modified / valid / last-modified-time of the parent and of every element while the consumer
// switches subscriptions of single elements, or of the whole input, on and off.
//
//     replay(a) -> Relay A --.
//                             +--> {A, B} (brace list) | to_tsl(A, B) | to_tsb(A, B) --> Watcher(xs, step)
//     replay(b) -> Relay B --'
//     replay(step) ticks EVERY cycle, so the watcher observes every cycle whatever its subscriptions are.
//
// The watcher executes one subscription operation per cycle from a script (none, make_active / make_passive of element 0 or 1, of
// the whole input) BEFORE it reads, and records parent and element flags. Oracle per cycle: each element equals what its producer
// wrote; parent.modified == some element modified; parent.last_modified_time == latest element write; parent.valid == some element
// valid. Every tick pattern of A and B over T cycles x every script with at most K operations is run.
#include "vpch.h"
#include "vcommon.h"
#include "tsshapes.h"
using namespace hgraph;
using namespace hgraph::testing;

namespace
{
    using tsshapes::split;
    using Pair = TSL<TS<Int>, 2>;
    using PairB = UnNamedTSB<Field<"a", TS<Int>>, Field<"b", TS<Int>>>;

    struct Leaf { bool valid{false}, modified{false}; long lmt{-1}; long value{0}; };
    struct Cycle { long step{0}; bool pvalid{false}, pmod{false}; long plmt{-1}; Leaf e[2]; };
    std::vector<Cycle> *LOG = nullptr;
    const std::vector<std::string> *SCRIPT = nullptr;
    long rel(DateTime t) { return t == MIN_DT ? -1 : static_cast<long>((t - MIN_ST) / MIN_TD); }

    template <int N> struct Relay
    {
        static constexpr auto name = N == 0 ? "c04a_relay_a" : "c04a_relay_b";
        static void eval(In<"in", TS<Int>> in, Out<TS<Int>> out) { out.set(in.value()); }
    };

    template <typename E> Leaf leaf_of(E e)
    {
        Leaf l; l.valid = e.valid(); l.modified = e.modified(); l.lmt = rel(e.last_modified_time());
        if (l.valid) l.value = static_cast<long>(e.value());
        return l;
    }
    template <typename X, typename E0, typename E1> void apply_op(const std::string &op, X &xs, E0 e0, E1 e1)
    {
        if (op == "a0") e0.make_active(); else if (op == "p0") e0.make_passive();
        else if (op == "a1") e1.make_active(); else if (op == "p1") e1.make_passive();
        else if (op == "A") xs.make_active(); else if (op == "P") xs.make_passive();
    }
    struct WatchL
    {
        static constexpr auto name = "c04a_watch_list";
        static void eval(In<"xs", Pair, InputValidity::Unchecked> xs, In<"step", TS<Int>> step)
        {
            const long s = static_cast<long>(step.value());
            if (s < static_cast<long>(SCRIPT->size())) apply_op((*SCRIPT)[static_cast<std::size_t>(s)], xs, xs[0], xs[1]);
            Cycle c; c.step = s; c.pvalid = xs.valid(); c.pmod = xs.modified(); c.plmt = rel(xs.last_modified_time());
            c.e[0] = leaf_of(xs[0]); c.e[1] = leaf_of(xs[1]);
            LOG->push_back(c);
        }
    };
    struct WatchB
    {
        static constexpr auto name = "c04a_watch_bundle";
        static void eval(In<"xs", PairB, InputValidity::Unchecked> xs, In<"step", TS<Int>> step)
        {
            const long s = static_cast<long>(step.value());
            if (s < static_cast<long>(SCRIPT->size())) apply_op((*SCRIPT)[static_cast<std::size_t>(s)], xs, xs.template field<"a">(), xs.template field<"b">());
            Cycle c; c.step = s; c.pvalid = xs.valid(); c.pmod = xs.modified(); c.plmt = rel(xs.last_modified_time());
            c.e[0] = leaf_of(xs.template field<"a">()); c.e[1] = leaf_of(xs.template field<"b">());
            LOG->push_back(c);
        }
    };

    // desc: <shape l|t|b>|<amask>,<bmask>|<op;op;...>    one op per cycle ("" = none)
    std::optional<std::string> run_case_impl(const std::string &desc, verif::Ctx *ctx)
    {
        const auto parts = split(desc, '|');
        if (parts.size() != 3) throw verif::HarnessError("bad case " + desc);
        const char shape = parts[0][0];
        const auto masks = split(parts[1], ',');
        const unsigned am = static_cast<unsigned>(std::stoul(masks[0])), bm = static_cast<unsigned>(std::stoul(masks[1]));
        std::vector<std::string> script = split(parts[2], ';');
        const std::size_t T = script.size();
        std::vector<Cycle> log; LOG = &log; SCRIPT = &script;
        try
        {
            Wiring w;
            auto step = wire<stdlib::replay_impl, TS<Int>>(w, Str{"step"});
            auto a = wire<Relay<0>>(w, wire<stdlib::replay_impl, TS<Int>>(w, Str{"a"}));
            auto b = wire<Relay<1>>(w, wire<stdlib::replay_impl, TS<Int>>(w, Str{"b"}));
            if (shape == 'l') wire<WatchL>(w, {a, b}, step);
            else if (shape == 't') wire<WatchL>(w, stdlib::to_tsl<Pair>(w, a, b).template as<Pair>(), step);
            else wire<WatchB>(w, stdlib::to_tsb<PairB>(w, a, b), step);
            GraphBuilder gb = std::move(w).finish();
            std::vector<std::optional<Int>> sv, av, bv;
            for (std::size_t c = 0; c < T; ++c)
            {
                sv.push_back(Int{static_cast<long>(c)});
                av.push_back((am >> c) & 1u ? std::optional<Int>{Int{static_cast<long>(10 + c)}} : std::nullopt);
                bv.push_back((bm >> c) & 1u ? std::optional<Int>{Int{static_cast<long>(100 + c)}} : std::nullopt);
            }
            set_replay_values<Int>(gb.global_state(), "step", sv);
            set_replay_values<Int>(gb.global_state(), "a", av);
            set_replay_values<Int>(gb.global_state(), "b", bv);
            GraphExecutorBuilder eb;
            eb.graph_builder(std::move(gb)).start_time(MIN_ST).end_time(MIN_ST + MIN_TD * 40);
            GraphExecutorValue ex = eb.make_executor();
            ex.view().run();
        }
        catch (const std::exception &e) { LOG = nullptr; SCRIPT = nullptr; return std::string{"run threw: "} + e.what(); }
        LOG = nullptr; SCRIPT = nullptr;
        std::string sig;
        for (auto &c : log) sig += std::to_string(c.pmod) + std::to_string(c.pvalid) + "@" + std::to_string(c.plmt) + "/" + std::to_string(c.e[0].modified) + std::to_string(c.e[1].modified) + " ";
        if (ctx) { ctx->transitions += log.size(); ctx->state(sig); }
        if (log.size() != T) return "the watcher was evaluated in " + std::to_string(log.size()) + " cycles, expected " + std::to_string(T) + " (its step input ticks every cycle)";
        Leaf truth[2];
        for (std::size_t c = 0; c < T; ++c)
        {
            const Cycle &cy = log[c];
            const bool wrote[2] = {((am >> c) & 1u) != 0, ((bm >> c) & 1u) != 0};
            for (int i = 0; i < 2; ++i)
            {
                truth[i].modified = wrote[i];
                if (wrote[i]) { truth[i].valid = true; truth[i].lmt = static_cast<long>(c); truth[i].value = static_cast<long>((i ? 100 : 10) + c); }
            }
            const std::string where = "cycle " + std::to_string(c) + " (op '" + script[c] + "'): ";
            for (int i = 0; i < 2; ++i)
            {
                const Leaf &g = cy.e[i]; const Leaf &t = truth[i];
                if (g.modified != t.modified) return where + "element " + std::to_string(i) + ".modified=" + std::to_string(g.modified) + " but its producer " + (t.modified ? "wrote" : "did not write") + " in this cycle";
                if (g.valid != t.valid) return where + "element " + std::to_string(i) + ".valid=" + std::to_string(g.valid) + ", producer valid=" + std::to_string(t.valid);
                if (g.lmt != t.lmt) return where + "element " + std::to_string(i) + ".last_modified_time=" + std::to_string(g.lmt) + ", producer's last write was in cycle " + std::to_string(t.lmt);
                if (g.valid && g.value != t.value) return where + "element " + std::to_string(i) + ".value=" + std::to_string(g.value) + ", producer holds " + std::to_string(t.value);
            }
            const bool any_mod = truth[0].modified || truth[1].modified, any_valid = truth[0].valid || truth[1].valid;
            const long max_lmt = std::max(truth[0].lmt, truth[1].lmt);
            if (cy.pmod != any_mod) return where + "parent.modified=" + std::to_string(cy.pmod) + " but " + (any_mod ? "a child was modified" : "no child was modified");
            if (cy.plmt != max_lmt) return where + "parent.last_modified_time=" + std::to_string(cy.plmt) + " but the latest child write was in cycle " + std::to_string(max_lmt);
            if (cy.pvalid != any_valid) return where + "parent.valid=" + std::to_string(cy.pvalid) + " but " + (any_valid ? "a child is valid" : "no child is valid");
        }
        return std::nullopt;
    }
}  // namespace

void verif_init() { stdlib::register_standard_operators(); }
std::optional<std::string> verif_run_case(verif::Ctx &, const std::string &desc) { return run_case_impl(desc, nullptr); }

void verif_enumerate(verif::Ctx &ctx)
{
    const bool th = ctx.thorough();
    const int T = th ? 6 : 5;
    const int K = th ? 3 : 2;   // at most K subscription operations per script
    const std::vector<std::string> ops = {"a0", "p0", "a1", "p1", "A", "P"};
    // scripts: choose <= K cycles, an op for each
    std::vector<std::vector<std::string>> scripts;
    std::vector<std::string> cur(static_cast<std::size_t>(T));
    std::function<void(int, int)> rec = [&](int pos, int used) {
        if (pos == T) { scripts.push_back(cur); return; }
        cur[static_cast<std::size_t>(pos)] = ""; rec(pos + 1, used);
        if (used < K) for (auto &o : ops) { cur[static_cast<std::size_t>(pos)] = o; rec(pos + 1, used + 1); }
        cur[static_cast<std::size_t>(pos)] = "";
    };
    rec(0, 0);
    ctx.counters["scripts"] = scripts.size();
    for (char shape : std::string{"ltb"})
        for (auto &sc : scripts)
        {
            std::string stxt; int nops = 0;
            for (std::size_t i = 0; i < sc.size(); ++i) { stxt += (i ? ";" : "") + sc[i]; if (!sc[i].empty()) ++nops; }
            for (unsigned am = 0; am < (1u << T); ++am)
                for (unsigned bm = 0; bm < (1u << T); ++bm)
                {
                    // quick: scripts with two operations only against histories in which both producers tick at least once
                    if (!th && nops == 2 && (am == 0 || bm == 0)) continue;
                    if (!ctx.next_is_mine()) continue;
                    const std::string desc = std::string(1, shape) + "|" + std::to_string(am) + "," + std::to_string(bm) + "|" + stxt;
                    ++ctx.evaluations; ++ctx.traces;
                    ctx.count(std::string{"cases_"} + shape);
                    // non-trivial: an element ticks alone in a cycle after a subscription operation
                    bool seen_op = false, nt = false;
                    for (int c = 0; c < T; ++c) { if (!sc[static_cast<std::size_t>(c)].empty()) seen_op = true; else if (seen_op && (((am >> c) & 1u) != ((bm >> c) & 1u))) nt = true; }
                    if (nt) ctx.nontriv(desc);
                    if (auto v = run_case_impl(desc, &ctx))
                    {
                        auto v2 = run_case_impl(desc, nullptr);
                        if (!v2 || *v2 != *v) throw verif::HarnessError("case not reproducible: " + desc);
                        const auto p = v->find("): ");
                        ctx.violation(desc, *v, std::string(1, shape) + ": " + (p == std::string::npos ? v->substr(0, 60) : v->substr(p + 3, 60)));
                    }
                    else if (ctx.evaluations % 50021 == 1) ctx.sample("runs", desc);
                }
        }
}

VERIF_MAIN()
