// C17 — real-time loop: never runs early, never drops a wake-up, always stops.
// SCHED-X (vsched.h): the REAL real-time executor runs a scripted timer node (+ optional push source and sink) on a virtual
// wall clock. Threads: E (run()), optional producer P, optional stopper S. Timed waits expire only by explicit scheduler
// choices; slow nodes burn virtual time. Every schedule up to a preemption bound is executed and each execution's log is
// checked against the expectations recorded at each schedule() call.
#include "vpch.h"
#include "vcommon.h"
#include "vsched.h"
#include "vexplore.h"
#include <hgraph/lib/testing/runtime_support.h>
#include <hgraph/runtime/push_source_node.h>
#include <climits>
using namespace hgraph;

namespace
{
    constexpr long START_US = 1'700'000'000'000'000LL;

    struct Op { char kind; long arg; };                  // r<d> relative engine, a<d> absolute (start+d), w<d> wall alarm at wall+d, L<d> burn d us
    struct Expect { long t; bool wall; long made_in_cycle_time; std::string text; };
    struct World
    {
        // configuration
        std::vector<std::vector<Op>> scripts;            // [0] = start, [k] = k-th evaluation of the timer node
        int pushes{0};
        bool stopper{false};
        long end_us{1'000'000};
        long late_us{0};                                 // the wall clock at run() is this far past start_time
        bool stop_during_start{false};                   // the stopper may run as soon as the graph begins to start (not only after start)
        bool starting{false};
        int cascade{0};                                  // the first `cascade` evaluations re-schedule the node one smallest step ahead
        // log
        std::vector<long> cycles;                        // evaluation time of every root cycle (relative us)
        std::vector<long> cycle_wall;                    // wall clock at the start of that cycle
        std::vector<std::uint64_t> cycle_step;
        std::vector<long> timer_evals;                   // evaluation times of the timer node
        std::vector<Expect> expects;
        std::vector<std::pair<long, long>> delivered;    // (eval time, value)
        std::vector<std::pair<long, bool>> sent;         // (value, accepted)
        PushSourceSender sender;
        bool started{false};                             // graph start finished (sender may be empty when pushes == 0)
        bool run_returned{false};
        bool stop_requested{false};
        bool stop_from_node{false};
        std::function<void()> stop_engine;
        std::uint64_t stop_returned_step{0};
        bool stopping{false};
        long accepted{0};
        bool forced_expiry_with_pending{false};
        bool stop_slept_over{false};
        std::string error;
        int timer_eval_count{0};
    };
    World *W = nullptr;
    long rel(DateTime t) { return static_cast<long>(t.time_since_epoch().count()) - START_US; }
    DateTime at(long rel_us) { return DateTime{std::chrono::microseconds{START_US + rel_us}}; }

    void run_ops(const std::vector<Op> &ops, NodeScheduler &sched, EvaluationClockView &clock, bool in_start)
    {
        for (auto &op : ops)
        {
            const long now = rel(sched.now());
            const long wall = rel(clock.now());
            switch (op.kind)
            {
                case 'L': vs::burn_time(op.arg * 1000); break;
                case 'S': W->stop_requested = true; W->stop_from_node = true; W->stop_engine(); W->stop_returned_step = vs::S().steps; break;
                case 'r':
                {
                    if (op.arg > 0 || (in_start && op.arg == 0)) W->expects.push_back({now + op.arg, false, now, "r" + std::to_string(op.arg) + "@" + std::to_string(now)});
                    sched.schedule(TimeDelta{op.arg});
                    break;
                }
                case 'a':
                {
                    if (op.arg > now || (in_start && op.arg == now)) W->expects.push_back({op.arg, false, now, "a" + std::to_string(op.arg) + "@" + std::to_string(now)});
                    sched.schedule(at(op.arg));
                    break;
                }
                case 'w':
                {
                    // wall-clock alarm at wall + d. Already due (d <= 0): delivered on the next evaluatable cycle, max(now + MIN_TD, wall)
                    // (during start: max(now, wall)) — node_scheduler.h schedule(..., on_wall_clock)
                    const long ref = std::max(now, wall);
                    const long when = wall + op.arg;
                    long t;
                    if (in_start) t = when < ref ? ref : when;
                    else t = when <= ref ? std::max(now + 1, ref) : when;
                    W->expects.push_back({t, true, now, "w" + std::to_string(op.arg) + "@" + std::to_string(now) + "/wall" + std::to_string(wall)});
                    sched.schedule(at(when), std::nullopt, true);
                    break;
                }
                case 'v':
                {
                    // RELATIVE wall-clock alarm: d after max(evaluation time, wall clock) - when the graph lags, the wall clock is the later one
                    const long ref = std::max(now, wall);
                    const long when = ref + op.arg;
                    long t;
                    if (in_start) t = when < ref ? ref : when;
                    else t = when <= ref ? std::max(now + 1, ref) : when;
                    W->expects.push_back({t, true, now, "v" + std::to_string(op.arg) + "@" + std::to_string(now) + "/wall" + std::to_string(wall)});
                    sched.schedule(TimeDelta{op.arg}, std::nullopt, true);
                    break;
                }
                default: break;
            }
        }
    }

    struct TimerNode
    {
        static constexpr auto name = "c17_timer";
        static void start(NodeScheduler sched, EvaluationClockView clock) { if (!W->scripts.empty()) run_ops(W->scripts[0], sched, clock, true); }
        static void eval(NodeScheduler sched, EvaluationClockView clock, DateTime evaluation_time, Out<TS<Int>> out)
        {
            W->timer_evals.push_back(rel(evaluation_time));
            const int k = ++W->timer_eval_count;
            if (rel(clock.now()) < rel(evaluation_time) && W->error.empty())
                W->error = "timer node evaluated at logical time " + std::to_string(rel(evaluation_time)) + " while the wall clock was only at " + std::to_string(rel(clock.now())) + " (ran early)";
            out.set(Int{k});
            if (k < W->cascade) { run_ops({Op{'r', 1}}, sched, clock, false); return; }
            const std::size_t script_index = static_cast<std::size_t>(k - (W->cascade > 0 ? W->cascade - 1 : 0));
            if (script_index < W->scripts.size()) run_ops(W->scripts[script_index], sched, clock, false);
        }
    };
    struct PushSink
    {
        static constexpr auto name = "c17_push_sink";
        static void eval(In<"ts", TS<Int>> ts, DateTime evaluation_time) { W->delivered.emplace_back(rel(evaluation_time), static_cast<long>(ts.value())); }
    };
    struct TimerSink
    {
        static constexpr auto name = "c17_timer_sink";
        static void eval(In<"ts", TS<Int>> ts) { (void)ts; }
    };
    struct PushTag {};

    struct Observer final : LifecycleObserver
    {
        void on_before_start_graph(const GraphView &) override { W->starting = true; }
        void on_after_start_graph(const GraphView &) override { W->started = true; vs::burn_time(1000); /* starting takes at least MIN_TD of wall time */ }
        void on_before_graph_evaluation(const GraphView &g) override
        {
            W->cycles.push_back(rel(g.evaluation_time()));
            W->cycle_step.push_back(vs::S().steps);
            W->cycle_wall.push_back(static_cast<long>(vs::now_ns() / 1000) - START_US);
        }
        // a cycle takes at least the smallest time step of wall time (without this a burst of pushes inside one virtual microsecond
        // would legitimately push evaluation time ahead of a clock that never moves: evaluation_time >= previous + MIN_TD). The time
        // passes at the END of the cycle, so that nodes can observe a wall clock exactly equal to their evaluation time.
        void on_after_graph_evaluation(const GraphView &) override { vs::burn_time(1000); }
        void on_before_stop_graph(const GraphView &) override { W->stopping = true; }
    };

    using vs::ExecResult;

    ExecResult execute(const World &config, const std::vector<int> &prefix, std::vector<vs::ChoicePoint> &trace_out)
    {
        World world = config;
        W = &world;
        Wiring w{WiringKind::TopLevel, WiringOptions{.is_realtime = true}};
        if (world.pushes > 0)
        {
            const auto *ts_int = ts_type<TS<Int>>();
            Port<TS<Int>> pushed{w.add_unique_node(std::type_index(typeid(PushTag)),
                                                   make_push_source_node(*ts_int, make_push_source_queue_policy(*ts_int, 0), [](PushSourceSender s) { W->sender = std::move(s); }),
                                                   std::span<const WiringPortRef>{}, Value{})};
            wire<PushSink>(w, pushed);
        }
        auto t = wire<TimerNode>(w);
        wire<TimerSink>(w, t);
        GraphBuilder gb = std::move(w).finish();
        Observer observer;
        GraphExecutorBuilder eb;
        eb.graph_builder(std::move(gb)).mode(GraphExecutorMode::RealTime).start_time(at(0)).end_time(at(world.end_us)).max_wait_slice(TimeDelta{400'000}).add_lifecycle_observer(&observer);
        auto *executor = new GraphExecutorValue(eb.make_executor());

        world.stop_engine = [executor] { executor->view().request_stop(); };
        std::vector<std::function<void()>> bodies;
        bodies.push_back([&] {
            try { executor->view().run(); }
            catch (const std::exception &e) { if (world.error.empty()) world.error = std::string{"run() threw: "} + e.what(); }
            world.run_returned = true;
        });
        if (world.pushes > 0)
            bodies.push_back([&] {
                vs::gate([&] { return world.started || world.run_returned; });
                for (int i = 1; i <= world.pushes; ++i)
                {
                    const bool ok = world.sender.try_send(Int{i});
                    world.sent.emplace_back(i, ok);
                    if (ok) ++world.accepted;
                }
            });
        if (world.stopper)
            bodies.push_back([&] {
                vs::gate([&] { return (world.stop_during_start ? world.starting : world.started) || world.run_returned; });
                world.stop_requested = true;
                executor->view().request_stop();
                world.stop_returned_step = vs::S().steps;
            });
        vs::S().on_expiry = [&](bool forced) {
            if (forced && world.stop_returned_step != 0 && !world.stopping && !world.run_returned) world.stop_slept_over = true;
            if (forced && !world.stopping && !world.stop_requested && !world.run_returned && world.accepted > static_cast<long>(world.delivered.size()))
                world.forced_expiry_with_pending = true;
        };
        vs::S().spurious = true;   // spurious wake-ups of condition waiters are offered as deviations (cost 1)
        trace_out = vs::run_controlled(std::move(bodies), prefix, (START_US + world.late_us) * 1000);
        vs::S().on_expiry = nullptr;
        W = nullptr;
        auto &s = vs::S();
        if (!s.deadlock) delete executor;

        ExecResult r;
        std::ostringstream oc;
        oc << "c=";
        for (auto c : world.cycles) oc << c << ",";
        oc << " t=";
        for (auto c : world.timer_evals) oc << c << ",";
        oc << " d=";
        for (auto &[t2, v] : world.delivered) oc << v << "@" << t2 << ",";
        r.outcome = oc.str();
        if (s.failure.rfind("replay divergence", 0) == 0) throw verif::HarnessError(s.failure + " (the harness does not control some source of nondeterminism)");
        if (!s.failure.empty()) { r.violation = s.failure; return r; }
        if (!world.error.empty()) { r.violation = world.error; return r; }
        // ---- log checks ----------------------------------------------------------------------------------------------
        for (std::size_t i = 0; i < world.cycles.size(); ++i)
        {
            if (i && world.cycles[i] <= world.cycles[i - 1]) { r.violation = "evaluation time did not strictly increase (" + std::to_string(world.cycles[i - 1]) + " then " + std::to_string(world.cycles[i]) + ")"; return r; }
            if (world.cycle_wall[i] < world.cycles[i]) { r.violation = "cycle at logical time " + std::to_string(world.cycles[i]) + " began while the wall clock was at " + std::to_string(world.cycle_wall[i]) + " (ran early)"; return r; }
            if (world.cycles[i] >= world.end_us) { r.violation = "a cycle ran at " + std::to_string(world.cycles[i]) + ", at or past the end time " + std::to_string(world.end_us); return r; }
        }
        // every evaluation of the timer node answers an expectation (no invented wake-up)
        std::set<long> expected_times;
        for (auto &e : world.expects) expected_times.insert(e.t);
        for (long t : world.timer_evals)
            if (!expected_times.count(t)) { r.violation = "timer node evaluated at " + std::to_string(t) + " where nothing was scheduled"; return r; }
        // every expectation due before the end time is met, unless a stop request ended the run first
        std::set<long> evals(world.timer_evals.begin(), world.timer_evals.end());
        const long last_cycle = world.cycles.empty() ? LONG_MIN : world.cycles.back();
        for (auto &e : world.expects)
        {
            if (e.t >= world.end_us) continue;
            if (evals.count(e.t)) continue;
            if (world.stop_requested && e.t > last_cycle) continue;      // the run was stopped before the event became due
            r.violation = "wake-up " + e.text + " due at " + std::to_string(e.t) + " (before the end time " + std::to_string(world.end_us) + ") was dropped"; return r;
        }
        // pushes
        for (auto &[v, ok] : world.sent)
        {
            if (!ok && !world.stop_requested && !world.stopping && !world.run_returned) { /* refusal before stop on an unbounded queue is C16's subject; the send raced the end of the run */ }
        }
        std::set<long> seen;
        long last_v = 0;
        for (auto &[t2, v] : world.delivered)
        {
            if (!seen.insert(v).second) { r.violation = "pushed value " + std::to_string(v) + " was delivered twice"; return r; }
            if (v < last_v) { r.violation = "pushed values were delivered out of order"; return r; }
            last_v = v;
        }
        if (world.stop_slept_over) { r.violation = "request_stop() had returned but the evaluation loop slept on until its wait slice expired (missed stop)"; return r; }
        if (world.forced_expiry_with_pending) { r.violation = "a pushed value was pending while the loop slept until its wait slice expired (missed wake-up)"; return r; }
        bool end_reached = false;
        {
            // the run reached its end time if the virtual clock passed it
            end_reached = static_cast<long>(vs::now_ns() / 1000) - START_US >= world.end_us;
        }
        if (!world.stop_requested && !end_reached && world.accepted != static_cast<long>(world.delivered.size()))
        { r.violation = "an accepted pushed value was never delivered although the run neither stopped nor reached its end time"; return r; }
        if (!world.stop_requested && !end_reached && world.run_returned)
        { r.violation = "run() returned before the end time without a stop request"; return r; }
        // stop: at most the cycle in progress may still begin after request_stop() returned
        if (world.stop_requested && world.stop_returned_step != 0)
        {
            int after = 0;
            for (auto st : world.cycle_step) if (st > world.stop_returned_step) ++after;
            // requested by another thread: the cycle in progress may still be followed by the one whose stop check had already passed;
            // requested from inside a node (start hook or evaluation): the run ends after that cycle
            if (after > (world.stop_from_node ? 0 : 1)) { r.violation = std::to_string(after) + " cycles began after request_stop() had returned"; return r; }
        }
        return r;
    }

    // desc: tm=<start ops>|<eval1 ops>|...;push=<n>;stop=<0|1>;end=<us>;late=<us>;bound=<b>[;prefix=..]   ops: comma separated r<d> a<d> w<d> L<d>
    World parse_config(const std::string &desc, int &bound, std::vector<int> &prefix, bool &has_prefix)
    {
        World w;
        has_prefix = false;
        for (auto &f : vs::split(desc, ';'))
        {
            auto eq = f.find('=');
            if (eq == std::string::npos) continue;
            const std::string k = f.substr(0, eq), v = f.substr(eq + 1);
            if (k == "push") w.pushes = std::stoi(v);
            else if (k == "stop") w.stopper = v == "1";
            else if (k == "bound") bound = std::stoi(v);
            else if (k == "end") w.end_us = std::stol(v);
            else if (k == "late") w.late_us = std::stol(v);
            else if (k == "cas") w.cascade = std::stoi(v);
            else if (k == "sds") w.stop_during_start = v == "1";
            else if (k == "tm")
            {
                for (auto &part : vs::split(v, '|'))
                {
                    std::vector<Op> ops;
                    for (auto &t : vs::split(part, ',')) if (!t.empty()) ops.push_back({t[0], t.size() > 1 ? std::stol(t.substr(1)) : 0L});
                    w.scripts.push_back(ops);
                }
            }
            else if (k == "prefix") { has_prefix = true; for (auto &t : vs::split(v, ',')) if (!t.empty()) prefix.push_back(std::stoi(t)); }
        }
        return w;
    }
}  // namespace

void verif_init()
{
    stdlib::register_standard_operators();
    int b; std::vector<int> p; bool hp;
    std::vector<vs::ChoicePoint> trace;
    for (const char *d : {"tm=r100,w200|r50;push=2;stop=1;end=1000000;late=0", "tm=a10|L5;push=1;stop=0;end=1000;late=20"}) (void)execute(parse_config(d, b, p, hp), {}, trace);
}

std::optional<std::string> verif_run_case(verif::Ctx &, const std::string &desc)
{
    int bound = 2; std::vector<int> prefix; bool has_prefix = false;
    World w = parse_config(desc, bound, prefix, has_prefix);
    if (has_prefix) { std::vector<vs::ChoicePoint> trace; return execute(w, prefix, trace).violation; }
    vs::Explorer ex; ex.bound = bound;
    ex.exec = [&](const std::vector<int> &p, std::vector<vs::ChoicePoint> &t) { return execute(w, p, t); };
    ex.explore({});
    if (getenv("VERIF_STATS")) fprintf(stderr, "executions=%llu outcomes=%zu max_cp=%llu\n", (unsigned long long)ex.executions, ex.outcomes.size(), (unsigned long long)ex.max_choice_points);
    return ex.violation;
}

void verif_enumerate(verif::Ctx &ctx)
{
    const bool th = ctx.thorough();
    ctx.max_samples = 400;
    // timer programs: every list of 1..2 start operations from a small menu, optionally followed by one first-evaluation script
    const std::vector<std::string> start_menu = {"r0", "r100", "a300", "w200", "w0", "w-50", "v150", "r100,w100", "r100,a300", "w200,w-50", "a300,w200", "r100,r300", "r100,S"};
    const std::vector<std::string> eval_menu = {"", "r50", "w-10", "w0", "w80", "v60", "L500,r50", "L500,w20", "L500,v60", "L2000000", "L2000000,r50", "r1,L300", "r50,S"};
    std::vector<std::string> configs;
    for (auto &sm : start_menu)
        for (auto &em : eval_menu)
            for (int push : {0, 1, 2})
                for (int stop : {0, 1})
                    for (long late : {0L, 250L})
                        for (long end : {1'000'000L, 250L})
                        {
                            if (!th)
                            {
                                if (push == 2 && (stop == 1 || late != 0 || end != 1'000'000L)) continue;
                                if (late != 0 && end != 1'000'000L && push != 0) continue;
                            }
                            const int weight = push + stop;
                            const int bound = th ? (weight <= 1 ? 4 : weight == 2 ? 3 : 2) : (weight == 0 ? 3 : weight == 1 ? 2 : 1);
                            for (int sds = 0; sds <= stop; ++sds)   // with a stopper thread: it may also fire while the graph is still starting
                                configs.push_back("tm=" + sm + (em.empty() ? "" : "|" + em) + ";push=" + std::to_string(push) + ";stop=" + std::to_string(stop) + ";sds=" + std::to_string(sds) + ";end=" + std::to_string(end) + ";late=" + std::to_string(late) + ";bound=" + std::to_string(bound));
                        }
    // immediate cascades (the drain cut-off past end_time applies only while the run keeps re-scheduling itself every smallest step):
    // after N >= 1024 one-step cycles the last of which crosses end_time, a wake-up 5 ms later is still due before end_time and must be delivered
    for (int n : {1030, 1500})
        for (const char *tail : {"L2000000,r5000", "L2000000,w-5", "L2000000,r5000,w7000"})
            configs.push_back(std::string{"tm=r0|"} + tail + ";cas=" + std::to_string(n) + ";push=0;stop=0;end=1000000;late=0;bound=1");
    for (auto &desc : configs)
    {
        int b = 2; std::vector<int> prefix; bool hp = false;
        World w = parse_config(desc, b, prefix, hp);
        vs::explore_config(ctx, desc, b, th ? 30000000 : 3000000, [&](const std::vector<int> &p, std::vector<vs::ChoicePoint> &t) { return execute(w, p, t); });
    }
}

VERIF_MAIN()
