// C10 — map_ runs one isolated instance per key and mirrors the key set.
// A scripted TSD<Int,TS<Int>> writer (add / update / remove / re-add / bulk growth, several ops per cycle) feeds the real
// stdlib::map_ with each function of a vocabulary (stateless, stateful counter, key-consuming, late-valid, self-scheduling
// with a re-armable deadline, broadcast argument). Oracle = differential: for every life of every key (appearance ..
// removal) the SAME function is run ALONE on the real engine on that key's element stream; the map output stream for that
// key (value, tick times) must equal the alone run shifted to the appearance cycle, the output key set must be the keys
// whose child output is valid, removals are published, a re-added key starts fresh, and observer events show one child
// graph start per appearance and one stop per disappearance.
#include "tsshapes.h"
using namespace hgraph;
using namespace tsshapes;

namespace
{
    struct Run
    {
        std::vector<std::string> script;      // dict writer ops per cycle
        std::vector<std::string> bscript;     // broadcast TS writer ops per cycle ("" or "v<k>")
        int cycles{0};
        std::vector<Typed> map_out;           // typed mirror of the map output on every tick
        std::vector<std::pair<long, long>> alone_out;  // (t, value) of the alone run
    };
    Run *g = nullptr;

    struct DictWriter
    {
        static constexpr auto name = "c10_dict_writer";
        static constexpr bool schedule_on_start = true;
        static void eval(NodeScheduler sched, DateTime now, Out<DictI> out)
        {
            const long c = rel(now);
            if (c < g->cycles) { const std::string &ops = g->script[static_cast<std::size_t>(c)]; if (!ops.empty()) for (auto &op : split(ops, ',')) ShapeDictI::apply(out, op, now); }
            if (c + 1 < g->cycles) sched.schedule(MIN_TD);
        }
    };
    struct TsWriter  // id 0: alone element stream / id 1: broadcast stream ; both read g->bscript or alone script
    {
        static constexpr auto name = "c10_ts_writer";
        static constexpr bool schedule_on_start = true;
        static void eval(NodeScheduler sched, Scalar<"which", Int> which, DateTime now, Out<TS<Int>> out)
        {
            const long c = rel(now);
            const auto &sc = which.value() == 1 ? g->bscript : g->script;
            if (c < static_cast<long>(sc.size())) { const std::string &op = sc[static_cast<std::size_t>(c)]; if (!op.empty()) out.set(Int{std::stol(op.substr(1))}); }
            if (c + 1 < static_cast<long>(sc.size())) sched.schedule(MIN_TD);
        }
    };
    struct MapMirror
    {
        static constexpr auto name = "c10_map_mirror";
        static void eval(In<"x", DictI, InputActivity::Active, InputValidity::Unchecked> x, DateTime now)
        {
            Typed t = x.valid() ? ShapeDictI::read(x) : Typed{};
            t.t = rel(now);
            g->map_out.push_back(t);
        }
    };
    struct AloneProbe
    {
        static constexpr auto name = "c10_alone_probe";
        static void eval(In<"x", TS<Int>> x, DateTime now) { g->alone_out.emplace_back(rel(now), static_cast<long>(x.value())); }
    };

    // ---- mapped functions -----------------------------------------------------------------------------------------
    struct NStateless { static constexpr auto name = "c10_f_stateless"; static void eval(In<"ts", TS<Int>> ts, Out<TS<Int>> out) { out.set(ts.value() * 3 + 1); } };
    struct NCounter
    {
        static constexpr auto name = "c10_f_counter";
        static void start(State<Int> n) { n.set(Int{0}); }
        static void eval(In<"ts", TS<Int>> ts, State<Int> n, Out<TS<Int>> out) { n.set(n.get() + 1); out.set(n.get() * 1000 + ts.value()); }
    };
    struct NLate  // output becomes valid only on the second tick of its input
    {
        static constexpr auto name = "c10_f_late";
        static void start(State<Int> n) { n.set(Int{0}); }
        static void eval(In<"ts", TS<Int>> ts, State<Int> n, Out<TS<Int>> out) { n.set(n.get() + 1); if (n.get() >= 2) out.set(ts.value() + 7); }
    };
    struct NTimer  // debounce shape: every input re-arms ONE tagged deadline x steps ahead; when it fires the node emits x+500
    {
        static constexpr auto name = "c10_f_timer";
        static void eval(In<"ts", TS<Int>> ts, NodeScheduler sched, Out<TS<Int>> out)
        {
            if (ts.modified()) { out.set(ts.value()); sched.schedule(MIN_TD * ts.value(), std::string{"d"}); }
            else out.set(ts.value() + 500);
        }
    };
    struct NStartTimer  // resample shape: the element is read PASSIVELY; a timer armed in the start hook (+2, then every +3) publishes the latest value
    {
        static constexpr auto name = "c10_f_start_timer";
        static void start(NodeScheduler sched) { sched.schedule(MIN_TD * 2); }
        static void eval(In<"ts", TS<Int>, InputActivity::Passive, InputValidity::Unchecked> ts, NodeScheduler sched, Out<TS<Int>> out)
        {
            out.set(ts.valid() ? ts.value() + 900 : Int{900});
            sched.schedule(MIN_TD * 3);
        }
    };
    struct NKeyed { static constexpr auto name = "c10_f_keyed_node"; static void eval(In<"key", TS<Int>> key, In<"ts", TS<Int>> ts, Out<TS<Int>> out) { out.set(key.value() * 100 + ts.value()); } };
    struct NBcast { static constexpr auto name = "c10_f_bcast_node"; static void eval(In<"ts", TS<Int>> ts, In<"off", TS<Int>> off, Out<TS<Int>> out) { out.set(ts.value() * 10 + off.value()); } };

    struct DictWriter2   // second multiplexed dictionary: reads g->bscript as dictionary ops
    {
        static constexpr auto name = "c10_dict_writer2";
        static constexpr bool schedule_on_start = true;
        static void eval(NodeScheduler sched, DateTime now, Out<DictI> out)
        {
            const long c = rel(now);
            if (c < static_cast<long>(g->bscript.size())) { const std::string &ops = g->bscript[static_cast<std::size_t>(c)]; if (!ops.empty()) for (auto &op : split(ops, ',')) ShapeDictI::apply(out, op, now); }
            if (c + 1 < g->cycles) sched.schedule(MIN_TD);
        }
    };
    struct AloneWriter2   // alone-run element writer with an explicit "the element is gone" op ("i")
    {
        static constexpr auto name = "c10_alone_writer2";
        static constexpr bool schedule_on_start = true;
        static void eval(NodeScheduler sched, Scalar<"which", Int> which, DateTime now, Out<TS<Int>> out)
        {
            const long c = rel(now);
            const auto &sc = which.value() == 1 ? g->bscript : g->script;
            if (c < static_cast<long>(sc.size()) && !sc[static_cast<std::size_t>(c)].empty()) for (auto &op : split(sc[static_cast<std::size_t>(c)], ',')) ShapeTS::apply(out, op, now);
            if (c + 1 < static_cast<long>(std::max(g->script.size(), g->bscript.size()))) sched.schedule(MIN_TD);
        }
    };
    struct NPair { static constexpr auto name = "c10_f_pair_node"; static void eval(In<"a", TS<Int>> a, In<"b", TS<Int>> b, Out<TS<Int>> out) { out.set(a.value() * 1000 + b.value()); } };
    struct NPairCount
    {
        static constexpr auto name = "c10_f_pair_count_node";
        static void start(State<Int> n) { n.set(Int{0}); }
        static void eval(In<"a", TS<Int>> a, In<"b", TS<Int>> b, State<Int> n, Out<TS<Int>> out) { n.set(n.get() + 1); out.set(n.get() * 1000000 + a.value() * 1000 + b.value()); }
    };
    struct NPairTimer   // delayed echo: every input tick re-arms ONE tagged deadline (2 or 3 steps ahead); when it fires the node emits a*1000+b+500000
    {
        static constexpr auto name = "c10_f_pair_timer_node";
        static void eval(In<"a", TS<Int>> a, In<"b", TS<Int>> b, NodeScheduler sched, Out<TS<Int>> out)
        {
            if (a.modified() || b.modified()) sched.schedule(MIN_TD * (2 + a.value() % 2), std::string{"d"});
            else out.set(Int{a.value() * 1000 + b.value() + 500000});
        }
    };
    struct FPairTimer { static constexpr auto name = "c10_g_pair_timer"; static Port<TS<Int>> compose(Wiring &w, Port<TS<Int>> a, Port<TS<Int>> b) { return wire<NPairTimer>(w, a, b); } };
    struct FPair { static constexpr auto name = "c10_g_pair"; static Port<TS<Int>> compose(Wiring &w, Port<TS<Int>> a, Port<TS<Int>> b) { return wire<NPair>(w, a, b); } };
    struct FPairCount { static constexpr auto name = "c10_g_pair_count"; static Port<TS<Int>> compose(Wiring &w, Port<TS<Int>> a, Port<TS<Int>> b) { return wire<NPairCount>(w, a, b); } };

    struct FStateless { static constexpr auto name = "c10_g_stateless"; static Port<TS<Int>> compose(Wiring &w, Port<TS<Int>> ts) { return wire<NStateless>(w, ts); } };
    struct FCounter { static constexpr auto name = "c10_g_counter"; static Port<TS<Int>> compose(Wiring &w, Port<TS<Int>> ts) { return wire<NCounter>(w, ts); } };
    struct FLate { static constexpr auto name = "c10_g_late"; static Port<TS<Int>> compose(Wiring &w, Port<TS<Int>> ts) { return wire<NLate>(w, ts); } };
    struct FStartTimer { static constexpr auto name = "c10_g_start_timer"; static Port<TS<Int>> compose(Wiring &w, Port<TS<Int>> ts) { return wire<NStartTimer>(w, ts); } };
    struct FTimer { static constexpr auto name = "c10_g_timer"; static Port<TS<Int>> compose(Wiring &w, Port<TS<Int>> ts) { return wire<NTimer>(w, ts); } };
    struct FKeyed { static constexpr auto name = "c10_g_keyed"; static Port<TS<Int>> compose(Wiring &w, NamedPort<"key", TS<Int>> key, Port<TS<Int>> ts) { return wire<NKeyed>(w, key, ts); } };
    struct FBcast { static constexpr auto name = "c10_g_bcast"; static Port<TS<Int>> compose(Wiring &w, Port<TS<Int>> ts, Port<TS<Int>> off) { return wire<NBcast>(w, ts, off); } };
    // the element and the broadcast argument are consumed by DIFFERENT nodes of the child (each boundary input has its own consumer to be sampled at start)
    struct NDouble { static constexpr auto name = "c10_f_double"; static void eval(In<"ts", TS<Int>> ts, Out<TS<Int>> out) { out.set(ts.value() * 2); } };
    struct NTriple { static constexpr auto name = "c10_f_triple"; static void eval(In<"ts", TS<Int>> ts, Out<TS<Int>> out) { out.set(ts.value() * 3); } };
    struct FSplit { static constexpr auto name = "c10_g_split"; static Port<TS<Int>> compose(Wiring &w, Port<TS<Int>> ts, Port<TS<Int>> off) { return wire<NPair>(w, wire<NDouble>(w, ts), wire<NTriple>(w, off)); } };
    struct FChain { static constexpr auto name = "c10_g_chain"; static Port<TS<Int>> compose(Wiring &w, Port<TS<Int>> ts) { return wire<NCounter>(w, wire<NStateless>(w, ts)); } };

    struct ChildObs : LifecycleObserver
    {
        long starts{0}, stops{0};
        void on_after_start_graph(const GraphView &gv) override { if (gv.is_nested()) ++starts; }
        void on_after_stop_graph(const GraphView &gv) override { if (gv.is_nested()) ++stops; }
    };

    template <typename F>
    Port<TS<Int>> wire_alone(Wiring &w, char fn_id, long key)
    {
        auto ts = wire<TsWriter>(w, Int{0});
        if constexpr (std::is_same_v<F, FKeyed>) return wire<NKeyed>(w, wire<stdlib::const_, TS<Int>>(w, Int{key}), ts);
        else if constexpr (std::is_same_v<F, FBcast>) return wire<NBcast>(w, ts, wire<TsWriter>(w, Int{1}));
        else if constexpr (std::is_same_v<F, FSplit>) return wire<F>(w, ts, wire<TsWriter>(w, Int{1}));
        else return wire<F>(w, ts);
        (void)fn_id;
    }

    struct Outcome { std::optional<std::string> violation; std::string sig; bool nontrivial{false}; std::uint64_t ticks{0}; };

    /** Run function F alone on one key life. script = element writes relative to the appearance cycle; returns (t, value) ticks with t < horizon. */
    template <typename F>
    std::vector<std::pair<long, long>> run_alone(const std::vector<std::string> &elem_script, const std::vector<std::string> &bcast_script, long key, long horizon)
    {
        Run run;
        run.script = elem_script;
        run.bscript = bcast_script;
        run.cycles = static_cast<int>(elem_script.size());
        Run *saved = g;
        g = &run;
        try
        {
            Wiring w;
            auto o = wire_alone<F>(w, 0, key);
            wire<AloneProbe>(w, o);
            GraphBuilder gb = std::move(w).finish();
            GraphExecutorBuilder eb;
            eb.graph_builder(std::move(gb)).start_time(MIN_ST).end_time(MIN_ST + TimeDelta{horizon});
            auto ex = eb.make_executor();
            ex.view().run();
        }
        catch (...) { g = saved; throw; }
        g = saved;
        return run.alone_out;
    }

    template <typename F>
    Outcome run_fn(const std::vector<std::string> &script, const std::vector<std::string> &bscript)
    {
        Outcome out;
        Run run;
        run.script = script; run.bscript = bscript; run.cycles = static_cast<int>(script.size());
        const long end = run.cycles + 8;
        ChildObs obs;
        std::string exc;
        g = &run;
        try
        {
            Wiring w;
            auto d = wire<DictWriter>(w);
            Port<DictI> m;
            if constexpr (std::is_same_v<F, FBcast> || std::is_same_v<F, FSplit>) m = wire<stdlib::map_>(w, fn<F>(), d, wire<TsWriter>(w, Int{1})).template as<DictI>();
            else m = wire<stdlib::map_>(w, fn<F>(), d).template as<DictI>();
            wire<MapMirror>(w, m);
            GraphBuilder gb = std::move(w).finish();
            GraphExecutorBuilder eb;
            eb.graph_builder(std::move(gb)).start_time(MIN_ST).end_time(MIN_ST + TimeDelta{end}).add_lifecycle_observer(&obs);
            auto ex = eb.make_executor();
            ex.view().run();
        }
        catch (const std::exception &e) { exc = e.what(); }
        g = nullptr;
        if (!exc.empty()) { out.violation = "run threw: " + exc; return out; }

        // ---- reference input history (net per cycle), key lives -------------------------------------------------------
        struct Life { long key; long start; long stop; std::vector<std::string> elem; };  // stop = removal cycle (or end)
        std::map<long, long> cur;             // live key -> value
        std::map<long, Life> open;
        std::vector<Life> lives;
        for (long c = 0; c < run.cycles; ++c)
        {
            std::map<long, long> before = cur;
            std::set<long> written;           // keys set in this cycle and still present at its end
            const std::string &ops = script[static_cast<std::size_t>(c)];
            std::set<long> erased_this_cycle;
            if (!ops.empty())
                for (auto &op : split(ops, ','))
                {
                    if (op[0] == 's') { auto eq = op.find('='); const long k = std::stol(op.substr(1, eq - 1)); cur[k] = std::stol(op.substr(eq + 1)); written.insert(k); }
                    else if (op[0] == 'e') { const long k = std::stol(op.substr(1)); if (cur.erase(k)) erased_this_cycle.insert(k); written.erase(k); }
                    else if (op[0] == 'c') { for (auto &[k, v] : cur) erased_this_cycle.insert(k); cur.clear(); written.clear(); }
                    else if (op[0] == 'B') for (long k = 4; k <= 12; ++k) { cur[k] = k * 10; written.insert(k); }
                }
            // A key erased and re-added within one cycle is the same element (see C05): its child instance continues.
            for (auto &[k, v] : before)
                if (!cur.count(k)) { Life l = open[k]; l.stop = c; lives.push_back(l); open.erase(k); }
            for (auto &[k, v] : cur)
            {
                if (!before.count(k)) { Life l; l.key = k; l.start = c; l.stop = end; open[k] = l; }
                Life &l = open[k];
                while (static_cast<long>(l.elem.size()) < c - l.start) l.elem.push_back("");
                l.elem.push_back(written.count(k) ? "v" + std::to_string(v) : std::string{});
            }
        }
        for (auto &[k, l] : open) lives.push_back(l);
        // ---- expected map output from alone runs ------------------------------------------------------------------------
        std::map<long, std::map<long, long>> exp_mod;   // cycle -> key -> value
        std::map<long, std::set<long>> exp_added, exp_removed;
        std::uint64_t timer_fires = 0;
        for (auto &l : lives)
        {
            std::vector<std::string> bs;
            for (long c = l.start; c < static_cast<long>(bscript.size()); ++c) bs.push_back(bscript[static_cast<std::size_t>(c)]);
            // the broadcast input holds its latest earlier value when the child starts: replay it at the child's first cycle
            if (std::is_same_v<F, FBcast> || std::is_same_v<F, FSplit>)
            {
                std::string held;
                for (long c = 0; c < l.start && c < static_cast<long>(bscript.size()); ++c) if (!bscript[static_cast<std::size_t>(c)].empty()) held = bscript[static_cast<std::size_t>(c)];
                if (bs.empty()) bs.push_back("");
                if (bs[0].empty()) bs[0] = held;
            }
            const long horizon = std::min(l.stop, end) - l.start;
            auto ticks = run_alone<F>(l.elem, bs, l.key, horizon);
            bool first = true;
            for (auto &[t, v] : ticks)
            {
                exp_mod[l.start + t][l.key] = v;
                if (first) { exp_added[l.start + t].insert(l.key); first = false; }
                if (t >= static_cast<long>(l.elem.size()) || l.elem[static_cast<std::size_t>(t)].empty()) ++timer_fires;
            }
            if (!first && l.stop < end) exp_removed[l.stop].insert(l.key);
        }
        // ---- compare -----------------------------------------------------------------------------------------------------
        std::map<long, const Typed *> got_at;
        for (auto &t : run.map_out) got_at[t.t] = &t;
        std::map<long, long> value;
        std::ostringstream sig;
        for (long c = 0; c < end; ++c)
        {
            const bool expect_tick = exp_mod.count(c) || exp_removed.count(c);
            std::map<long, long> prev = value;
            for (long k : exp_removed[c]) value.erase(k);
            if (exp_mod.count(c)) for (auto &[k, v] : exp_mod[c]) value[k] = v;
            auto fmt_map = [](const std::map<long, long> &m) { std::vector<std::string> v; for (auto &[k, x] : m) v.push_back(std::to_string(k) + "=" + std::to_string(x)); return "{" + sorted_join(v) + "}"; };
            auto fmt_keys = [](const std::set<long> &s) { std::vector<std::string> v; for (long k : s) v.push_back(std::to_string(k)); return "{" + sorted_join(v) + "}"; };
            if (!got_at.count(c))
            {
                if (expect_tick && !out.violation)
                    out.violation = "map output did not tick in cycle " + std::to_string(c) + " but the per-key alone runs produce modified=" + fmt_map(exp_mod[c]) + " removed=" + fmt_keys(exp_removed[c]);
                continue;
            }
            const Typed &t = *got_at[c];
            ++out.ticks;
            sig << c << ":" << t.value << ";";
            if (out.violation) continue;
            std::set<long> added = exp_added[c], removed = exp_removed[c];
            // a key removed and re-added in one cycle with a fresh life: both cancel in the key-set delta only if the output stayed valid; lives are distinct here so both show
            std::map<long, long> removed_with_value;
            for (long k : removed) removed_with_value[k] = prev.count(k) ? prev[k] : 0;
            const std::string want_value = fmt_map(value), want_mod = fmt_map(exp_mod.count(c) ? exp_mod[c] : std::map<long, long>{}), want_added = fmt_keys(added);
            if (t.value != want_value) out.violation = "map output value in cycle " + std::to_string(c) + " is " + t.value + " but the per-key alone runs give " + want_value;
            else if (t.modified != want_mod) out.violation = "map output modified items in cycle " + std::to_string(c) + " are " + t.modified + " but the per-key alone runs give " + want_mod;
            else if (t.added != want_added) out.violation = "map output added keys in cycle " + std::to_string(c) + " are " + t.added + " expected " + want_added;
            else
            {
                // removed: compare keys only (the removed element's value is C05's subject)
                std::set<long> got_removed;
                std::string r = t.removed;  // "{k=v,k=v}"
                std::string cur_tok;
                for (char ch : r) { if (ch == '{' || ch == '}') continue; if (ch == ',') { if (!cur_tok.empty()) got_removed.insert(std::stol(cur_tok.substr(0, cur_tok.find('=')))); cur_tok.clear(); } else cur_tok += ch; }
                if (!cur_tok.empty()) got_removed.insert(std::stol(cur_tok.substr(0, cur_tok.find('='))));
                if (got_removed != removed) out.violation = "map output removed keys in cycle " + std::to_string(c) + " are " + fmt_keys(got_removed) + " expected " + fmt_keys(removed);
            }
        }
        if (!out.violation)
        {
            // one child graph per key life, each stopped exactly once (at removal or when the run ends)
            if (obs.starts != static_cast<long>(lives.size()) || obs.stops != obs.starts)
                out.violation = "child graph lifecycle: " + std::to_string(obs.starts) + " starts / " + std::to_string(obs.stops) + " stops for " + std::to_string(lives.size()) + " key lives";
        }
        out.sig = sig.str();
        out.nontrivial = lives.size() >= 2 && (timer_fires > 0 || lives.size() >= 3);
        return out;
    }

    // ---- two multiplexed dictionaries with differing key sets -----------------------------------------------------------------
    // A child exists for every key of the UNION; each of its two inputs is the key's element of one dictionary, absent while the
    // key is not in that dictionary. Alone run: two element writers, "i" (invalidate) where the element goes away.
    template <typename F>
    Outcome run_two(const std::vector<std::string> &script1, const std::vector<std::string> &script2)
    {
        Outcome out;
        Run run; run.script = script1; run.bscript = script2; run.cycles = static_cast<int>(script1.size());
        const long end = run.cycles + 4;
        ChildObs obs;
        std::string exc;
        g = &run;
        try
        {
            Wiring w;
            auto d1 = wire<DictWriter>(w);
            auto d2 = wire<DictWriter2>(w);
            Port<DictI> m = wire<stdlib::map_>(w, fn<F>(), d1, d2).template as<DictI>();
            wire<MapMirror>(w, m);
            GraphBuilder gb = std::move(w).finish();
            GraphExecutorBuilder eb;
            eb.graph_builder(std::move(gb)).start_time(MIN_ST).end_time(MIN_ST + TimeDelta{end}).add_lifecycle_observer(&obs);
            auto ex = eb.make_executor();
            ex.view().run();
        }
        catch (const std::exception &e) { exc = e.what(); }
        g = nullptr;
        if (!exc.empty()) { out.violation = "run threw: " + exc; return out; }
        // per-dictionary histories -> per-key union lives with two element scripts
        struct Life2 { long key; long start; long stop; std::vector<std::string> e[2]; bool dontcare{false}; };
        std::map<long, long> cur[2];
        std::map<long, Life2> open;
        std::vector<Life2> lives;
        for (long c = 0; c < run.cycles; ++c)
        {
            std::map<long, long> before[2] = {cur[0], cur[1]};
            std::set<long> written[2];
            for (int j = 0; j < 2; ++j)
            {
                const std::string &ops = (j == 0 ? script1 : script2)[static_cast<std::size_t>(c)];
                if (ops.empty()) continue;
                for (auto &op : split(ops, ','))
                {
                    if (op[0] == 's') { auto eq = op.find('='); const long k = std::stol(op.substr(1, eq - 1)); cur[j][k] = std::stol(op.substr(eq + 1)); written[j].insert(k); }
                    else if (op[0] == 'e') { const long k = std::stol(op.substr(1)); cur[j].erase(k); written[j].erase(k); }
                }
            }
            std::set<long> all_before, all_now;
            for (int j = 0; j < 2; ++j) { for (auto &[k, v] : before[j]) all_before.insert(k); for (auto &[k, v] : cur[j]) all_now.insert(k); }
            for (long k : all_before) if (!all_now.count(k)) { Life2 l = open[k]; l.stop = c; lives.push_back(l); open.erase(k); }
            for (long k : all_now)
            {
                if (!all_before.count(k)) { Life2 l; l.key = k; l.start = c; l.stop = end; open[k] = l; }
                Life2 &l = open[k];
                for (int j = 0; j < 2; ++j)
                {
                    while (static_cast<long>(l.e[j].size()) < c - l.start) l.e[j].push_back("");
                    std::string op;
                    if (cur[j].count(k)) { if (written[j].count(k) || !before[j].count(k)) op = "v" + std::to_string(cur[j][k]); }
                    else if (before[j].count(k)) { op = "i"; l.dontcare = true; }   // the element went away while the child lives on
                    l.e[j].push_back(op);
                }
            }
        }
        for (auto &[k, l] : open) lives.push_back(l);
        // expected per key life from the alone runs. Whether the child still sees an element in the very cycle in which it leaves one
        // dictionary (while the other keeps the key alive) is not stated: model A makes that input invalid from the leaving cycle, model B
        // from the next cycle; a life must match one of them.
        auto run_alone2 = [&](const Life2 &l, bool late_invalidate) {
            Run r; r.script = l.e[0]; r.bscript = l.e[1];
            if (late_invalidate)
                for (auto *sc : {&r.script, &r.bscript})
                    for (std::size_t i = sc->size(); i-- > 0;)
                        if ((*sc)[i] == "i") { (*sc)[i].clear(); if (i + 1 >= sc->size()) sc->push_back(""); (*sc)[i + 1] = (*sc)[i + 1].empty() ? std::string{"i"} : "i," + (*sc)[i + 1]; }
            r.cycles = static_cast<int>(std::max(r.script.size(), r.bscript.size()));
            Run *saved = g; g = &r;
            try
            {
                Wiring w;
                auto a = wire<AloneWriter2>(w, Int{0});
                auto b2 = wire<AloneWriter2>(w, Int{1});
                wire<AloneProbe>(w, wire<F>(w, a, b2));
                GraphBuilder gb = std::move(w).finish();
                GraphExecutorBuilder eb;
                eb.graph_builder(std::move(gb)).start_time(MIN_ST).end_time(MIN_ST + TimeDelta{std::min(l.stop, end) - l.start});
                auto ex = eb.make_executor();
                ex.view().run();
            }
            catch (...) { g = saved; throw; }
            g = saved;
            std::map<long, long> ticks;
            for (auto &[t, v] : r.alone_out) ticks[l.start + t] = v;
            return ticks;
        };
        // observed per-key ticks and presence
        std::map<long, std::map<long, long>> seen;      // key -> cycle -> value (from the modified items of every map tick)
        std::map<long, std::set<long>> present;         // cycle -> keys in the value
        std::ostringstream sig;
        auto parse_map = [](const std::string &text) { std::map<long, long> m; std::string cur; for (char ch : text) { if (ch == '{' || ch == '}' || ch == ' ') continue; if (ch == ',') { if (!cur.empty()) m[std::stol(cur.substr(0, cur.find('=')))] = std::stol(cur.substr(cur.find('=') + 1)); cur.clear(); } else cur += ch; } if (!cur.empty()) m[std::stol(cur.substr(0, cur.find('=')))] = std::stol(cur.substr(cur.find('=') + 1)); return m; };
        std::map<long, long> last_value;
        {
            std::map<long, const Typed *> got_at;
            for (auto &t : run.map_out) got_at[t.t] = &t;
            std::map<long, long> value;
            for (long c = 0; c < end; ++c)
            {
                if (got_at.count(c))
                {
                    ++out.ticks; sig << c << ":" << got_at[c]->value << ";";
                    for (auto &[k, v] : parse_map(got_at[c]->modified)) seen[k][c] = v;
                    value = parse_map(got_at[c]->value);
                }
                for (auto &[k, v] : value) present[c].insert(k);
            }
        }
        auto show_ticks = [](const std::map<long, long> &m) { std::string o; for (auto &[c, v] : m) o += " t" + std::to_string(c) + "=" + std::to_string(v); return o.empty() ? std::string{" (none)"} : o; };
        std::set<long> covered_keys;
        for (auto &l : lives)
        {
            if (out.violation) break;
            covered_keys.insert(l.key);
            std::map<long, long> got;
            if (seen.count(l.key)) for (auto &[c, v] : seen[l.key]) if (c >= l.start && c < l.stop) got[c] = v;
            const auto want_a = run_alone2(l, false);
            const auto want_b = l.dontcare ? run_alone2(l, true) : want_a;
            if (got != want_a && got != want_b)
            {
                out.violation = "key " + std::to_string(l.key) + " (life from cycle " + std::to_string(l.start) + "): the two-dictionary map produced" + show_ticks(got) + " but the function alone on the key's two element streams gives" + show_ticks(want_a) + (l.dontcare ? " (or" + show_ticks(want_b) + ")" : std::string{});
                break;
            }
            // the key is in the output exactly from its first output tick until the life ends
            if (!got.empty())
            {
                const long first = got.begin()->first;
                for (long c = first; c < std::min(l.stop, end); ++c) if (!present[c].count(l.key)) { out.violation = "key " + std::to_string(l.key) + " is missing from the map output in cycle " + std::to_string(c); break; }
            }
            if (!out.violation && l.stop < end && present[l.stop].count(l.key))
            {
                bool reborn = false;
                for (auto &l2 : lives) if (l2.key == l.key && l2.start == l.stop) reborn = true;
                if (!reborn) out.violation = "key " + std::to_string(l.key) + " is still in the map output in cycle " + std::to_string(l.stop) + " after it left both dictionaries";
            }
        }
        if (!out.violation) for (auto &[k, m] : seen) if (!covered_keys.count(k)) { out.violation = "the map produced output for key " + std::to_string(k) + " which is in neither dictionary"; break; }
        if (!out.violation && (obs.starts != static_cast<long>(lives.size()) || obs.stops != obs.starts))
            out.violation = "child graph lifecycle: " + std::to_string(obs.starts) + " starts / " + std::to_string(obs.stops) + " stops for " + std::to_string(lives.size()) + " union-key lives";
        out.sig = sig.str();
        out.nontrivial = lives.size() >= 2;
        return out;
    }

    Outcome run_desc(const std::string &desc)
    {
        if (desc.rfind("two|", 0) == 0 || desc.rfind("twocount|", 0) == 0 || desc.rfind("twotimer|", 0) == 0)
        {
            auto parts = split(desc, '|');
            if (parts[0] == "twotimer") return run_two<FPairTimer>(split(parts.at(1), ';'), split(parts.at(2), ';'));
            return parts[0] == "two" ? run_two<FPair>(split(parts.at(1), ';'), split(parts.at(2), ';')) : run_two<FPairCount>(split(parts.at(1), ';'), split(parts.at(2), ';'));
        }
        auto parts = split(desc, '|');
        const std::string f = parts.at(0);
        std::vector<std::string> script = split(parts.at(1), ';');
        std::vector<std::string> bscript = parts.size() > 2 ? split(parts[2], ';') : std::vector<std::string>{};
        if (f == "stateless") return run_fn<FStateless>(script, bscript);
        if (f == "counter") return run_fn<FCounter>(script, bscript);
        if (f == "late") return run_fn<FLate>(script, bscript);
        if (f == "timer") return run_fn<FTimer>(script, bscript);
        if (f == "starttimer") return run_fn<FStartTimer>(script, bscript);
        if (f == "keyed") return run_fn<FKeyed>(script, bscript);
        if (f == "bcast") return run_fn<FBcast>(script, bscript);
        if (f == "split") return run_fn<FSplit>(script, bscript);
        if (f == "chain") return run_fn<FChain>(script, bscript);
        throw verif::HarnessError("unknown function " + f);
    }

    void gen_lists(const std::vector<std::string> &alphabet, int max_len, std::vector<std::string> &out)
    {
        out.push_back("");
        std::vector<std::string> prev = {""};
        for (int l = 1; l <= max_len; ++l)
        {
            std::vector<std::string> next;
            for (auto &p : prev) for (auto &a : alphabet) next.push_back(p.empty() ? a : p + "," + a);
            for (auto &n : next) out.push_back(n);
            prev.swap(next);
        }
    }
}  // namespace

void verif_init() { stdlib::register_standard_operators(); }
std::optional<std::string> verif_run_case(verif::Ctx &, const std::string &desc) { return run_desc(desc).violation; }

void verif_enumerate(verif::Ctx &ctx)
{
    const bool th = ctx.thorough();
    struct Space { std::string fn; std::vector<std::string> alphabet; int max_len; int cycles; std::vector<std::string> balphabet; };
    std::vector<Space> spaces = {
        {"stateless", {"s1=5", "s1=6", "s2=5", "e1", "e2", "c", "B"}, 2, th ? 4 : 3, {}},
        {"counter", {"s1=5", "s1=6", "s2=5", "e1", "e2", "c", "B"}, 2, th ? 4 : 3, {}},
        {"keyed", {"s1=5", "s1=6", "s2=5", "e1", "e2"}, 2, th ? 4 : 3, {}},
        {"late", {"s1=5", "s1=6", "s2=5", "e1", "e2"}, 2, th ? 4 : 3, {}},
        {"chain", {"s1=5", "s1=6", "s2=5", "e1", "e2"}, 2, th ? 4 : 3, {}},
        // self-scheduling children: deadlines 2..4 steps ahead, re-armed by later inputs, keys removed while deadlines are pending
        {"timer", {"s1=2", "s1=3", "s2=2", "s2=4", "s3=3", "e1", "e2"}, 1, th ? 6 : 5, {}},
        {"starttimer", {"s1=2", "s1=3", "s2=2", "s3=3", "e1", "e2"}, 1, th ? 6 : 5, {}},   // a child that is NOT due when it is created and lives on the timer it armed in start()
        {"timer", {"s1=2", "s2=3", "s3=4", "s2=2", "e1", "e2", "e3"}, 2, th ? 4 : 3, {}},
        {"bcast", {"s1=5", "s2=6", "e1", "s1=7"}, 1, th ? 5 : 4, {"", "v1", "v2"}},
        {"split", {"s1=5", "s2=6", "e1", "s1=7"}, 1, th ? 6 : 5, {"", "v1", "v2"}},   // broadcast may become valid AFTER the first key exists (each key samples for itself)
    };
    // two multiplexed dictionaries: every pair of per-dictionary histories
    {
        const std::vector<std::string> alpha = {"s1=5", "s1=6", "s2=7", "e1", "e2"};
        std::vector<std::string> lists;
        gen_lists(alpha, 1, lists);
        if (th) { lists.push_back("s1=5,s2=7"); lists.push_back("e1,e2"); lists.push_back("e1,s1=6"); }
        const int T = 3;
        std::vector<std::string> hist;
        std::vector<int> idx(static_cast<std::size_t>(T), 0);
        while (true)
        {
            std::string b;
            for (int c = 0; c < T; ++c) b += (c ? ";" : "") + lists[static_cast<std::size_t>(idx[static_cast<std::size_t>(c)])];
            hist.push_back(b);
            int p = 0;
            while (p < T && ++idx[static_cast<std::size_t>(p)] == static_cast<int>(lists.size())) { idx[static_cast<std::size_t>(p)] = 0; ++p; }
            if (p == T) break;
        }
        for (const char *fnname : {"two", "twocount", "twotimer"})
            for (auto &h1 : hist) for (auto &h2 : hist)
            {
                if (!ctx.next_is_mine()) continue;
                const std::string desc = std::string{fnname} + "|" + h1 + "|" + h2;
                ++ctx.evaluations; ++ctx.traces;
                Outcome o = run_desc(desc);
                ctx.transitions += o.ticks;
                ctx.state(std::string{fnname} + "#" + o.sig);
                if (o.nontrivial) ctx.nontriv(desc);
                ctx.count(std::string{"cases_"} + fnname);
                if (o.violation)
                {
                    Outcome o2 = run_desc(desc);
                    if (!o2.violation || *o2.violation != *o.violation) throw verif::HarnessError("case not reproducible: " + desc);
                    ctx.violation(desc, *o.violation, std::string{fnname} + ": " + o.violation->substr(0, 44));
                }
            }
    }
    for (auto &sp : spaces)
    {
        std::vector<std::string> lists;
        gen_lists(sp.alphabet, sp.max_len, lists);
        std::vector<std::string> bscripts = {""};
        if (!sp.balphabet.empty())
        {
            bscripts.clear();
            std::vector<int> bi(static_cast<std::size_t>(sp.cycles), 0);
            while (true)
            {
                std::string b;
                for (int c = 0; c < sp.cycles; ++c) b += (c ? ";" : "") + sp.balphabet[static_cast<std::size_t>(bi[static_cast<std::size_t>(c)])];
                if (b.rfind("v", 0) == 0 || sp.fn == "split") bscripts.push_back(b);  // the broadcast input is valid from cycle 0 (an invalid broadcast gates every child; C03's subject)
                int p = 0;
                while (p < sp.cycles && ++bi[static_cast<std::size_t>(p)] == static_cast<int>(sp.balphabet.size())) { bi[static_cast<std::size_t>(p)] = 0; ++p; }
                if (p == sp.cycles) break;
            }
        }
        std::vector<int> idx(static_cast<std::size_t>(sp.cycles), 0);
        while (true)
        {
            std::string body;
            for (int c = 0; c < sp.cycles; ++c) body += (c ? ";" : "") + lists[static_cast<std::size_t>(idx[static_cast<std::size_t>(c)])];
            for (auto &bs : bscripts)
            {
                if (!ctx.next_is_mine()) continue;
                std::string desc = sp.fn + "|" + body + (sp.balphabet.empty() ? std::string{} : "|" + bs);
                ++ctx.evaluations; ++ctx.traces;
                Outcome o = run_desc(desc);
                ctx.transitions += o.ticks;
                ctx.state(sp.fn + "#" + o.sig);
                if (o.nontrivial) ctx.nontriv(desc);
                ctx.count("cases_" + sp.fn);
                if (o.violation)
                {
                    Outcome o2 = run_desc(desc);
                    if (!o2.violation || *o2.violation != *o.violation) throw verif::HarnessError("case not reproducible: " + desc);
                    ctx.violation(desc, *o.violation, sp.fn + ": " + o.violation->substr(0, 44));
                }
                else if (ctx.evaluations % 9973 == 1) ctx.sample("cases", desc);
            }
            int p = 0;
            while (p < sp.cycles && ++idx[static_cast<std::size_t>(p)] == static_cast<int>(lists.size())) { idx[static_cast<std::size_t>(p)] = 0; ++p; }
            if (p == sp.cycles) break;
        }
    }
}

VERIF_MAIN()
