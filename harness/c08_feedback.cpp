// C08 — feedback delivers each value exactly one smallest time step later.
// Differential oracle: a probe on the writer port (PW) and a probe on the feedback reader port (PR) log every tick as
// (time, canonical delta, value); PR must equal PW shifted by exactly one step (prefixed by the declared initial value at
// the start time), for TS / TSS / TSD shapes, open loops, self loops (active within a window, passive => quiescent),
// two loops ticking together, a mutual loop, a reference-selected collection writer, and loops inside nested_.
#include "vpch.h"
#include "vcommon.h"
using namespace hgraph;

namespace
{
    long rel(DateTime t) { return static_cast<long>((t - MIN_ST).count()); }

    struct Tick { long t; std::string delta; std::string value; bool operator==(const Tick &o) const { return t == o.t && delta == o.delta && value == o.value; } };
    struct AddRead { long t; long ts; bool fb_valid; long fb; long out; };
    struct Run
    {
        std::map<int, std::vector<Tick>> probes;  // probe id -> ticks
        std::vector<AddRead> adds[4];
        std::vector<long> cycles;
        // scripts: per writer id, per cycle a list of ops
        std::map<int, std::vector<std::string>> script;  // op strings per cycle, e.g. "v1", "+1,-2", "s1=5,e2", "" = no write
    };
    Run *g = nullptr;

    std::vector<std::string> split(const std::string &s, char sep)
    {
        std::vector<std::string> out; std::string cur;
        for (char c : s) { if (c == sep) { out.push_back(cur); cur.clear(); } else cur += c; }
        out.push_back(cur);
        return out;
    }

    long next_script_cycle(const std::vector<std::string> &sc, long after)
    {
        for (long c = after + 1; c < static_cast<long>(sc.size()); ++c) if (!sc[static_cast<std::size_t>(c)].empty()) return c;
        return -1;
    }

    // ---- scripted writers ---------------------------------------------------------------------------------
    template <typename Derived>
    struct WriterBase
    {
        static void do_start(NodeScheduler &sched, long id)
        {
            const auto &sc = g->script[static_cast<int>(id)];
            const long f = next_script_cycle(sc, -1);
            if (f >= 0) sched.schedule(MIN_ST + TimeDelta{f});
        }
        static void rearm(NodeScheduler &sched, long id, long now)
        {
            const auto &sc = g->script[static_cast<int>(id)];
            const long f = next_script_cycle(sc, now);
            if (f >= 0) sched.schedule(MIN_ST + TimeDelta{f});
        }
    };
    struct WTs : WriterBase<WTs>
    {
        static constexpr auto name = "c08_w_ts";
        static void start(NodeScheduler sched, Scalar<"id", Int> id) { do_start(sched, id.value()); }
        static void eval(NodeScheduler sched, Scalar<"id", Int> id, DateTime now, Out<TS<Int>> out)
        {
            const long c = rel(now);
            const std::string &op = g->script[static_cast<int>(id.value())].at(static_cast<std::size_t>(c));
            if (!op.empty()) out.set(Int{std::stol(op.substr(1))});
            rearm(sched, id.value(), c);
        }
    };
    struct WTss : WriterBase<WTss>
    {
        static constexpr auto name = "c08_w_tss";
        static void start(NodeScheduler sched, Scalar<"id", Int> id) { do_start(sched, id.value()); }
        static void eval(NodeScheduler sched, Scalar<"id", Int> id, DateTime now, Out<TSS<Int>> out)
        {
            const long c = rel(now);
            const std::string &ops = g->script[static_cast<int>(id.value())].at(static_cast<std::size_t>(c));
            for (auto &op : split(ops, ','))
            {
                if (op.empty()) continue;
                if (op[0] == '+') out.add(Int{std::stol(op.substr(1))});
                else if (op[0] == '-') out.remove(Int{std::stol(op.substr(1))});
                else if (op[0] == 'c') out.clear();
            }
            rearm(sched, id.value(), c);
        }
    };
    struct WTsd : WriterBase<WTsd>
    {
        static constexpr auto name = "c08_w_tsd";
        static void start(NodeScheduler sched, Scalar<"id", Int> id) { do_start(sched, id.value()); }
        static void eval(NodeScheduler sched, Scalar<"id", Int> id, DateTime now, Out<TSD<Int, TS<Int>>> out)
        {
            const long c = rel(now);
            const std::string &ops = g->script[static_cast<int>(id.value())].at(static_cast<std::size_t>(c));
            for (auto &op : split(ops, ','))
            {
                if (op.empty()) continue;
                if (op[0] == 's') { auto eq = op.find('='); out.set(Int{std::stol(op.substr(1, eq - 1))}, Int{std::stol(op.substr(eq + 1))}); }
                else if (op[0] == 'e') { (void)out.erase(Int{std::stol(op.substr(1))}); }
            }
            rearm(sched, id.value(), c);
        }
    };

    using FbList = TSL<TS<Int>, 2>;
    using FbBundle = TSB<"C08FbBundle", Field<"a", TS<Int>>, Field<"b", TS<Int>>>;
    struct WTsl : WriterBase<WTsl>   // ops "<index>=<value>": elements may get their first value in different cycles
    {
        static constexpr auto name = "c08_w_tsl";
        static void start(NodeScheduler sched, Scalar<"id", Int> id) { do_start(sched, id.value()); }
        static void eval(NodeScheduler sched, Scalar<"id", Int> id, DateTime now, Out<FbList> out)
        {
            const long c = rel(now);
            const std::string &ops = g->script[static_cast<int>(id.value())].at(static_cast<std::size_t>(c));
            for (auto &op : split(ops, ',')) if (!op.empty()) out.set(static_cast<std::size_t>(op[0] - '0'), Int{std::stol(op.substr(2))});
            rearm(sched, id.value(), c);
        }
    };
    struct WTsb : WriterBase<WTsb>
    {
        static constexpr auto name = "c08_w_tsb";
        static void start(NodeScheduler sched, Scalar<"id", Int> id) { do_start(sched, id.value()); }
        static void eval(NodeScheduler sched, Scalar<"id", Int> id, DateTime now, Out<FbBundle> out)
        {
            const long c = rel(now);
            const std::string &ops = g->script[static_cast<int>(id.value())].at(static_cast<std::size_t>(c));
            for (auto &op : split(ops, ','))
            {
                if (op.empty()) continue;
                if (op[0] == '0') out.field<"a">().set(Int{std::stol(op.substr(2))}); else out.field<"b">().set(Int{std::stol(op.substr(2))});
            }
            rearm(sched, id.value(), c);
        }
    };

    /** Canonical text of a value/delta: items of every innermost {...} group are sorted (sets and dicts are unordered). */
    std::string canon(const std::string &in)
    {
        std::string s = in;
        std::size_t pos = 0;
        while ((pos = s.find('{', pos)) != std::string::npos)
        {
            const std::size_t close = s.find_first_of("{}", pos + 1);
            if (close == std::string::npos) break;
            if (s[close] == '{') { pos = close; continue; }  // not innermost
            std::vector<std::string> items;
            std::string cur;
            int depth = 0;  // already-canonicalised inner groups are spelled <...>: split at top-level commas only
            for (std::size_t i = pos + 1; i < close; ++i)
            {
                if (s[i] == '<') ++depth;
                if (s[i] == '>') --depth;
                if (s[i] == ',' && depth == 0) { items.push_back(cur); cur.clear(); if (i + 1 < close && s[i + 1] == ' ') ++i; }
                else cur += s[i];
            }
            if (!cur.empty()) items.push_back(cur);
            std::sort(items.begin(), items.end());
            std::string rep = "<";
            for (std::size_t i = 0; i < items.size(); ++i) rep += (i ? ", " : "") + items[i];
            rep += ">";
            s.replace(pos, close - pos + 1, rep);
            pos = 0;  // restart: the enclosing group may now be innermost
        }
        return s;
    }

    // ---- probes -------------------------------------------------------------------------------------------
    void log_probe(long id, const TSInputView &in, DateTime now)
    {
        Tick t;
        t.t = rel(now);
        Value d = capture_delta(in);
        t.delta = d.has_value() ? canon(d.to_string()) : std::string{"<none>"};
        t.value = in.valid() ? canon(in.value().to_string()) : std::string{"<invalid>"};
        g->probes[static_cast<int>(id)].push_back(t);
    }
    struct PTs  { static constexpr auto name = "c08_p_ts";  static void eval(In<"a", TS<Int>> a, Scalar<"id", Int> id, DateTime now) { log_probe(id.value(), a.base(), now); } };
    struct PTss { static constexpr auto name = "c08_p_tss"; static void eval(In<"a", TSS<Int>> a, Scalar<"id", Int> id, DateTime now) { log_probe(id.value(), a.base(), now); } };
    struct PTsl { static constexpr auto name = "c08_p_tsl"; static void eval(In<"a", FbList, InputActivity::Active, InputValidity::Unchecked> a, Scalar<"id", Int> id, DateTime now) { log_probe(id.value(), a.base(), now); } };
    struct PTsb { static constexpr auto name = "c08_p_tsb"; static void eval(In<"a", FbBundle, InputActivity::Active, InputValidity::Unchecked> a, Scalar<"id", Int> id, DateTime now) { log_probe(id.value(), a.base(), now); } };
    struct PTsd { static constexpr auto name = "c08_p_tsd"; static void eval(In<"a", TSD<Int, TS<Int>>> a, Scalar<"id", Int> id, DateTime now) { log_probe(id.value(), a.base(), now); } };

    // ---- loop body: out = ts + fb (fb may be invalid before the first delivery) -----------------------------
    struct Add
    {
        static constexpr auto name = "c08_add";
        // ts keeps the default validity gate: a node without any validity requirement is deliberately sampled at the start of a
        // nested child graph (nested_bindings.h, schedule_sampled_input_consumers), which is not the subject here
        static void eval(In<"ts", TS<Int>> ts, In<"fb", TS<Int>, InputValidity::Unchecked> fb, Scalar<"slot", Int> slot, DateTime now,
                         Out<TS<Int>> out)
        {
            AddRead r; r.t = rel(now);
            r.ts = ts.valid() ? ts.value() : 0;
            r.fb_valid = fb.valid(); r.fb = fb.valid() ? fb.value() : 0;
            r.out = (r.ts + r.fb) % 1000003;
            g->adds[slot.value()].push_back(r);
            out.set(Int{r.out});
        }
    };

    struct CycleObs : LifecycleObserver
    {
        void on_before_graph_evaluation(const GraphView &gv) override { if (g && gv.is_root()) g->cycles.push_back(rel(gv.evaluation_time())); }
    };

    // ---- nested bodies --------------------------------------------------------------------------------------
    struct OpenLoopSub
    {
        static constexpr auto name = "c08_open_sub";
        static Port<TS<Int>> compose(Wiring &w, Port<TS<Int>> in)
        {
            auto fb = stdlib::feedback<TS<Int>>(w);
            fb(in);
            wire<PTs>(w, in, Int{1});
            wire<PTs>(w, fb(), Int{2});
            return fb();
        }
    };
    struct PassiveLoopSub
    {
        static constexpr auto name = "c08_passive_sub";
        static Port<TS<Int>> compose(Wiring &w, Port<TS<Int>> in)
        {
            auto fb = stdlib::feedback<TS<Int>>(w);
            auto a = wire<Add>(w, in, passive(fb()), Int{0});
            fb(a);
            wire<PTs>(w, a, Int{1});
            wire<PTs>(w, fb(), Int{2});
            return a;
        }
    };

    // ---- one case -------------------------------------------------------------------------------------------
    // desc: "<template>|<script0>|<script1>"   scripts: cycles separated by ';' (empty = no write)
    struct Expect { int pw, pr; bool init{false}; std::string init_delta; std::string init_value; bool values_only{false}; };

    std::optional<std::string> compare_shift(const Run &r, const Expect &e, long end, const std::string &what)
    {
        // a tick whose net delta is empty writes no value (e.g. removing an absent element): the statement is silent on it
        auto empty_delta = [](const std::string &d) { return d.find_first_of("0123456789") == std::string::npos; };
        std::vector<Tick> want;
        if (e.init) want.push_back(Tick{0, e.init_delta, e.init_value});
        auto it = r.probes.find(e.pw);
        if (it != r.probes.end())
            for (auto &t : it->second) if (t.t + 1 < end && !empty_delta(t.delta)) want.push_back(Tick{t.t + 1, t.delta, t.value});
        std::vector<Tick> got;
        if (auto ir = r.probes.find(e.pr); ir != r.probes.end()) for (auto &t : ir->second) if (!empty_delta(t.delta)) got.push_back(t);
        // an initial value delivered at start time followed by a write at t=0 delivered at t=1: both must appear, in order
        auto show = [](const std::vector<Tick> &v) { std::ostringstream o; for (auto &t : v) o << " t" << t.t << ":" << t.delta << "/" << t.value; return o.str(); };
        if (e.values_only)
        {
            // the writer is read through a reference: the delta a probe sees on a retarget is C13's subject; here only the delivered values count
            auto changes = [](std::vector<Tick> &v) {
                std::vector<Tick> o;
                for (auto &t : v) { t.delta = "*"; if (o.empty() || o.back().value != t.value) o.push_back(t); }
                v.swap(o);
            };
            changes(want); changes(got);  // compare the value changes and their times
        }
        if (got.size() != want.size() || !std::equal(got.begin(), got.end(), want.begin()))
            return what + ": reader stream is not the writer stream delayed by one step\n reader  :" + show(got) + "\n expected:" + show(want);
        return std::nullopt;
    }

    std::optional<std::string> run_case(const std::string &desc, std::string *sig = nullptr, bool *nontrivial = nullptr)
    {
        auto parts = split(desc, '|');
        const std::string tmpl = parts.at(0);
        Run run;
        g = &run;
        for (std::size_t i = 1; i < parts.size(); ++i) run.script[static_cast<int>(i - 1)] = split(parts[i], ';');
        CycleObs obs;
        std::string exc;
        const long end = 14;
        std::vector<Expect> expects;
        bool expect_quiescent = false;
        long last_write = -1;
        for (auto &[id, sc] : run.script) for (std::size_t c = 0; c < sc.size(); ++c) if (!sc[c].empty()) last_write = std::max<long>(last_write, static_cast<long>(c));
        try
        {
            Wiring w;
            if (tmpl == "ts" || tmpl == "tsi")
            {
                auto wr = wire<WTs>(w, Int{0});
                auto fb = tmpl == "tsi" ? stdlib::feedback<TS<Int>>(w, Int{1}) : stdlib::feedback<TS<Int>>(w);
                fb(wr);
                wire<PTs>(w, wr, Int{1});
                wire<PTs>(w, fb(), Int{2});
                Expect e{1, 2};
                if (tmpl == "tsi") { e.init = true; e.init_delta = "1"; e.init_value = "1"; }
                expects.push_back(e);
            }
            else if (tmpl == "tss")
            {
                auto wr = wire<WTss>(w, Int{0});
                auto fb = stdlib::feedback<TSS<Int>>(w);
                fb(wr);
                wire<PTss>(w, wr, Int{1});
                wire<PTss>(w, fb(), Int{2});
                expects.push_back(Expect{1, 2});
            }
            else if (tmpl == "tsl")
            {
                auto wr = wire<WTsl>(w, Int{0});
                auto fb = stdlib::feedback<FbList>(w);
                fb(wr);
                wire<PTsl>(w, wr, Int{1});
                wire<PTsl>(w, fb(), Int{2});
                expects.push_back(Expect{1, 2});
            }
            else if (tmpl == "tsb")
            {
                auto wr = wire<WTsb>(w, Int{0});
                auto fb = stdlib::feedback<FbBundle>(w);
                fb(wr);
                wire<PTsb>(w, wr, Int{1});
                wire<PTsb>(w, fb(), Int{2});
                expects.push_back(Expect{1, 2});
            }
            else if (tmpl == "tsd")
            {
                auto wr = wire<WTsd>(w, Int{0});
                auto fb = stdlib::feedback<TSD<Int, TS<Int>>>(w);
                fb(wr);
                wire<PTsd>(w, wr, Int{1});
                wire<PTsd>(w, fb(), Int{2});
                expects.push_back(Expect{1, 2});
            }
            else if (tmpl == "two")
            {
                // two independent loops of the same schema ticking together
                auto w0 = wire<WTs>(w, Int{0});
                auto w1 = wire<WTs>(w, Int{1});
                auto f0 = stdlib::feedback<TS<Int>>(w);
                auto f1 = stdlib::feedback<TS<Int>>(w);
                f0(w0); f1(w1);
                wire<PTs>(w, w0, Int{1}); wire<PTs>(w, f0(), Int{2});
                wire<PTs>(w, w1, Int{3}); wire<PTs>(w, f1(), Int{4});
                expects.push_back(Expect{1, 2}); expects.push_back(Expect{3, 4});
            }
            else if (tmpl == "self" || tmpl == "selfp")
            {
                auto ts = wire<WTs>(w, Int{0});
                auto fb = stdlib::feedback<TS<Int>>(w);
                auto a = tmpl == "selfp" ? wire<Add>(w, ts, passive(fb()), Int{0}) : wire<Add>(w, ts, fb(), Int{0});
                fb(a);
                wire<PTs>(w, a, Int{1});
                wire<PTs>(w, fb(), Int{2});
                expects.push_back(Expect{1, 2});
                expect_quiescent = tmpl == "selfp";
            }
            else if (tmpl == "mutual" || tmpl == "mutualp")
            {
                auto x = wire<WTs>(w, Int{0});
                auto y = wire<WTs>(w, Int{1});
                auto fa = stdlib::feedback<TS<Int>>(w);
                auto fbb = stdlib::feedback<TS<Int>>(w);
                const bool p = tmpl == "mutualp";
                auto a = p ? wire<Add>(w, x, passive(fbb()), Int{0}) : wire<Add>(w, x, fbb(), Int{0});
                auto b = p ? wire<Add>(w, y, passive(fa()), Int{1}) : wire<Add>(w, y, fa(), Int{1});
                fa(a); fbb(b);
                wire<PTs>(w, a, Int{1}); wire<PTs>(w, fa(), Int{2});
                wire<PTs>(w, b, Int{3}); wire<PTs>(w, fbb(), Int{4});
                expects.push_back(Expect{1, 2}); expects.push_back(Expect{3, 4});
                expect_quiescent = p;
            }
            else if (tmpl == "nopen")
            {
                auto wr = wire<WTs>(w, Int{0});
                auto o = nested_<OpenLoopSub>(w, wr);
                wire<PTs>(w, o, Int{5});
                expects.push_back(Expect{1, 2});
                expects.push_back(Expect{1, 5});  // the outer view of the nested feedback output is the same delayed stream
            }
            else if (tmpl == "npass")
            {
                auto wr = wire<WTs>(w, Int{0});
                auto o = nested_<PassiveLoopSub>(w, wr);
                wire<PTs>(w, o, Int{5});
                expects.push_back(Expect{1, 2});
                expect_quiescent = true;
            }
            else if (tmpl == "reftss")
            {
                // a collection feedback bound directly to a reference-selected writer (if_then_else re-points between two sets)
                auto s0 = wire<WTss>(w, Int{0});
                auto s1 = wire<WTss>(w, Int{1});
                auto cnd = wire<WTs>(w, Int{2});
                auto cb = wire<stdlib::gt_>(w, cnd, wire<stdlib::const_, TS<Int>>(w, Int{0}));
                auto sel = wire<stdlib::if_then_else>(w, cb, s0, s1).template as<TSS<Int>>();
                auto fb = stdlib::feedback<TSS<Int>>(w);
                fb(sel);
                wire<PTss>(w, sel, Int{1});
                wire<PTss>(w, fb(), Int{2});
                Expect e{1, 2};
                e.values_only = true;
                expects.push_back(e);
            }
            else throw verif::HarnessError("unknown template " + tmpl);
            GraphBuilder gb = std::move(w).finish();
            GraphExecutorBuilder eb;
            eb.graph_builder(std::move(gb)).start_time(MIN_ST).end_time(MIN_ST + TimeDelta{end}).add_lifecycle_observer(&obs);
            auto ex = eb.make_executor();
            ex.view().run();
        }
        catch (const verif::HarnessError &) { g = nullptr; throw; }
        catch (const std::exception &e) { exc = e.what(); }
        g = nullptr;
        if (sig)
        {
            std::ostringstream o;
            for (auto &[id, v] : run.probes) { o << id << ":"; for (auto &t : v) o << t.t << "=" << t.value << ","; o << ";"; }
            *sig = tmpl + "#" + o.str();
        }
        if (nontrivial)
        {
            // back-to-back writes: some writer ticked in two consecutive cycles
            *nontrivial = false;
            for (auto &[id, v] : run.probes) if (id % 2 == 1) for (std::size_t i = 1; i < v.size(); ++i) if (v[i].t == v[i - 1].t + 1) *nontrivial = true;
        }
        if (!exc.empty()) return "run threw: " + exc;
        for (auto &e : expects)
            if (auto v = compare_shift(run, e, end, tmpl + " probe " + std::to_string(e.pr))) return v;
        // the loop body must never read a value in the cycle that produced it: fb read at t == writer value of the latest cycle < t
        for (int slot = 0; slot < 2; ++slot)
        {
            const int pw = slot == 0 ? (tmpl.rfind("mutual", 0) == 0 ? 3 : 1) : 1;  // slot 0 reads the OTHER loop's writer in the mutual template
            auto it = run.probes.find(pw);
            for (auto &rd : run.adds[slot])
            {
                long want = 0; bool have = false;
                if (it != run.probes.end()) for (auto &t : it->second) if (t.t < rd.t) { want = std::stol(t.value); have = true; }
                if (have != rd.fb_valid || (have && want != rd.fb))
                    return tmpl + ": loop body evaluated at t=" + std::to_string(rd.t) + " read feedback value " + (rd.fb_valid ? std::to_string(rd.fb) : std::string{"<invalid>"}) +
                           " but the value written strictly before this cycle is " + (have ? std::to_string(want) : std::string{"<none>"});
            }
        }
        if (expect_quiescent)
        {
            const long last = run.cycles.empty() ? -1 : run.cycles.back();
            if (last > last_write + 1)
                return tmpl + ": loop with a passive feedback reader did not go quiescent: last input write at t=" + std::to_string(last_write) + " but cycles continued to t=" + std::to_string(last);
        }
        return std::nullopt;
    }

    void gen_scripts(const std::vector<std::string> &alphabet, int cycles, std::vector<std::string> &out)
    {
        std::vector<int> idx(static_cast<std::size_t>(cycles), 0);
        while (true)
        {
            std::string s;
            for (int c = 0; c < cycles; ++c) { if (c) s += ";"; s += alphabet[static_cast<std::size_t>(idx[static_cast<std::size_t>(c)])]; }
            out.push_back(s);
            int p = 0;
            while (p < cycles && ++idx[static_cast<std::size_t>(p)] == static_cast<int>(alphabet.size())) { idx[static_cast<std::size_t>(p)] = 0; ++p; }
            if (p == cycles) break;
        }
    }
}  // namespace

void verif_init() { stdlib::register_standard_operators(); }

std::optional<std::string> verif_run_case(verif::Ctx &, const std::string &desc) { return run_case(desc); }

void verif_enumerate(verif::Ctx &ctx)
{
    const bool th = ctx.thorough();
    const int T = th ? 6 : 5;
    std::vector<std::string> ts_scripts, tss_scripts, tsd_scripts, short_ts;
    gen_scripts({"", "v1", "v2"}, T, ts_scripts);                                           // repeats of equal values on consecutive steps included
    gen_scripts({"", "+1", "+2", "-1", "-2", "+1,+2", "c", "+1,-1"}, th ? 5 : 4, tss_scripts);
    gen_scripts({"", "s1=5", "s1=6", "s2=5", "e1", "e2", "s1=5,s2=7", "s1=5,e1"}, th ? 5 : 4, tsd_scripts);
    gen_scripts({"", "v1", "v2"}, th ? 5 : 4, short_ts);
    std::vector<std::string> sel_scripts;  // condition writer for the reference-selected template
    gen_scripts({"", "v1", "v0"}, 3, sel_scripts);
    auto run_all = [&](const std::string &tmpl, const std::vector<std::string> &a, const std::vector<std::string> *b = nullptr, const std::vector<std::string> *c = nullptr) {
        for (auto &sa : a)
        {
            const std::vector<std::string> one{""};
            for (auto &sb : (b ? *b : one))
                for (auto &sc : (c ? *c : one))
                {
                    if (!ctx.next_is_mine()) continue;
                    std::string desc = tmpl + "|" + sa;
                    if (b) desc += "|" + sb;
                    if (c) desc += "|" + sc;
                    ++ctx.evaluations; ++ctx.traces;
                    std::string sig; bool nt = false;
                    auto v = run_case(desc, &sig, &nt);
                    ctx.state(sig);
                    if (nt) ctx.nontriv(desc);
                    ctx.count("cases_" + tmpl);
                    if (v)
                    {
                        auto v2 = run_case(desc);
                        if (!v2 || *v2 != *v) throw verif::HarnessError("case not reproducible: " + desc);
                        std::string sig = tmpl + ": " + v->substr(0, 40);
                        if (tmpl == "reftss")
                        {
                            // classify: does some cycle re-point the reference while the newly selected target also ticks itself?
                            const auto s0 = split(sa, ';'), s1 = split(sb, ';'), cs = split(sc, ';');
                            int sel = -1; bool coincident = false;
                            for (std::size_t cy = 0; cy < cs.size(); ++cy)
                            {
                                int nsel = sel;
                                if (!cs[cy].empty()) nsel = cs[cy] == "v1" ? 0 : 1;
                                if (nsel != sel)
                                {
                                    const auto &tgt = nsel == 0 ? s0 : s1;
                                    if (cy < tgt.size() && !tgt[cy].empty() && cy > 0) coincident = true;
                                }
                                sel = nsel;
                            }
                            sig = coincident ? "reftss: retarget coincides with the new target's own tick" : "reftss: other";
                        }
                        ctx.violation(desc, *v, sig);
                    }
                    else if (ctx.evaluations % 4999 == 1) ctx.sample("cases", desc);
                }
        }
    };
    run_all("ts", ts_scripts);
    run_all("tsi", ts_scripts);
    run_all("tss", tss_scripts);
    run_all("tsd", tsd_scripts);
    {
        // structured feedback edges: elements / fields get their first value in different cycles, or never
        std::vector<std::string> struct_scripts;
        gen_scripts({"", "0=1", "1=2", "0=3", "0=4,1=5"}, th ? 5 : 4, struct_scripts);
        run_all("tsl", struct_scripts);
        run_all("tsb", struct_scripts);
    }
    run_all("self", ts_scripts);
    run_all("selfp", ts_scripts);
    run_all("nopen", ts_scripts);
    run_all("npass", ts_scripts);
    run_all("two", short_ts, &short_ts);
    run_all("mutual", short_ts, &short_ts);
    run_all("mutualp", short_ts, &short_ts);
    {
        // both candidate targets are made valid in cycle 0 (a retarget to a target that holds no value is outside the statement)
        std::vector<std::string> tails, small_tss;
        gen_scripts({"", "+1", "+2", "-1", "-2", "+3"}, 2, tails);
        for (const char *first : {"+1", "+2", "+1,+2"}) for (auto &t : tails) small_tss.push_back(std::string{first} + ";" + t);
        run_all("reftss", small_tss, &small_tss, &sel_scripts);
    }
}

VERIF_MAIN()
