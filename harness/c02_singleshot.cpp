// C02 (single-shot part) — wake-ups asked for through the stateless SingleShotScheduler (start hook and evaluation), next to input
// ticks. Node: start hook runs a script of <= 2 requests from {now, +1, +2, +4}; every evaluation may run a script of <= 1 request
// from {+1, +3}; an input ticks in every subset of T cycles. Property oracle: the node is evaluated at every requested time inside
// the window and at every input tick, and at no other time; root cycles occur exactly at those times.
// The scheduler is documented as ONE graph slot with min-semantics and no state ("never moves an existing earlier schedule later").
// Two forms in which that design loses a request are set aside as known findings (DESIGN 7.3) and verified exactly:
//   (slot)  a request later than another pending one, or later than an input-driven evaluation, is dropped with the slot;
//   (now)   schedule_now() followed by a later request in the start hook loses the start-cycle evaluation.
#include "vpch.h"
#include "vcommon.h"
#include "tsshapes.h"
using namespace hgraph;

namespace
{
    using tsshapes::split;
    long rel(DateTime t) { return static_cast<long>((t - MIN_ST) / MIN_TD); }
    struct Run { std::vector<long> start_ops; long eval_op{0}; unsigned ticks{0}; int cycles{0}; std::vector<long> evals, root_cycles; };
    Run *g = nullptr;

    struct Src
    {
        static constexpr auto name = "c02s_src";
        static constexpr bool schedule_on_start = true;
        static void eval(NodeScheduler sched, DateTime now, Out<TS<Int>> out)
        {
            const long c = rel(now);
            if (c < g->cycles && (g->ticks >> c) & 1u) out.set(Int{c});
            if (c + 1 < g->cycles) sched.schedule(MIN_TD);
        }
    };
    struct Shot
    {
        static constexpr auto name = "c02s_shot";
        static void start(SingleShotScheduler s) { for (long d : g->start_ops) { if (d == 0) s.schedule_now(); else s.schedule(MIN_TD * d); } }
        static void eval(In<"x", TS<Int>, InputActivity::Active, InputValidity::Unchecked> x, SingleShotScheduler s, DateTime now, Out<TS<Int>> out)
        {
            (void)x;
            g->evals.push_back(rel(now));
            if (g->eval_op > 0 && g->evals.size() == 1) s.schedule(MIN_TD * g->eval_op);   // one request, from the first evaluation
            out.set(Int{rel(now)});
        }
    };
    struct Obs : LifecycleObserver { void on_before_graph_evaluation(const GraphView &gv) override { if (g && gv.is_root()) g->root_cycles.push_back(rel(gv.evaluation_time())); } };

    struct Outcome { std::optional<std::string> violation; std::string sig, cls; bool nontrivial{false}; };
    std::string show(const std::vector<long> &v) { std::string s; for (long x : v) s += std::to_string(x) + " "; return s; }

    // desc: <start ops as digits, e.g. "04">|<eval op digit>|<tick mask>
    Outcome run_desc(const std::string &desc)
    {
        Outcome out;
        auto parts = split(desc, '|');
        Run run; for (char ch : parts.at(0)) run.start_ops.push_back(ch - '0'); run.eval_op = parts.at(1)[0] - '0'; run.ticks = static_cast<unsigned>(std::stoul(parts.at(2))); run.cycles = 6;
        std::string exc;
        g = &run;
        Obs obs;
        try
        {
            Wiring w;
            static_cast<void>(wire<Shot>(w, wire<Src>(w)));
            GraphBuilder gb = std::move(w).finish();
            GraphExecutorBuilder eb;
            eb.graph_builder(std::move(gb)).start_time(MIN_ST).end_time(MIN_ST + TimeDelta{run.cycles + 6}).add_lifecycle_observer(&obs);
            auto ex = eb.make_executor();
            ex.view().run();
        }
        catch (const std::exception &e) { exc = e.what(); }
        g = nullptr;
        if (!exc.empty()) { out.violation = "run threw: " + exc; return out; }
        // property oracle: every request and every input tick
        std::set<long> want; for (long d : run.start_ops) want.insert(d);
        for (int c = 0; c < run.cycles; ++c) if ((run.ticks >> c) & 1u) want.insert(c);
        if (run.eval_op > 0 && !want.empty()) want.insert(*want.begin() + run.eval_op);
        std::vector<long> want_v(want.begin(), want.end());
        std::ostringstream sig; sig << show(run.evals);
        out.sig = sig.str();
        out.nontrivial = run.start_ops.size() >= 2 || (run.eval_op > 0 && run.ticks != 0);
        if (run.evals == want_v) return out;
        // (slot) the documented single graph slot: evaluated at input ticks and at the earliest request still in the slot
        std::set<long> slot_model; for (int c = 0; c < run.cycles; ++c) if ((run.ticks >> c) & 1u) slot_model.insert(c);
        {
            // replay: slot holds min of start requests; an evaluation consumes it; the evaluation request (first evaluation only) refills it
            long slot = -1; for (long d : run.start_ops) slot = slot < 0 ? d : std::min(slot, d);
            std::set<long> ev; bool first = true;
            for (long c = 0; c < run.cycles + 6; ++c)
            {
                const bool tick = c < run.cycles && ((run.ticks >> c) & 1u);
                if (tick || slot == c)
                {
                    ev.insert(c); slot = -1;
                    if (first && run.eval_op > 0) slot = c + run.eval_op;
                    first = false;
                }
            }
            slot_model = ev;
        }
        std::vector<long> slot_v(slot_model.begin(), slot_model.end());
        if (run.evals == slot_v) { out.violation = "evaluated at [" + show(run.evals) + "] but requests and input ticks are at [" + show(want_v) + "]"; out.cls = "SingleShotScheduler keeps one graph slot: a request behind an earlier evaluation of the node is dropped"; return out; }
        // (now) schedule_now() followed by a later request in start: the start-cycle evaluation is lost, the rest follows the slot model
        if (run.start_ops.size() == 2 && run.start_ops[0] == 0 && run.start_ops[1] > 0 && !(run.ticks & 1u))
        {
            Run alt = run; alt.start_ops = {run.start_ops[1]};
            long slot = run.start_ops[1]; std::set<long> ev; bool first = true;
            for (long c = 0; c < run.cycles + 6; ++c)
            {
                const bool tick = c < run.cycles && ((run.ticks >> c) & 1u);
                if (tick || slot == c) { ev.insert(c); slot = -1; if (first && run.eval_op > 0) slot = c + run.eval_op; first = false; }
            }
            std::vector<long> ev_v(ev.begin(), ev.end());
            if (run.evals == ev_v) { out.violation = "evaluated at [" + show(run.evals) + "] but requests and input ticks are at [" + show(want_v) + "]"; out.cls = "SingleShotScheduler: schedule_now() followed by a later request in the start hook loses the start-cycle evaluation"; return out; }
        }
        out.violation = "evaluated at [" + show(run.evals) + "] but requests and input ticks are at [" + show(want_v) + "] (and the documented single-slot behaviour would give [" + show(slot_v) + "])";
        return out;
    }
}  // namespace

void verif_init() { stdlib::register_standard_operators(); }
std::optional<std::string> verif_run_case(verif::Ctx &, const std::string &desc) { return run_desc(desc).violation; }

void verif_enumerate(verif::Ctx &ctx)
{
    std::vector<std::string> starts = {""};
    for (char a : std::string{"0124"}) { starts.push_back(std::string(1, a)); for (char b : std::string{"0124"}) if (a != b) starts.push_back(std::string{a, b}); }
    for (auto &st : starts)
        for (char e : std::string{"013"})
            for (unsigned m = 0; m < 64; ++m)
            {
                if (!ctx.next_is_mine()) continue;
                const std::string desc = st + "|" + std::string(1, e) + "|" + std::to_string(m);
                ++ctx.evaluations; ++ctx.traces; ctx.transitions += 6;
                Outcome o = run_desc(desc);
                ctx.state(o.sig);
                if (o.nontrivial) ctx.nontriv(desc);
                ctx.count("singleshot_cases");
                if (o.violation)
                {
                    Outcome o2 = run_desc(desc);
                    if (!o2.violation || *o2.violation != *o.violation) throw verif::HarnessError("case not reproducible: " + desc);
                    ctx.violation(desc, *o.violation, o.cls.empty() ? "singleshot: " + desc : o.cls);
                }
            }
}

VERIF_MAIN()
