// C19 — operator resolution picks the unique most specific match, consistently.
// CONF-X: candidate overloads and argument types are described in a small AST from which BOTH the real TypePattern /
// TSValueTypeMetaData objects and an independent reference unifier are built. For every family of 1..N candidates, EVERY
// registration order and every argument tuple: the outcome (winner label / error) must be the same for all orders; no match
// <=> resolution error; the winner really matches with one consistent binding per variable (compared with the reference
// unifier) and the resolved output type is the substitution of those bindings; the winner is never a candidate that the
// documented ranking order puts strictly behind another matching candidate; a tie at the best rank is an error.
#include "vpch.h"
#include "vcommon.h"
#include <hgraph/types/type_pattern.h>
using namespace hgraph;

namespace
{
    // ---- mini AST ------------------------------------------------------------------------------------------------------
    // types:    I F S (scalars)      ts(X) tss(X) tsd(K,V) tsl(E,n)   sig
    // patterns: same + scalar vars $T $U $K, ts vars %S %R %V, size vars #N #M
    struct Ty
    {
        std::string k;            // "I","F","S","$T".. / "ts","tss","tsd","tsl","sig","%S"..
        std::vector<Ty> c;
        std::string size;         // for tsl: "2","3","0" (dynamic) or "#N"
        std::string str() const
        {
            if (c.empty()) return k;
            std::string s = k + "(";
            for (std::size_t i = 0; i < c.size(); ++i) s += (i ? "," : "") + c[i].str();
            if (k == "tsl") s += ";" + size;
            return s + ")";
        }
        bool operator==(const Ty &o) const { return k == o.k && size == o.size && c == o.c; }
    };
    Ty leaf(const std::string &k) { return Ty{k, {}, {}}; }
    Ty ts(Ty v) { return Ty{"ts", {std::move(v)}, {}}; }
    Ty tss(Ty v) { return Ty{"tss", {std::move(v)}, {}}; }
    Ty tsd(Ty k, Ty v) { return Ty{"tsd", {std::move(k), std::move(v)}, {}}; }
    Ty tsl(Ty e, const std::string &n) { return Ty{"tsl", {std::move(e)}, n}; }

    const ValueTypeMetaData *scalar_meta(const std::string &k)
    {
        auto &r = TypeRegistry::instance();
        if (k == "I") return r.value_type("int");
        if (k == "F") return r.value_type("float");
        if (k == "S") return r.value_type("str");
        // a small nominal hierarchy of scalar bundles: Animal <- Dog <- Puppy, Animal <- Cat
        if (k == "A") return r.bundle("c19.verif", "Animal", {{"id", r.value_type("int")}});
        if (k == "D") return r.bundle("c19.verif", "Dog", {{"id", r.value_type("int")}, {"barks", r.value_type("float")}}, {scalar_meta("A")});
        if (k == "P") return r.bundle("c19.verif", "Puppy", {{"id", r.value_type("int")}, {"barks", r.value_type("float")}, {"age", r.value_type("int")}}, {scalar_meta("D")});
        if (k == "C") return r.bundle("c19.verif", "Cat", {{"id", r.value_type("int")}, {"purrs", r.value_type("float")}}, {scalar_meta("A")});
        throw verif::HarnessError("scalar " + k);
    }
    const TSValueTypeMetaData *ts_meta(const Ty &t)
    {
        auto &r = TypeRegistry::instance();
        if (t.k == "ts") return r.ts(scalar_meta(t.c[0].k));
        if (t.k == "tss") return r.tss(scalar_meta(t.c[0].k));
        if (t.k == "tsd") return r.tsd(scalar_meta(t.c[0].k), ts_meta(t.c[1]));
        if (t.k == "tsl") return r.tsl(ts_meta(t.c[0]), static_cast<std::size_t>(std::stoul(t.size)));
        if (t.k == "sig") return r.signal();
        // three bundle types of the SAME shape {x: TS<Int>}: two named ones and the structural one; they are different types
        if (t.k == "bA") return r.tsb("C19BundleA", {{"x", r.ts(scalar_meta("I"))}});
        if (t.k == "bB") return r.tsb("C19BundleB", {{"x", r.ts(scalar_meta("I"))}});
        if (t.k == "bU") return r.un_named_tsb({{"x", r.ts(scalar_meta("I"))}});
        throw verif::HarnessError("ts meta " + t.str());
    }
    ScalarPattern scalar_pattern(const Ty &t)
    {
        if (t.k[0] == '$') return ScalarPattern::var(t.k.substr(1));
        return ScalarPattern::concrete(scalar_meta(t.k));
    }
    bool has_var(const Ty &t)
    {
        if (t.k[0] == '$' || t.k[0] == '%' || (!t.size.empty() && t.size[0] == '#')) return true;
        for (auto &c : t.c) if (has_var(c)) return true;
        return false;
    }
    TypePattern ts_pattern(const Ty &t)
    {
        if (t.k[0] == '%') return TypePattern::var(t.k.substr(1));
        if (t.k == "sig") return TypePattern::signal();
        if (!has_var(t)) return TypePattern::concrete(ts_meta(t));
        if (t.k == "ts") return TypePattern::ts(scalar_pattern(t.c[0]));
        if (t.k == "tss") return TypePattern::tss(scalar_pattern(t.c[0]));
        if (t.k == "tsd") return TypePattern::tsd(scalar_pattern(t.c[0]), ts_pattern(t.c[1]));
        if (t.k == "tsl") return t.size[0] == '#' ? TypePattern::tsl_var(ts_pattern(t.c[0]), t.size.substr(1)) : TypePattern::tsl(ts_pattern(t.c[0]), static_cast<std::size_t>(std::stoul(t.size)));
        throw verif::HarnessError("pattern " + t.str());
    }

    // ---- reference unifier -----------------------------------------------------------------------------------------------
    using Bind = std::map<std::string, std::string>;   // variable -> concrete type text (sizes as text)
    // inheritance distance between the scalar bundles (derived -> base), -1 when unrelated
    int isa_distance(const std::string &derived, const std::string &base)
    {
        static const std::map<std::string, std::string> parent = {{"D", "A"}, {"P", "D"}, {"C", "A"}};
        int d = 0;
        for (std::string cur = derived;; ++d) { if (cur == base) return d; auto it = parent.find(cur); if (it == parent.end()) return -1; cur = it->second; }
    }
    bool is_bundle_scalar(const std::string &k) { return k == "A" || k == "D" || k == "P" || k == "C"; }
    bool unify(const Ty &p, const Ty &a, Bind &b)
    {
        if (p.k == "sig") return true;   // SIGNAL input accepts any time-series (input position)
        // documented relaxation, inputs only: TS[~T] with T already bound to a bundle accepts TS of a bundle DERIVED from it (T keeps its
        // binding); a concrete TS[Base] parameter accepts TS[Derived]. Never the other way round, never below TSS / dictionary keys.
        if (p.k == "ts" && a.k == "ts" && is_bundle_scalar(a.c[0].k))
        {
            const std::string &pk = p.c[0].k;
            if (pk[0] == '$') { auto it = b.find(pk); if (it != b.end() && is_bundle_scalar(it->second)) return isa_distance(a.c[0].k, it->second) >= 0; }
            else if (is_bundle_scalar(pk)) return isa_distance(a.c[0].k, pk) >= 0;
        }
        if (p.k[0] == '%' || p.k[0] == '$')
        {
            auto it = b.find(p.k);
            if (it == b.end()) { b[p.k] = a.str(); return true; }
            return it->second == a.str();
        }
        if (p.k != a.k || p.c.size() != a.c.size()) return false;
        if (p.k == "tsl")
        {
            if (p.size[0] == '#')
            {
                auto it = b.find(p.size);
                if (it == b.end()) b[p.size] = a.size;
                else if (it->second != a.size) return false;
            }
            else if (p.size != a.size) return false;
        }
        for (std::size_t i = 0; i < p.c.size(); ++i) if (!unify(p.c[i], a.c[i], b)) return false;
        return true;
    }
    Ty substitute(const Ty &p, const Bind &b, bool &ok)
    {
        // returns a concrete Ty; variables replaced (types stored as text are re-parsed lazily: keep as opaque leaf)
        if (p.k[0] == '%' || p.k[0] == '$') { auto it = b.find(p.k); if (it == b.end()) { ok = false; return p; } return Ty{"=" + it->second, {}, {}}; }
        Ty r{p.k, {}, p.size};
        if (!p.size.empty() && p.size[0] == '#') { auto it = b.find(p.size); if (it == b.end()) { ok = false; } else r.size = it->second; }
        for (auto &c : p.c) r.c.push_back(substitute(c, b, ok));
        return r;
    }
    std::string flat(const Ty &t)   // text of a substituted type, comparable with Ty::str() of a concrete type
    {
        if (!t.k.empty() && t.k[0] == '=') return t.k.substr(1);
        if (t.c.empty()) return t.k;
        std::string s = t.k + "(";
        for (std::size_t i = 0; i < t.c.size(); ++i) s += (i ? "," : "") + flat(t.c[i]);
        if (t.k == "tsl") s += ";" + t.size;
        return s + ")";
    }

    // documented specificity order on single patterns: concrete < scalar-variable < whole-time-series variable, recursively
    // returns -1 if x strictly more specific than y, +1 if less, 0 if unordered/equal by the documented rules
    int doc_order(const Ty &x, const Ty &y)
    {
        auto cls = [](const Ty &t) { return t.k[0] == '%' ? 2 : (has_var(t) ? 1 : 0); };
        const int cx = cls(x), cy = cls(y);
        if (cx == 2 && cy == 2) return 0;
        if (cx == 2) return +1;
        if (cy == 2) return -1;
        if (cx == 0 && cy == 0) return 0;
        if (cx == 0 && cy == 1) return -1;
        if (cx == 1 && cy == 0) return +1;
        // both contain variables below the top: compare structurally when the shapes agree
        if (x.k != y.k || x.c.size() != y.c.size()) return 0;
        int res = 0;
        for (std::size_t i = 0; i < x.c.size(); ++i)
        {
            const Ty &a = x.c[i], &b = y.c[i];
            int o;
            if (a.c.empty() && b.c.empty())
            {
                const bool av = a.k[0] == '$' || a.k[0] == '%', bv = b.k[0] == '$' || b.k[0] == '%';
                o = (av == bv) ? 0 : (av ? +1 : -1);
            }
            else o = doc_order(a, b);
            if (o != 0) { if (res != 0 && res != o) return 0; res = o; }
        }
        return res;
    }

    struct Cand { std::string label; std::vector<Ty> params; std::optional<Ty> out; bool variadic{false}; };

    std::vector<Cand> candidates1()
    {
        std::vector<Cand> v;
        auto add = [&](const std::string &l, Ty p, std::optional<Ty> o) { v.push_back({l, {std::move(p)}, std::move(o)}); };
        add("ts_int", ts(leaf("I")), ts(leaf("I")));
        add("ts_float", ts(leaf("F")), ts(leaf("F")));
        add("ts_T", ts(leaf("$T")), ts(leaf("$T")));
        add("ts_U", ts(leaf("$U")), ts(leaf("$U")));
        add("any_S", leaf("%S"), leaf("%S"));
        add("any_R", leaf("%R"), leaf("%R"));
        add("tsl_int_2", tsl(ts(leaf("I")), "2"), ts(leaf("I")));
        add("tsl_T_N", tsl(ts(leaf("$T")), "#N"), ts(leaf("$T")));
        add("tsl_S_N", tsl(leaf("%S"), "#N"), leaf("%S"));
        add("tsl_int_M", tsl(ts(leaf("I")), "#M"), ts(leaf("I")));   // a size variable spelled differently from the others
        add("tss_T", tss(leaf("$T")), ts(leaf("$T")));
        add("tsd_K_V", tsd(leaf("$K"), leaf("%V")), leaf("%V"));
        add("tsd_int_V", tsd(leaf("I"), leaf("%V")), leaf("%V"));
        add("signal", leaf("sig"), std::nullopt);
        return v;
    }
    std::vector<Cand> candidates2()
    {
        std::vector<Cand> v;
        auto add = [&](const std::string &l, Ty a, Ty b, std::optional<Ty> o) { v.push_back({l, {std::move(a), std::move(b)}, std::move(o)}); };
        add("int_int", ts(leaf("I")), ts(leaf("I")), ts(leaf("I")));
        add("T_T", ts(leaf("$T")), ts(leaf("$T")), ts(leaf("$T")));
        add("T_U", ts(leaf("$T")), ts(leaf("$U")), ts(leaf("$U")));
        add("S_S", leaf("%S"), leaf("%S"), leaf("%S"));
        add("S_R", leaf("%S"), leaf("%R"), leaf("%R"));
        add("int_T", ts(leaf("I")), ts(leaf("$T")), ts(leaf("$T")));
        add("tslN_tslN", tsl(ts(leaf("$T")), "#N"), tsl(ts(leaf("$T")), "#N"), tsl(ts(leaf("$T")), "#N"));
        add("tslN_tslM", tsl(ts(leaf("$T")), "#N"), tsl(ts(leaf("$T")), "#M"), tsl(ts(leaf("$T")), "#M"));
        add("int_float", ts(leaf("I")), ts(leaf("F")), ts(leaf("F")));
        return v;
    }
    // depth pool: candidates in which ONE variable occurs at two nesting depths, next to flat competitors. Pool 6 is the same pool with the
    // two parameters of every candidate exchanged: specificity does not depend on the order in which parameters are listed, so a family
    // resolved on (a0, a1) and its mirror image resolved on (a1, a0) must select the corresponding candidate (or fail alike).
    std::vector<Cand> candidatesD(bool mirrored)
    {
        std::vector<Cand> v;
        auto add = [&](const std::string &l, Ty a, Ty b, std::optional<Ty> o) { if (mirrored) v.push_back({l + "~", {std::move(b), std::move(a)}, std::move(o)}); else v.push_back({l, {std::move(a), std::move(b)}, std::move(o)}); };
        add("V_tslV", leaf("%V"), tsl(leaf("%V"), "#N"), leaf("%V"));
        add("sig_L", leaf("sig"), leaf("%L"), leaf("%L"));
        add("int_L", ts(leaf("I")), leaf("%L"), leaf("%L"));
        add("T_tslT", ts(leaf("$T")), tsl(ts(leaf("$T")), "#N"), ts(leaf("$T")));
        add("S_R", leaf("%S"), leaf("%R"), leaf("%S"));
        add("T_tslU", ts(leaf("$T")), tsl(ts(leaf("$U")), "#N"), ts(leaf("$T")));
        return v;
    }
    // bundle-inheritance pool
    std::vector<Cand> candidatesB()
    {
        std::vector<Cand> v;
        auto add = [&](const std::string &l, Ty a, Ty b, std::optional<Ty> o) { v.push_back({l, {std::move(a), std::move(b)}, std::move(o)}); };
        add("T_T", ts(leaf("$T")), ts(leaf("$T")), ts(leaf("$T")));
        add("T_U", ts(leaf("$T")), ts(leaf("$U")), ts(leaf("$T")));
        add("S_S", leaf("%S"), leaf("%S"), leaf("%S"));
        add("S_R", leaf("%S"), leaf("%R"), leaf("%S"));
        add("tslT_T", tsl(ts(leaf("$T")), "#N"), ts(leaf("$T")), ts(leaf("$T")));
        add("tssT_T", tss(leaf("$T")), ts(leaf("$T")), ts(leaf("$T")));
        add("T_tssT", ts(leaf("$T")), tss(leaf("$T")), ts(leaf("$T")));
        add("animal_U", ts(leaf("A")), ts(leaf("$U")), ts(leaf("$U")));
        add("dog_U", ts(leaf("D")), ts(leaf("$U")), ts(leaf("$U")));
        return v;
    }
    std::vector<Ty> arg_typesB()
    {
        return {ts(leaf("A")), ts(leaf("D")), ts(leaf("P")), ts(leaf("C")), ts(leaf("I")), tsl(ts(leaf("A")), "2"), tsl(ts(leaf("D")), "2"), tss(leaf("A")), tss(leaf("D"))};
    }
    // variadic pool: the LAST parameter of a variadic candidate is its tail pattern (zero or more trailing arguments, each matched on
    // its own: a tail argument must agree with every variable bound by the fixed parameters but does not bind the other tail arguments)
    std::vector<Cand> candidatesV()
    {
        std::vector<Cand> v;
        auto add = [&](const std::string &l, std::vector<Ty> ps, std::optional<Ty> o, bool var) { v.push_back({l, std::move(ps), std::move(o), var}); };
        add("T_tailT", {ts(leaf("$T")), ts(leaf("$T"))}, ts(leaf("$T")), true);
        add("T_tailU", {ts(leaf("$T")), ts(leaf("$U"))}, ts(leaf("$T")), true);
        add("S_tailS", {leaf("%S"), leaf("%S")}, leaf("%S"), true);
        add("S_tailR", {leaf("%S"), leaf("%R")}, leaf("%S"), true);
        add("tslN_tailN", {tsl(ts(leaf("$T")), "#N"), tsl(ts(leaf("$T")), "#N")}, ts(leaf("$T")), true);
        add("tslN_tailM", {tsl(ts(leaf("$T")), "#N"), tsl(ts(leaf("$U")), "#M")}, ts(leaf("$T")), true);
        add("int_tailint", {ts(leaf("I")), ts(leaf("I"))}, ts(leaf("I")), true);
        add("fix_T_T", {ts(leaf("$T")), ts(leaf("$T"))}, ts(leaf("$T")), false);
        add("fix_T_U", {ts(leaf("$T")), ts(leaf("$U"))}, ts(leaf("$T")), false);
        add("tail_only_T", {ts(leaf("$T"))}, ts(leaf("I")), true);
        return v;
    }
    std::vector<Ty> arg_typesV() { return {ts(leaf("I")), ts(leaf("F")), ts(leaf("S")), tsl(ts(leaf("I")), "2"), tsl(ts(leaf("I")), "3"), tsl(ts(leaf("F")), "2")}; }
    std::vector<Ty> arg_types()
    {
        return {ts(leaf("I")), ts(leaf("F")), ts(leaf("S")), tsl(ts(leaf("I")), "2"), tsl(ts(leaf("I")), "3"), tsl(ts(leaf("F")), "2"), tsl(ts(leaf("I")), "0"),
                tss(leaf("I")), tsd(leaf("I"), ts(leaf("I"))), tsd(leaf("S"), ts(leaf("F"))), leaf("sig"), leaf("bA"), leaf("bB"), leaf("bU"), tsl(leaf("bA"), "2")};
    }

    WiringArg ts_arg(const TSValueTypeMetaData *schema)
    {
        WiringArg arg;
        arg.kind = WiringArg::Kind::TimeSeries;
        arg.port.schema = schema;
        return arg;
    }

    struct Outcome { std::string result; std::optional<std::string> violation; };   // result: "W:<label>" | "E:none" | "E:ambiguous" | "E:other"

    /** Register the family in the given order and resolve; verify clauses 2-5 against the reference. */
    std::string first_size_var(const Cand &c)
    {
        std::string found;
        std::function<void(const Ty &)> scan = [&](const Ty &t) { if (found.empty() && !t.size.empty() && t.size[0] == '#') found = t.size; for (auto &ch : t.c) scan(ch); };
        for (auto &p : c.params) scan(p);
        if (c.out) scan(*c.out);
        return found;
    }
    Outcome resolve_family(const std::vector<Cand> &pool, const std::vector<int> &order, const std::vector<Ty> &args, int hint = 0)
    {
        Outcome o;
        auto &reg = OperatorRegistry::instance();
        reg.reset();
        std::map<std::string, int> rank_of;
        for (int idx : order)
        {
            const Cand &c = pool[static_cast<std::size_t>(idx)];
            OperatorImpl impl;
            impl.name = "c19_op";
            impl.label = c.label;
            int pi = 0;
            for (auto &p : c.params) impl.params.push_back(ParamPattern{.kind = ParamPattern::Kind::Input, .name = "p" + std::to_string(pi++), .ts = ts_pattern(p)});
            if (c.out) { impl.has_output = true; impl.output = ts_pattern(*c.out); }
            impl.variadic = c.variadic;
            impl.rank = operator_dispatch_detail::operator_rank(impl.params, impl.variadic);
            // effective rank of a variadic candidate: its fixed parameters, plus the tail pattern once per consumed argument, plus one
            rank_of[c.label] = impl.rank;
            // a concrete TS[Base] parameter fed a TS[Derived] argument ranks behind by the inheritance distance
            for (std::size_t i = 0; i < c.params.size() && i < args.size(); ++i)
                if (c.params[i].k == "ts" && is_bundle_scalar(c.params[i].c[0].k) && args[i].k == "ts" && is_bundle_scalar(args[i].c[0].k))
                { const int d = isa_distance(args[i].c[0].k, c.params[i].c[0].k); if (d > 0) rank_of[c.label] += d; }
            if (c.variadic && args.size() + 1 >= c.params.size())
                rank_of[c.label] += operator_dispatch_detail::param_pattern_rank(impl.params.back()) * static_cast<int>(args.size() - (c.params.size() - 1)) + 1;
            reg.register_overload(std::move(impl));
        }
        std::vector<WiringArg> wargs;
        for (auto &a : args) wargs.push_back(ts_arg(ts_meta(a)));
        // reference matching set
        std::map<std::string, Bind> matches;
        for (int idx : order)
        {
            const Cand &c = pool[static_cast<std::size_t>(idx)];
            const std::size_t fixed = c.variadic ? c.params.size() - 1 : c.params.size();
            Bind b; bool ok = c.variadic ? args.size() >= fixed : c.params.size() == args.size();
            // a caller-pinned SIZE (one hint) binds the candidate's first size variable before matching
            if (hint != 0) { const std::string sv = first_size_var(c); if (!sv.empty()) b[sv] = std::to_string(hint); }
            for (std::size_t i = 0; ok && i < fixed; ++i) ok = unify(c.params[i], args[i], b);
            // each tail argument in a throw-away copy of the bindings made by the fixed parameters
            for (std::size_t i = fixed; ok && i < args.size(); ++i) { Bind scope = b; ok = unify(c.params.back(), args[i], scope); }
            if (ok) matches[c.label] = b;
        }
        ResolvedOperatorCall res;
        std::string err;
        const std::size_t hints[1] = {static_cast<std::size_t>(hint)};
        try { res = hint == 0 ? reg.resolve("c19_op", std::span<const WiringArg>{wargs}) : reg.resolve("c19_op", std::span<const WiringArg>{wargs}, std::nullopt, nullptr, std::span<const std::size_t>{hints, 1}); }
        catch (const OperatorResolutionError &e) { err = e.what(); }
        if (!err.empty())
        {
            const bool amb = err.find("mbiguous") != std::string::npos;
            o.result = amb ? "E:ambiguous" : "E:none";
            if (matches.empty()) { if (amb) o.violation = "no candidate matches but an ambiguity was reported: " + err; return o; }
            // some candidate matches: the only legitimate error is a tie at the best rank
            int best = INT_MAX, n_best = 0;
            for (auto &[l, b] : matches) { if (rank_of[l] < best) { best = rank_of[l]; n_best = 1; } else if (rank_of[l] == best) ++n_best; }
            if (n_best < 2)
            {
                std::string ms; for (auto &[l, b] : matches) ms += l + "(rank " + std::to_string(rank_of[l]) + ") ";
                o.violation = "resolution failed (" + err.substr(0, 80) + ") although the matching candidates have a unique best rank: " + ms;
            }
            else if (!amb) o.violation = "the best rank is shared by " + std::to_string(n_best) + " matching candidates but the error is not an ambiguity error: " + err.substr(0, 120);
            return o;
        }
        const std::string w = res.impl != nullptr ? res.impl->label : std::string{"<null>"};
        o.result = "W:" + w;
        if (matches.empty()) { o.violation = "no candidate matches the arguments (reference unifier) but '" + w + "' was selected"; return o; }
        if (!matches.count(w)) { o.violation = "selected candidate '" + w + "' does not match the supplied argument types (reference unifier)"; return o; }
        // unique best rank
        for (auto &[l, b] : matches)
            if (l != w && rank_of[l] <= rank_of[w])
            {
                o.violation = "selected '" + w + "' (rank " + std::to_string(rank_of[w]) + ") although matching candidate '" + l + "' has rank " + std::to_string(rank_of[l]) + (rank_of[l] == rank_of[w] ? " (a tie must be an ambiguity error)" : "");
                return o;
            }
        // documented order: the winner must not be strictly behind another matching candidate on every differing parameter
        const Cand *wc = nullptr;
        for (auto &c : pool) if (c.label == w) wc = &c;
        for (auto &[l, b] : matches)
        {
            if (l == w) continue;
            const Cand *oc = nullptr;
            for (auto &c : pool) if (c.label == l) oc = &c;
            int agg = 0; bool comparable = !wc->variadic && !oc->variadic && wc->params.size() == oc->params.size();
            // a concrete bundle parameter fed a derived bundle ranks by inheritance distance as well: the plain pattern order does not decide
            for (const Cand *cc : {wc, oc}) for (auto &pp : cc->params) if (pp.k == "ts" && is_bundle_scalar(pp.c[0].k)) comparable = false;
            for (std::size_t i = 0; comparable && i < wc->params.size(); ++i)
            {
                const int d = doc_order(oc->params[i], wc->params[i]);   // -1: other more specific
                if (d != 0) { if (agg != 0 && agg != d) comparable = false; agg = d; }
            }
            if (comparable && agg == -1) { o.violation = "selected '" + w + "' although matching candidate '" + l + "' is strictly more specific by the documented order (concrete < scalar variable < time-series variable)"; return o; }
        }
        // bindings: one type per variable, equal to the reference unifier's
        const Bind &want = matches[w];
        for (auto &[var, text] : want)
        {
            if (var[0] == '%')
            {
                const auto *m = res.map.find_ts(var.substr(1));
                bool ok2 = false;
                for (auto &a : arg_types()) if (a.str() == text) ok2 = m == ts_meta(a);
                // the bound text may be a nested type not in arg_types (e.g. ts(I) inside a tsl): build it through the args
                if (!ok2 && m != nullptr)
                {
                    for (auto &a : args)
                    {
                        std::function<bool(const Ty &)> scan = [&](const Ty &t) { if (t.str() == text && t.k != "I" && t.k != "F" && t.k != "S") { if (m == ts_meta(t)) return true; } for (auto &c : t.c) if (scan(c)) return true; return false; };
                        if (scan(a)) ok2 = true;
                    }
                }
                if (!ok2) { o.violation = "variable " + var + " of '" + w + "' is bound to " + (m ? std::string{m->name()} : std::string{"<nothing>"}) + " but the arguments require " + text; return o; }
            }
            else if (var[0] == '$')
            {
                const auto *m = res.map.find_scalar(var.substr(1));
                if (m != scalar_meta(text)) { o.violation = "scalar variable " + var + " of '" + w + "' is bound to " + (m ? std::string{m->name()} : std::string{"<nothing>"}) + " but the arguments require " + text; return o; }
            }
            else if (var[0] == '#')
            {
                const auto sz = res.map.find_size(var.substr(1));
                if (!sz.has_value() || std::to_string(*sz) != text) { o.violation = "size variable " + var + " of '" + w + "' is bound to " + (sz ? std::to_string(*sz) : std::string{"<nothing>"}) + " but the arguments require " + text; return o; }
            }
        }
        // output = substitution of the bindings
        if (wc->out)
        {
            bool ok3 = true;
            const Ty sub = substitute(*wc->out, want, ok3);
            if (ok3)
            {
                const std::string want_text = flat(sub);
                const TSValueTypeMetaData *got = ts_pattern_resolve(res.impl->output, res.map);
                // find a Ty with that text among the argument sub-terms or build ts(scalar)
                const TSValueTypeMetaData *want_meta = nullptr;
                std::function<void(const Ty &)> scan = [&](const Ty &t) { if (t.k != "I" && t.k != "F" && t.k != "S" && t.str() == want_text) want_meta = ts_meta(t); for (auto &c : t.c) scan(c); };
                for (auto &a : args) scan(a);
                for (auto &a : arg_types()) scan(a);
                for (auto &a : arg_typesB()) scan(a);
                if (want_meta != nullptr && got != want_meta)
                    o.violation = "output type of '" + w + "' resolves to " + (got ? std::string{got->name()} : std::string{"<null>"}) + " but substituting the bindings into its output pattern gives " + want_text;
            }
        }
        return o;
    }

    std::optional<std::string> run_family_case(const std::string &desc, std::string *sig = nullptr, bool *nontrivial = nullptr, std::uint64_t *resolves = nullptr)
    {
        // desc: <arity>|<cand idx,cand idx,..>|<arg idx,arg idx>
        auto parts = std::vector<std::string>{};
        { std::string cur; for (char ch : desc) { if (ch == '|') { parts.push_back(cur); cur.clear(); } else cur += ch; } parts.push_back(cur); }
        const int arity = std::stoi(parts.at(0));
        const std::vector<Cand> pool = arity == 1 ? candidates1() : arity == 2 ? candidates2() : arity == 3 ? candidatesV() : arity == 4 ? candidatesB() : candidatesD(arity == 6);
        std::vector<int> fam; { std::string cur; for (char ch : parts.at(1)) { if (ch == ',') { fam.push_back(std::stoi(cur)); cur.clear(); } else cur += ch; } fam.push_back(std::stoi(cur)); }
        std::vector<Ty> args; { const auto at = (arity == 3 || arity >= 5) ? arg_typesV() : arity == 4 ? arg_typesB() : arg_types(); std::string cur; for (char ch : parts.at(2)) { if (ch == ',') { args.push_back(at[static_cast<std::size_t>(std::stoi(cur))]); cur.clear(); } else cur += ch; } args.push_back(at[static_cast<std::size_t>(std::stoi(cur))]); }
        const int hint = parts.size() > 3 && !parts[3].empty() ? std::stoi(parts[3].substr(1)) : 0;
        std::sort(fam.begin(), fam.end());
        std::string first;
        std::optional<std::string> violation;
        std::vector<int> order = fam;
        do
        {
            if (resolves) ++*resolves;
            Outcome o = resolve_family(pool, order, args, hint);
            std::string ord; for (int i : order) ord += pool[static_cast<std::size_t>(i)].label + " ";
            if (o.violation && !violation) violation = "[registration order: " + ord + "] " + *o.violation;
            if (first.empty()) first = o.result;
            else if (o.result != first && !violation) violation = "outcome depends on registration order: " + first + " vs " + o.result + " for order " + ord;
        } while (std::next_permutation(order.begin(), order.end()));
        if (sig) *sig = first;
        if (nontrivial) *nontrivial = fam.size() >= 2 && first.rfind("E:none", 0) != 0;
        OperatorRegistry::instance().reset();
        return violation;
    }
}  // namespace

void verif_init() { stdlib::register_standard_operators(); }

// ---- defaults pool ------------------------------------------------------------------------------------------------------------
// Candidates with DEFAULTED scalar parameters, called with the defaults used, supplied by position or supplied by name. Oracle:
// clause (1) only - the outcome (selected label / ambiguous / no match) is the same for every registration order of the family.
namespace
{
    struct DCand { std::string label; std::vector<ParamPattern> params; };
    ParamPattern d_in(std::string name, TypePattern pattern) { ParamPattern p; p.kind = ParamPattern::Kind::Input; p.name = std::move(name); p.ts = std::move(pattern); return p; }
    ParamPattern d_scalar(std::string name, ScalarPattern pattern, std::optional<Value> dv = std::nullopt) { ParamPattern p; p.kind = ParamPattern::Kind::Scalar; p.name = std::move(name); p.scalar = std::move(pattern); p.default_value = std::move(dv); return p; }
    WiringArg d_ts_arg(const TSValueTypeMetaData *schema) { WiringArg a; a.kind = WiringArg::Kind::TimeSeries; a.port.schema = schema; return a; }
    WiringArg d_int_arg(Int v, std::string name = {}) { WiringArg a; a.kind = WiringArg::Kind::Scalar; a.scalar_value = Value{v}; a.scalar_meta = a.scalar_value.schema(); a.name = std::move(name); return a; }
    std::vector<DCand> defaults_pool()
    {
        const auto *ts_int = ts_type<TS<Int>>(); const auto *ts_str = ts_type<TS<Str>>();
        const ScalarPattern int_p = ScalarPattern::concrete(scalar_type<Int>());
        return {
            {"unary(ts)", {d_in("ts", TypePattern::concrete(ts_int))}},
            {"plain(ts,k)", {d_in("ts", TypePattern::concrete(ts_int)), d_scalar("k", int_p)}},
            {"defaulted(ts,k=3)", {d_in("ts", TypePattern::concrete(ts_int)), d_scalar("k", int_p, Value{Int{3}})}},
            {"generic(S,k=3)", {d_in("ts", TypePattern::var("S")), d_scalar("k", int_p, Value{Int{3}})}},
            {"flags(ts,a=1,b=2)", {d_in("ts", TypePattern::concrete(ts_int)), d_scalar("a", int_p, Value{Int{1}}), d_scalar("b", int_p, Value{Int{2}})}},
            {"pair(ts,a,b)", {d_in("ts", TypePattern::concrete(ts_int)), d_scalar("a", int_p), d_scalar("b", int_p)}},
            {"promote(ts,a:ts,b)", {d_in("ts", TypePattern::concrete(ts_int)), d_in("a", TypePattern::concrete(ts_int)), d_scalar("b", int_p)}},
            {"strings(ts:str,k)", {d_in("ts", TypePattern::concrete(ts_str)), d_scalar("k", int_p)}},
        };
    }
    std::vector<std::vector<WiringArg>> defaults_calls()
    {
        const auto *ts_int = ts_type<TS<Int>>();
        return {{d_ts_arg(ts_int)}, {d_ts_arg(ts_int), d_int_arg(Int{5})}, {d_ts_arg(ts_int), d_int_arg(Int{5}, "k")}, {d_ts_arg(ts_int), d_int_arg(Int{7}), d_int_arg(Int{8})},
                {d_ts_arg(ts_int), d_int_arg(Int{7}, "a")}, {d_ts_arg(ts_int), d_int_arg(Int{8}, "b")}};
    }
    // desc: D|<family indices as digits>|<call index>
    std::optional<std::string> run_defaults_case(const std::string &desc, std::string *sig = nullptr, bool *nontrivial = nullptr)
    {
        const auto bar = desc.find('|', 2);
        std::vector<int> fam; for (char ch : desc.substr(2, bar - 2)) fam.push_back(ch - '0');
        const auto pool = defaults_pool();
        const auto call = defaults_calls().at(static_cast<std::size_t>(std::stoi(desc.substr(bar + 1))));
        std::sort(fam.begin(), fam.end());
        std::map<std::string, std::string> by_order;
        static int unique = 0;
        do
        {
            const std::string op = "c19_defaults_" + std::to_string(unique++);
            std::string key;
            for (int i : fam)
            {
                OperatorImpl impl; impl.name = op; impl.label = pool[static_cast<std::size_t>(i)].label; impl.params = pool[static_cast<std::size_t>(i)].params;
                impl.rank = operator_dispatch_detail::operator_rank(impl.params, impl.variadic);
                OperatorRegistry::instance().register_overload(std::move(impl));
                key += (key.empty() ? "" : ", ") + pool[static_cast<std::size_t>(i)].label;
            }
            std::string got;
            try { got = "selected " + OperatorRegistry::instance().resolve(op, std::span<const WiringArg>{call}, false).impl->label; }
            catch (const OperatorResolutionError &e) { const std::string w = e.what(); got = w.find("mbiguous") != std::string::npos ? "ambiguous" : "no match"; }
            by_order[key] = got;
        } while (std::next_permutation(fam.begin(), fam.end()));
        std::set<std::string> distinct; for (auto &[k, v] : by_order) distinct.insert(v);
        if (sig) *sig = desc.substr(0, bar) + ":" + *distinct.begin();
        if (nontrivial) *nontrivial = fam.size() >= 2 && distinct.begin()->rfind("no match", 0) != 0;
        if (distinct.size() == 1) return std::nullopt;
        std::string text = "the outcome depends on the registration order:";
        for (auto &[k, v] : by_order) text += "\n    registered [" + k + "] -> " + v;
        return text;
    }
}

std::optional<std::string> verif_run_case(verif::Ctx &, const std::string &desc) { return desc.rfind("D|", 0) == 0 ? run_defaults_case(desc) : run_family_case(desc); }

void enumerate_variadic(verif::Ctx &ctx);
void enumerate_bundles(verif::Ctx &ctx);
void enumerate_depth(verif::Ctx &ctx);
void verif_enumerate(verif::Ctx &ctx)
{
    // defaults pool: every family of 1..3 (4) candidates x every call form; all registration orders inside run_defaults_case
    {
        const int n = static_cast<int>(defaults_pool().size()), ncalls = static_cast<int>(defaults_calls().size());
        for (int mask = 1; mask < (1 << n); ++mask)
        {
            if (__builtin_popcount(static_cast<unsigned>(mask)) > (ctx.thorough() ? 4 : 3)) continue;
            std::string fam; for (int i = 0; i < n; ++i) if (mask & (1 << i)) fam += static_cast<char>('0' + i);
            for (int c = 0; c < ncalls; ++c)
            {
                if (!ctx.next_is_mine()) continue;
                const std::string desc = "D|" + fam + "|" + std::to_string(c);
                std::string sig; bool nt = false;
                ++ctx.evaluations; ++ctx.traces;
                auto v = run_defaults_case(desc, &sig, &nt);
                ctx.state(sig); if (nt) ctx.nontriv(desc); ctx.count("defaults_cases");
                if (v) ctx.violation(desc, *v, "defaults: registration order decides " + desc);
            }
        }
    }
    const bool th = ctx.thorough();
    const int max_family = th ? 5 : 4;
    const std::size_t nargs = arg_types().size();
    for (int arity = 1; arity <= 2; ++arity)
    {
        const std::size_t n = (arity == 1 ? candidates1() : candidates2()).size();
        std::vector<std::vector<int>> families;
        std::function<void(std::vector<int> &, std::size_t)> rec = [&](std::vector<int> &cur, std::size_t start) {
            if (!cur.empty()) families.push_back(cur);
            if (static_cast<int>(cur.size()) == max_family) return;
            for (std::size_t i = start; i < n; ++i) { cur.push_back(static_cast<int>(i)); rec(cur, i + 1); cur.pop_back(); }
        };
        std::vector<int> cur;
        rec(cur, 0);
        for (auto &fam : families)
        {
            std::string fs; for (std::size_t i = 0; i < fam.size(); ++i) fs += (i ? "," : "") + std::to_string(fam[i]);
            for (std::size_t a0 = 0; a0 < nargs; ++a0)
                for (std::size_t a1 = 0; a1 < (arity == 2 ? nargs : 1); ++a1)
                {
                  for (int hint : {0, 2, 3})
                  {
                    if (hint != 0)
                    {
                        // size hints only matter for families with a size-variable candidate and list arguments
                        bool sized = false;
                        const auto pool = arity == 1 ? candidates1() : candidates2();
                        for (int ci : fam) if (!first_size_var(pool[static_cast<std::size_t>(ci)]).empty()) sized = true;
                        if (!sized || arg_types()[a0].k != "tsl") continue;
                    }
                    if (!ctx.next_is_mine()) continue;
                    const std::string desc = std::to_string(arity) + "|" + fs + "|" + std::to_string(a0) + (arity == 2 ? "," + std::to_string(a1) : std::string{}) + (hint ? "|h" + std::to_string(hint) : std::string{});
                    ++ctx.evaluations;
                    std::string sig; bool nt = false; std::uint64_t resolves = 0;
                    auto v = run_family_case(desc, &sig, &nt, &resolves);
                    ctx.transitions += resolves;
                    ctx.traces += resolves;
                    ctx.state(std::to_string(arity) + "|" + fs + "|" + sig);
                    if (nt) ctx.nontriv(desc);
                    ctx.count("families_arity" + std::to_string(arity));
                    if (v)
                    {
                        auto v2 = run_family_case(desc);
                        if (!v2 || *v2 != *v) throw verif::HarnessError("case not reproducible: " + desc);
                        ctx.violation(desc, *v, v->substr(v->find("] ") == std::string::npos ? 0 : v->find("] ") + 2, 60));
                    }
                    else if (ctx.evaluations % 9973 == 1) ctx.sample("cases", desc + " => " + sig);
                    if (hint) ctx.count("cases_with_size_hint");
                  }
                }
        }
    }
    enumerate_variadic(ctx);
    enumerate_bundles(ctx);
    enumerate_depth(ctx);
}

void enumerate_variadic(verif::Ctx &ctx)
{
    const bool th = ctx.thorough();
    const int max_family = th ? 4 : 3;
    const int max_args = th ? 4 : 3;
    const std::size_t n = candidatesV().size(), na = arg_typesV().size();
    std::vector<std::vector<int>> families;
    std::function<void(std::vector<int> &, std::size_t)> rec = [&](std::vector<int> &cur, std::size_t start) {
        if (!cur.empty()) families.push_back(cur);
        if (static_cast<int>(cur.size()) == max_family) return;
        for (std::size_t i = start; i < n; ++i) { cur.push_back(static_cast<int>(i)); rec(cur, i + 1); cur.pop_back(); }
    };
    std::vector<int> cur;
    rec(cur, 0);
    std::vector<std::string> tuples;
    std::function<void(std::string, int)> recA = [&](std::string t, int len) {
        if (len > 0) tuples.push_back(t);
        if (len == max_args) return;
        for (std::size_t a = 0; a < na; ++a) recA(t + (len ? "," : "") + std::to_string(a), len + 1);
    };
    recA("", 0);
    for (auto &fam : families)
    {
        std::string fs; for (std::size_t i = 0; i < fam.size(); ++i) fs += (i ? "," : "") + std::to_string(fam[i]);
        for (auto &tu : tuples)
        {
            if (!ctx.next_is_mine()) continue;
            const std::string desc = "3|" + fs + "|" + tu;
            ++ctx.evaluations;
            std::string sig; bool nt = false; std::uint64_t resolves = 0;
            auto v = run_family_case(desc, &sig, &nt, &resolves);
            ctx.transitions += resolves; ctx.traces += resolves;
            ctx.state("3|" + fs + "|" + sig);
            if (nt) ctx.nontriv(desc);
            ctx.count("families_variadic");
            if (sig.rfind("W:", 0) == 0 && tu.find(',') != std::string::npos) ctx.count("variadic_resolved_with_tail");
            if (v)
            {
                auto v2 = run_family_case(desc);
                if (!v2 || *v2 != *v) throw verif::HarnessError("case not reproducible: " + desc);
                ctx.violation(desc, *v, "variadic: " + v->substr(v->find("] ") == std::string::npos ? 0 : v->find("] ") + 2, 60));
            }
            else if (ctx.evaluations % 9973 == 1) ctx.sample("cases", desc + " => " + sig);
        }
    }
}

void enumerate_depth(verif::Ctx &ctx)
{
    const std::size_t n = candidatesD(false).size(), na = arg_typesV().size();
    std::vector<std::vector<int>> families;
    std::function<void(std::vector<int> &, std::size_t)> rec = [&](std::vector<int> &cur, std::size_t start) {
        if (!cur.empty()) families.push_back(cur);
        if (cur.size() == 3) return;
        for (std::size_t i = start; i < n; ++i) { cur.push_back(static_cast<int>(i)); rec(cur, i + 1); cur.pop_back(); }
    };
    std::vector<int> cur;
    rec(cur, 0);
    for (auto &fam : families)
    {
        std::string fs; for (std::size_t i = 0; i < fam.size(); ++i) fs += (i ? "," : "") + std::to_string(fam[i]);
        for (std::size_t a0 = 0; a0 < na; ++a0) for (std::size_t a1 = 0; a1 < na; ++a1)
        {
            if (!ctx.next_is_mine()) continue;
            const std::string d5 = "5|" + fs + "|" + std::to_string(a0) + "," + std::to_string(a1);
            const std::string d6 = "6|" + fs + "|" + std::to_string(a1) + "," + std::to_string(a0);
            std::string sig5, sig6;
            for (int pass = 0; pass < 2; ++pass)
            {
                const std::string &desc = pass == 0 ? d5 : d6;
                ++ctx.evaluations;
                bool nt = false; std::uint64_t resolves = 0;
                auto v = run_family_case(desc, pass == 0 ? &sig5 : &sig6, &nt, &resolves);
                ctx.transitions += resolves; ctx.traces += resolves;
                ctx.state(desc.substr(0, 1) + "|" + fs + "|" + (pass == 0 ? sig5 : sig6));
                if (nt) ctx.nontriv(desc);
                ctx.count("families_depth");
                if (v)
                {
                    auto v2 = run_family_case(desc);
                    if (!v2 || *v2 != *v) throw verif::HarnessError("case not reproducible: " + desc);
                    ctx.violation(desc, *v, "depth: " + v->substr(v->find("] ") == std::string::npos ? 0 : v->find("] ") + 2, 60));
                }
            }
            std::string m6 = sig6;
            m6.erase(std::remove(m6.begin(), m6.end(), '~'), m6.end());
            if (sig5 != m6)
                ctx.violation(d5, "the family resolves to " + sig5 + " but the same candidates with their two parameters (and the arguments) exchanged resolve to " + sig6 + " (" + d6 + "): specificity depends on the order in which parameters are listed",
                              "depth: outcome changes when parameters are listed in the other order");
        }
    }
}

void enumerate_bundles(verif::Ctx &ctx)
{
    const bool th = ctx.thorough();
    const int max_family = th ? 4 : 3;
    const std::size_t n = candidatesB().size(), na = arg_typesB().size();
    std::vector<std::vector<int>> families;
    std::function<void(std::vector<int> &, std::size_t)> rec = [&](std::vector<int> &cur, std::size_t start) {
        if (!cur.empty()) families.push_back(cur);
        if (static_cast<int>(cur.size()) == max_family) return;
        for (std::size_t i = start; i < n; ++i) { cur.push_back(static_cast<int>(i)); rec(cur, i + 1); cur.pop_back(); }
    };
    std::vector<int> cur;
    rec(cur, 0);
    for (auto &fam : families)
    {
        std::string fs; for (std::size_t i = 0; i < fam.size(); ++i) fs += (i ? "," : "") + std::to_string(fam[i]);
        for (std::size_t a0 = 0; a0 < na; ++a0) for (std::size_t a1 = 0; a1 < na; ++a1)
        {
            if (!ctx.next_is_mine()) continue;
            const std::string desc = "4|" + fs + "|" + std::to_string(a0) + "," + std::to_string(a1);
            ++ctx.evaluations;
            std::string sig; bool nt = false; std::uint64_t resolves = 0;
            auto v = run_family_case(desc, &sig, &nt, &resolves);
            ctx.transitions += resolves; ctx.traces += resolves;
            ctx.state("4|" + fs + "|" + sig);
            if (nt) ctx.nontriv(desc);
            ctx.count("families_bundle_inheritance");
            if (v)
            {
                auto v2 = run_family_case(desc);
                if (!v2 || *v2 != *v) throw verif::HarnessError("case not reproducible: " + desc);
                ctx.violation(desc, *v, "bundles: " + v->substr(v->find("] ") == std::string::npos ? 0 : v->find("] ") + 2, 60));
            }
            else if (ctx.evaluations % 997 == 1) ctx.sample("cases", desc + " => " + sig);
        }
    }
}

VERIF_MAIN()
