// GRAPH-X shared library: a small program IR wired through the real DSL, instrumented vocabulary nodes,
// lifecycle-observer monitors and a per-cycle reference interpreter.
#pragma once
#include "vpch.h"
#include "vcommon.h"

namespace gx
{
    using namespace hgraph;

    // ------------------------------------------------------------------------------------------------------
    // IR
    // ------------------------------------------------------------------------------------------------------
    enum Kind : char
    {
        SRC = 's',   // replay TS<Int> source (tick mask per history)
        BSRC = 'c',  // replay TS<Bool> source (tick mask + value mask)
        F1 = 'f',    // out = a*3 + k
        F2 = 'g',    // out = a*7 + b*13 + k       (both inputs must be valid)
        F3 = 'h',    // out = a*5 + b*11 + c*17 + k (all inputs must be valid)
        ACC = 'a',   // stateful: out = sum of a's ticks
        SUML = 'l',  // to_tsl(a,b) structural source read by a TSL reader node: out = sum (i+2)*elem over valid elems
        SUMB = 'b',  // to_tsb(a,b) structural source read by a TSB reader node
        SUM3 = 'L',  // to_tsl(a,b,c): a three-element structural source (adjacent elements may come from ONE producer)
        ITE = 'i',   // stdlib::if_then_else(c, a, b) (REF output) — consumers read through the reference
        NEST = 'n',  // nested_<GxSub>(a, b, body)
        INL = 'm',   // wire<GxSub>(a, b, body)   (inlined)
        TICK = 't',  // self-scheduling source: k = period*16 + count ; emits count values period apart from start
        USRC = 'u',  // scripted self-scheduling TS<Int> source: ticks exactly at the cycles of its history mask (no other wake-ups)
        ARG = 'p',   // (bodies only) pass-through of boundary input in[0] (0 = a, 1 = b)
    };

    struct Stmt
    {
        Kind kind{SRC};
        int in[3]{-1, -1, -1};  // statement indices; inside a body: -1 = boundary a, -2 = boundary b (encoded as 'A','B')
        int k{0};               // scalar / body id
        int id{-1};             // logging id; -1 = derive from position
        unsigned pmask{0};      // bit j set = input j is wired through the passive(port) marker
    };

    struct Program
    {
        std::vector<Stmt> st;    // in canonical (dependency) order: inputs refer to lower indices
        std::vector<int> order;  // insertion order (permutation of indices); empty = identity
    };

    inline int n_inputs(Kind k)
    {
        switch (k)
        {
            case SRC: case BSRC: case TICK: case USRC: return 0;
            case F1: case ACC: case ARG: return 1;
            case F2: case SUML: case SUMB: case NEST: case INL: return 2;
            case ITE: case F3: case SUM3: return 3;
        }
        return 0;
    }
    inline bool is_bool_kind(Kind k) { return k == BSRC; }

    // text form:  <kind><in,in,..>[k<scalar>] separated by ';' , optional '@' order list.   inputs: number, or A / B.
    inline std::string to_text(const Program &p)
    {
        std::ostringstream o;
        for (std::size_t i = 0; i < p.st.size(); ++i)
        {
            const Stmt &s = p.st[i];
            if (i) o << ";";
            o << static_cast<char>(s.kind);
            for (int j = 0; j < n_inputs(s.kind); ++j)
            {
                if (j) o << ",";
                if (s.in[j] == -1) o << "A"; else if (s.in[j] == -2) o << "B"; else o << s.in[j];
            }
            if (s.k != 0) o << "k" << s.k;
            if (s.pmask != 0) o << "q" << s.pmask;
            if (s.id >= 0) o << "j" << s.id;
        }
        if (!p.order.empty())
        {
            o << "@";
            for (std::size_t i = 0; i < p.order.size(); ++i) o << (i ? "," : "") << p.order[i];
        }
        return o.str();
    }

    inline Program parse_program(const std::string &text)
    {
        Program p;
        std::string body = text, ord;
        if (auto at = text.find('@'); at != std::string::npos) { body = text.substr(0, at); ord = text.substr(at + 1); }
        std::size_t i = 0;
        auto parse_stmt = [&](const std::string &t) {
            Stmt s;
            s.kind = static_cast<Kind>(t.at(0));
            std::size_t j = 1;
            int ni = 0;
            while (j < t.size() && t[j] != 'k' && t[j] != 'j' && t[j] != 'q')
            {
                if (t[j] == ',') { ++j; continue; }
                if (t[j] == 'A') { s.in[ni++] = -1; ++j; continue; }
                if (t[j] == 'B') { s.in[ni++] = -2; ++j; continue; }
                std::size_t e = j;
                while (e < t.size() && std::isdigit(static_cast<unsigned char>(t[e]))) ++e;
                s.in[ni++] = std::stoi(t.substr(j, e - j));
                j = e;
            }
            if (j < t.size() && t[j] == 'k')
            {
                std::size_t e = j + 1;
                if (e < t.size() && t[e] == '-') ++e;
                while (e < t.size() && std::isdigit(static_cast<unsigned char>(t[e]))) ++e;
                s.k = std::stoi(t.substr(j + 1, e - j - 1));
                j = e;
            }
            if (j < t.size() && t[j] == 'q')
            {
                std::size_t e = j + 1;
                while (e < t.size() && std::isdigit(static_cast<unsigned char>(t[e]))) ++e;
                s.pmask = static_cast<unsigned>(std::stoul(t.substr(j + 1, e - j - 1)));
                j = e;
            }
            if (j < t.size() && t[j] == 'j') s.id = std::stoi(t.substr(j + 1));
            p.st.push_back(s);
        };
        std::string cur;
        for (char c : body) { if (c == ';') { parse_stmt(cur); cur.clear(); } else cur += c; }
        if (!cur.empty()) parse_stmt(cur);
        cur.clear();
        for (char c : ord) { if (c == ',') { p.order.push_back(std::stoi(cur)); cur.clear(); } else cur += c; }
        if (!cur.empty()) p.order.push_back(std::stoi(cur));
        (void)i;
        return p;
    }

    // ------------------------------------------------------------------------------------------------------
    // Run context: logs filled by instrumented nodes and the observer
    // ------------------------------------------------------------------------------------------------------
    struct Rec
    {
        long id{0};
        long t{0};
        int n{0};
        long v[3]{0, 0, 0};
        bool mod[3]{false, false, false};
        bool valid[3]{false, false, false};
        long out{0};
        bool operator==(const Rec &o) const
        {
            if (id != o.id || t != o.t || n != o.n || out != o.out) return false;
            for (int i = 0; i < n; ++i)
            {
                if (valid[i] != o.valid[i]) return false;
                // the modified flag of an input that holds no value is outside what these checks compare (see DESIGN.md, C04 notes)
                if (valid[i] && (v[i] != o.v[i] || mod[i] != o.mod[i])) return false;
            }
            return true;
        }
        bool operator<(const Rec &o) const { return std::tie(t, id, out, v[0], v[1], v[2]) < std::tie(o.t, o.id, o.out, o.v[0], o.v[1], o.v[2]); }
        std::string str() const
        {
            std::ostringstream o;
            o << "{id=" << id << " t=" << t << " in=[";
            for (int i = 0; i < n; ++i) o << (i ? " " : "") << (valid[i] ? std::to_string(v[i]) : std::string{"-"}) << (mod[i] ? "*" : "");
            o << "] out=" << out << "}";
            return o.str();
        }
    };

    struct RunLog
    {
        std::vector<Rec> evals;
        std::vector<long> root_cycles;
        std::vector<long> root_next;  // next_scheduled_time() of the root graph observed after each cycle (LONG_MAX = none)
        std::string monitor_error;  // first violation found by the lifecycle monitor
        void clear() { evals.clear(); root_cycles.clear(); root_next.clear(); monitor_error.clear(); }
    };
    inline RunLog *g_log = nullptr;
    inline std::vector<Program> &bodies() { static std::vector<Program> b; return b; }

    inline long &run_origin() { static long o = 0; return o; }  // start time offset (cycles are relative to the run's start)
    inline long rel(DateTime t) { return t >= MAX_DT ? LONG_MAX : static_cast<long>((t - MIN_ST).count()) - run_origin(); }

    template <typename InT>
    inline void rd(Rec &r, int i, const InT &in)
    {
        r.valid[i] = in.valid();
        r.mod[i] = in.modified();
        r.v[i] = r.valid[i] ? static_cast<long>(in.value()) : 0;
    }
    inline void push(const Rec &r) { if (g_log) g_log->evals.push_back(r); }

    // ------------------------------------------------------------------------------------------------------
    // Vocabulary nodes
    // ------------------------------------------------------------------------------------------------------
    struct NF1
    {
        static constexpr auto name = "gx_f1";
        static void eval(In<"a", TS<Int>> a, Scalar<"k", Int> k, Scalar<"id", Int> id, DateTime now, Out<TS<Int>> out)
        {
            Rec r; r.id = id.value(); r.t = rel(now); r.n = 1; rd(r, 0, a);
            r.out = r.v[0] * 3 + k.value();
            push(r);
            out.set(Int{r.out});
        }
    };
    struct NF2
    {
        static constexpr auto name = "gx_f2";
        static void eval(In<"a", TS<Int>> a, In<"b", TS<Int>> b, Scalar<"k", Int> k, Scalar<"id", Int> id, DateTime now, Out<TS<Int>> out)
        {
            Rec r; r.id = id.value(); r.t = rel(now); r.n = 2; rd(r, 0, a); rd(r, 1, b);
            r.out = r.v[0] * 7 + r.v[1] * 13 + k.value();
            push(r);
            out.set(Int{r.out});
        }
    };
    struct NF3
    {
        static constexpr auto name = "gx_f3";
        static void eval(In<"a", TS<Int>> a, In<"b", TS<Int>> b, In<"c", TS<Int>> c, Scalar<"k", Int> k, Scalar<"id", Int> id, DateTime now, Out<TS<Int>> out)
        {
            Rec r; r.id = id.value(); r.t = rel(now); r.n = 3; rd(r, 0, a); rd(r, 1, b); rd(r, 2, c);
            r.out = r.v[0] * 5 + r.v[1] * 11 + r.v[2] * 17 + k.value();
            push(r);
            out.set(Int{r.out});
        }
    };
    struct NAcc
    {
        static constexpr auto name = "gx_acc";
        static void start(State<Int> sum) { sum.set(Int{0}); }
        static void eval(In<"a", TS<Int>> a, Scalar<"id", Int> id, DateTime now, State<Int> sum, Out<TS<Int>> out)
        {
            Rec r; r.id = id.value(); r.t = rel(now); r.n = 1; rd(r, 0, a);
            const Int s = sum.get() + r.v[0];
            sum.set(s);
            r.out = s;
            push(r);
            out.set(s);
        }
    };
    using Pair = TSL<TS<Int>, 2>;
    using PairB = UnNamedTSB<Field<"x", TS<Int>>, Field<"y", TS<Int>>>;
    struct NSumL
    {
        static constexpr auto name = "gx_suml";
        static void eval(In<"l", Pair> l, Scalar<"id", Int> id, DateTime now, Out<TS<Int>> out)
        {
            Rec r; r.id = id.value(); r.t = rel(now); r.n = 2;
            long s = 0;
            for (int i = 0; i < 2; ++i)
            {
                auto e = l[static_cast<std::size_t>(i)];
                r.valid[i] = e.valid(); r.mod[i] = e.modified();
                r.v[i] = r.valid[i] ? static_cast<long>(e.value()) : 0;
                if (r.valid[i]) s += (i + 2) * r.v[i];
            }
            r.out = s;
            push(r);
            out.set(Int{s});
        }
    };
    using Triple = TSL<TS<Int>, 3>;
    struct NSum3
    {
        static constexpr auto name = "gx_sum3";
        static void eval(In<"l", Triple> l, Scalar<"id", Int> id, DateTime now, Out<TS<Int>> out)
        {
            Rec r; r.id = id.value(); r.t = rel(now); r.n = 3;
            long s = 0;
            for (int i = 0; i < 3; ++i)
            {
                auto e = l[static_cast<std::size_t>(i)];
                r.valid[i] = e.valid(); r.mod[i] = e.modified();
                r.v[i] = r.valid[i] ? static_cast<long>(e.value()) : 0;
                if (r.valid[i]) s += (i + 2) * r.v[i];
            }
            r.out = s;
            push(r);
            out.set(Int{s});
        }
    };
    struct NSumB
    {
        static constexpr auto name = "gx_sumb";
        static void eval(In<"b", PairB> b, Scalar<"id", Int> id, DateTime now, Out<TS<Int>> out)
        {
            Rec r; r.id = id.value(); r.t = rel(now); r.n = 2;
            long s = 0;
            for (int i = 0; i < 2; ++i)
            {
                TSInputView e = static_cast<const TSBInputView &>(b).field(i == 0 ? "x" : "y");
                r.valid[i] = e.valid(); r.mod[i] = e.modified();
                r.v[i] = r.valid[i] ? static_cast<long>(e.value().template checked_as<Int>()) : 0;
                if (r.valid[i]) s += (i + 5) * r.v[i];
            }
            r.out = s;
            push(r);
            out.set(Int{s});
        }
    };
    struct NSink
    {
        static constexpr auto name = "gx_sink";
        static void eval(In<"a", TS<Int>> a, Scalar<"id", Int> id, DateTime now)
        {
            Rec r; r.id = id.value(); r.t = rel(now); r.n = 1; rd(r, 0, a); r.out = 0;
            push(r);
        }
    };
    struct NTick
    {
        static constexpr auto name = "gx_tick";
        static constexpr bool schedule_on_start = true;
        static void start(State<Int> n) { n.set(Int{0}); }
        static void eval(NodeScheduler sched, Scalar<"pc", Int> pc, Scalar<"id", Int> id, DateTime now, State<Int> n, Out<TS<Int>> out)
        {
            const Int period = pc.value() / 16, count = pc.value() % 16;
            const Int i = n.get();
            Rec r; r.id = id.value(); r.t = rel(now); r.n = 0; r.out = 1000 * pc.value() + i;
            push(r);
            out.set(Int{r.out});
            n.set(i + 1);
            if (i + 1 < count) sched.schedule(MIN_TD * period);
        }
    };

    // masks of scripted sources, set by the harness before a run (index = statement index in the root program)
    inline std::map<long, unsigned> &usrc_masks() { static std::map<long, unsigned> m; return m; }
    struct NUSrc
    {
        static constexpr auto name = "gx_usrc";
        static long next_tick(unsigned mask, long after)
        {
            for (long c = after + 1; c < 32; ++c) if ((mask >> c) & 1u) return c;
            return -1;
        }
        static void start(NodeScheduler sched, Scalar<"idx", Int> idx)
        {
            const unsigned mask = usrc_masks()[idx.value()];
            const long first = next_tick(mask, -1);
            if (first >= 0) sched.schedule(MIN_ST + TimeDelta{run_origin() + first});
        }
        static void eval(NodeScheduler sched, Scalar<"idx", Int> idx, DateTime now, Out<TS<Int>> out)
        {
            const unsigned mask = usrc_masks()[idx.value()];
            const long c = rel(now);
            out.set(Int{100 * (c + 1) + idx.value()});
            const long nxt = next_tick(mask, c);
            if (nxt >= 0) sched.schedule(MIN_ST + TimeDelta{run_origin() + nxt});
        }
    };

    // ------------------------------------------------------------------------------------------------------
    // Wiring a program through the real DSL
    // ------------------------------------------------------------------------------------------------------
    struct PortSlot
    {
        bool wired{false};
        bool is_bool{false};
        Port<TS<Int>> ip{};
        Port<TS<Bool>> bp{};
        std::optional<DelayedBindingWiringPort<TS<Int>>> idelayed{};
        std::optional<DelayedBindingWiringPort<TS<Bool>>> bdelayed{};
    };

    struct GxSub;
    struct WireCtx
    {
        Wiring &w;
        long id_base{0};       // ids of statements are id_base + index + 1
        std::string key_prefix;
        Port<TS<Int>> arg_a{}, arg_b{};
        bool in_body{false};
    };

    inline Port<TS<Int>> wire_program(WireCtx &c, const Program &p, bool add_sinks, std::vector<long> *sink_ids = nullptr);

    struct GxSub
    {
        static constexpr auto name = "gx_sub";
        static Port<TS<Int>> compose(Wiring &w, Port<TS<Int>> a, Port<TS<Int>> b, Scalar<"body", Int> body, Scalar<"idbase", Int> idbase)
        {
            WireCtx c{w};
            c.id_base = idbase.value();
            c.key_prefix = "b" + std::to_string(idbase.value()) + "_";
            c.arg_a = a; c.arg_b = b; c.in_body = true;
            return wire_program(c, bodies().at(static_cast<std::size_t>(body.value())), false);
        }
    };

    inline Port<TS<Int>> wire_program(WireCtx &c, const Program &p, bool add_sinks, std::vector<long> *sink_ids)
    {
        const std::size_t n = p.st.size();
        std::vector<PortSlot> slots(n);
        for (std::size_t i = 0; i < n; ++i) slots[i].is_bool = is_bool_kind(p.st[i].kind);
        std::vector<int> order = p.order;
        if (order.empty()) for (std::size_t i = 0; i < n; ++i) order.push_back(static_cast<int>(i));
        auto int_port = [&](int idx) -> Port<TS<Int>> {
            if (idx == -1) return c.arg_a;
            if (idx == -2) return c.arg_b;
            PortSlot &s = slots.at(static_cast<std::size_t>(idx));
            if (s.wired) return s.ip;
            if (!s.idelayed) s.idelayed = delayed_binding<TS<Int>>(c.w);
            return (*s.idelayed)();
        };
        auto bool_port = [&](int idx) -> Port<TS<Bool>> {
            PortSlot &s = slots.at(static_cast<std::size_t>(idx));
            if (s.wired) return s.bp;
            if (!s.bdelayed) s.bdelayed = delayed_binding<TS<Bool>>(c.w);
            return (*s.bdelayed)();
        };
        for (int idx : order)
        {
            const Stmt &s = p.st.at(static_cast<std::size_t>(idx));
            const Int id = Int{s.id >= 0 ? s.id : c.id_base + idx + 1};
            PortSlot &slot = slots[static_cast<std::size_t>(idx)];
            auto ip = [&](int j) -> Port<TS<Int>> {
                Port<TS<Int>> pt = int_port(s.in[j]);
                return ((s.pmask >> j) & 1u) ? passive(pt) : pt;
            };
            switch (s.kind)
            {
                case SRC: slot.ip = wire<stdlib::replay_impl, TS<Int>>(c.w, Str{c.key_prefix + "s" + std::to_string(idx)}); break;
                case BSRC: slot.bp = wire<stdlib::replay_impl, TS<Bool>>(c.w, Str{c.key_prefix + "c" + std::to_string(idx)}); break;
                case TICK: slot.ip = wire<NTick>(c.w, Int{s.k}, id); break;
                case USRC: slot.ip = wire<NUSrc>(c.w, Int{idx}); break;
                case ARG: slot.ip = int_port(s.in[0]); break;
                case F1: slot.ip = wire<NF1>(c.w, ip(0), Int{s.k}, id); break;
                case F2: slot.ip = wire<NF2>(c.w, ip(0), ip(1), Int{s.k}, id); break;
                case F3: slot.ip = wire<NF3>(c.w, ip(0), ip(1), ip(2), Int{s.k}, id); break;
                case ACC: slot.ip = wire<NAcc>(c.w, ip(0), id); break;
                case SUML: slot.ip = wire<NSumL>(c.w, stdlib::to_tsl<Pair>(c.w, int_port(s.in[0]), int_port(s.in[1])).template as<Pair>(), id); break;
                case SUMB: slot.ip = wire<NSumB>(c.w, stdlib::to_tsb<PairB>(c.w, int_port(s.in[0]), int_port(s.in[1])), id); break;
                case SUM3: slot.ip = wire<NSum3>(c.w, stdlib::to_tsl<Triple>(c.w, int_port(s.in[0]), int_port(s.in[1]), int_port(s.in[2])).template as<Triple>(), id); break;
                case ITE: slot.ip = wire<stdlib::if_then_else>(c.w, bool_port(s.in[0]), int_port(s.in[1]), int_port(s.in[2])).template as<TS<Int>>(); break;
                case NEST: slot.ip = nested_<GxSub>(c.w, int_port(s.in[0]), int_port(s.in[1]), Int{s.k}, Int{id * 100}); break;
                case INL: slot.ip = wire<GxSub>(c.w, int_port(s.in[0]), int_port(s.in[1]), Int{s.k}, Int{id * 100}); break;
            }
            slot.wired = true;
            if (slot.idelayed) (*slot.idelayed)(slot.ip);
            if (slot.bdelayed) (*slot.bdelayed)(slot.bp);
        }
        if (add_sinks)
        {
            for (std::size_t i = 0; i < n; ++i)
            {
                if (slots[i].is_bool) continue;
                const long sid = 9000000 + (p.st[i].id >= 0 ? p.st[i].id : c.id_base + static_cast<long>(i) + 1);
                wire<NSink>(c.w, slots[i].ip, Int{sid});
                if (sink_ids) sink_ids->push_back(sid);
            }
        }
        return n ? slots[n - 1].ip : Port<TS<Int>>{};
    }

    // ------------------------------------------------------------------------------------------------------
    // Histories
    // ------------------------------------------------------------------------------------------------------
    struct History
    {
        int cycles{3};
        std::vector<unsigned> tick;  // per source statement (in program order over SRC/BSRC statements)
        std::vector<unsigned> bval;  // value mask for BSRC
    };
    inline long src_value(int stmt_idx, int cycle) { return 100 * (cycle + 1) + stmt_idx; }

    inline void seed_history(GraphBuilder &gb, const Program &p, const History &h, const std::string &key_prefix = "")
    {
        std::size_t si = 0;
        for (std::size_t i = 0; i < p.st.size(); ++i)
        {
            const Kind k = p.st[i].kind;
            if (k != SRC && k != BSRC && k != USRC) continue;
            const unsigned mask = si < h.tick.size() ? h.tick[si] : 0u;
            if (k == USRC) { usrc_masks()[static_cast<long>(i)] = mask; ++si; continue; }
            if (k == SRC)
            {
                std::vector<std::optional<Int>> seq;
                for (int c = 0; c < h.cycles; ++c) seq.push_back((mask >> c) & 1u ? std::optional<Int>{Int{src_value(static_cast<int>(i), c)}} : std::nullopt);
                while (!seq.empty() && !seq.back()) seq.pop_back();
                testing::set_replay_values<Int>(gb.global_state(), key_prefix + "s" + std::to_string(i), seq);
            }
            else
            {
                const unsigned vm = si < h.bval.size() ? h.bval[si] : 0u;
                std::vector<std::optional<Bool>> seq;
                for (int c = 0; c < h.cycles; ++c) seq.push_back((mask >> c) & 1u ? std::optional<Bool>{Bool{((vm >> c) & 1u) != 0}} : std::nullopt);
                while (!seq.empty() && !seq.back()) seq.pop_back();
                testing::set_replay_values<Bool>(gb.global_state(), key_prefix + "c" + std::to_string(i), seq);
            }
            ++si;
        }
    }

    // ------------------------------------------------------------------------------------------------------
    // Reference interpreter (per-cycle, topological = canonical statement order)
    // ------------------------------------------------------------------------------------------------------
    struct RState
    {
        bool valid{false};
        bool mod{false};
        long v{0};
        // ITE bookkeeping
        int sel{-1};
        // ACC / TICK state
        long acc{0};
        long emitted{0};
        long next_tick{0};
        bool armed{false};
        std::vector<RState> sub;  // body states for NEST/INL
    };

    struct RefCtx
    {
        std::vector<Rec> *out;
        const History *h;
    };

    struct RIn { bool valid, mod; long v; };

    inline void ref_init(const Program &p, std::vector<RState> &st)
    {
        st.assign(p.st.size(), RState{});
        for (std::size_t i = 0; i < p.st.size(); ++i)
        {
            const Stmt &s = p.st[i];
            if (s.kind == TICK) { st[i].armed = (s.k % 16) > 0; st[i].next_tick = 0; }
            if (s.kind == NEST || s.kind == INL) ref_init(bodies().at(static_cast<std::size_t>(s.k)), st[i].sub);
        }
    }

    /** Earliest pending self-scheduled time at or after `from` (LONG_MAX = none). */
    inline long ref_next_timer(const Program &p, const std::vector<RState> &st)
    {
        long best = LONG_MAX;
        for (std::size_t i = 0; i < p.st.size(); ++i)
        {
            if (p.st[i].kind == TICK && st[i].armed) best = std::min(best, st[i].next_tick);
            if (p.st[i].kind == NEST || p.st[i].kind == INL) best = std::min(best, ref_next_timer(bodies().at(static_cast<std::size_t>(p.st[i].k)), st[i].sub));
        }
        return best;
    }

    /** Evaluate one cycle t. Returns the state of the program's last statement via st. */
    inline void ref_cycle(const Program &p, std::vector<RState> &st, long t, long id_base, RIn a, RIn b, const History *h, std::vector<Rec> &out,
                          int *src_counter)
    {
        for (auto &s : st) s.mod = false;
        auto in_of = [&](int idx) -> RIn {
            if (idx == -1) return a;
            if (idx == -2) return b;
            const RState &s = st.at(static_cast<std::size_t>(idx));
            return RIn{s.valid, s.mod, s.v};
        };
        int local_src = 0;
        int &si = src_counter ? *src_counter : local_src;
        for (std::size_t i = 0; i < p.st.size(); ++i)
        {
            const Stmt &s = p.st[i];
            RState &r = st[i];
            const long id = s.id >= 0 ? s.id : id_base + static_cast<long>(i) + 1;
            auto rec_in = [&](Rec &rc, int j, RIn x) { rc.valid[j] = x.valid; rc.mod[j] = x.mod; rc.v[j] = x.valid ? x.v : 0; };
            switch (s.kind)
            {
                case SRC: case BSRC: case USRC:
                {
                    const unsigned mask = (h && static_cast<std::size_t>(si) < h->tick.size()) ? h->tick[static_cast<std::size_t>(si)] : 0u;
                    const bool tick = t >= 0 && t < (h ? h->cycles : 0) && ((mask >> t) & 1u);
                    if (tick)
                    {
                        r.valid = true; r.mod = true;
                        if (s.kind == SRC || s.kind == USRC) r.v = src_value(static_cast<int>(i), static_cast<int>(t));
                        else { const unsigned vm = static_cast<std::size_t>(si) < h->bval.size() ? h->bval[static_cast<std::size_t>(si)] : 0u; r.v = (vm >> t) & 1u; }
                    }
                    ++si;
                    break;
                }
                case TICK:
                {
                    if (r.armed && r.next_tick == t)
                    {
                        const long period = s.k / 16, count = s.k % 16;
                        Rec rc; rc.id = id; rc.t = t; rc.n = 0; rc.out = 1000 * s.k + r.emitted;
                        out.push_back(rc);
                        r.valid = true; r.mod = true; r.v = rc.out;
                        ++r.emitted;
                        if (r.emitted < count) r.next_tick = t + period; else r.armed = false;
                    }
                    break;
                }
                case ARG:
                {
                    RIn x = in_of(s.in[0]);
                    r.valid = x.valid; r.mod = x.mod; r.v = x.v;
                    break;
                }
                case F1:
                {
                    RIn x = in_of(s.in[0]);
                    if (x.mod && x.valid && !(s.pmask & 1u))
                    {
                        Rec rc; rc.id = id; rc.t = t; rc.n = 1; rec_in(rc, 0, x); rc.out = x.v * 3 + s.k;
                        out.push_back(rc);
                        r.valid = true; r.mod = true; r.v = rc.out;
                    }
                    break;
                }
                case F2:
                {
                    RIn x = in_of(s.in[0]), y = in_of(s.in[1]);
                    if (((x.mod && !(s.pmask & 1u)) || (y.mod && !(s.pmask & 2u))) && x.valid && y.valid)
                    {
                        Rec rc; rc.id = id; rc.t = t; rc.n = 2; rec_in(rc, 0, x); rec_in(rc, 1, y); rc.out = x.v * 7 + y.v * 13 + s.k;
                        out.push_back(rc);
                        r.valid = true; r.mod = true; r.v = rc.out;
                    }
                    break;
                }
                case F3:
                {
                    RIn x = in_of(s.in[0]), y = in_of(s.in[1]), z = in_of(s.in[2]);
                    if (((x.mod && !(s.pmask & 1u)) || (y.mod && !(s.pmask & 2u)) || (z.mod && !(s.pmask & 4u))) && x.valid && y.valid && z.valid)
                    {
                        Rec rc; rc.id = id; rc.t = t; rc.n = 3; rec_in(rc, 0, x); rec_in(rc, 1, y); rec_in(rc, 2, z);
                        rc.out = x.v * 5 + y.v * 11 + z.v * 17 + s.k;
                        out.push_back(rc);
                        r.valid = true; r.mod = true; r.v = rc.out;
                    }
                    break;
                }
                case ACC:
                {
                    RIn x = in_of(s.in[0]);
                    if (x.mod && x.valid && !(s.pmask & 1u))
                    {
                        r.acc += x.v;
                        Rec rc; rc.id = id; rc.t = t; rc.n = 1; rec_in(rc, 0, x); rc.out = r.acc;
                        out.push_back(rc);
                        r.valid = true; r.mod = true; r.v = r.acc;
                    }
                    break;
                }
                case SUML: case SUMB:
                {
                    RIn x = in_of(s.in[0]), y = in_of(s.in[1]);
                    if ((x.mod && x.valid) || (y.mod && y.valid))
                    {
                        const long w0 = s.kind == SUML ? 2 : 5;
                        Rec rc; rc.id = id; rc.t = t; rc.n = 2; rec_in(rc, 0, x); rec_in(rc, 1, y);
                        rc.out = (x.valid ? w0 * x.v : 0) + (y.valid ? (w0 + 1) * y.v : 0);
                        out.push_back(rc);
                        r.valid = true; r.mod = true; r.v = rc.out;
                    }
                    break;
                }
                case SUM3:
                {
                    RIn x = in_of(s.in[0]), y = in_of(s.in[1]), z = in_of(s.in[2]);
                    if ((x.mod && x.valid) || (y.mod && y.valid) || (z.mod && z.valid))
                    {
                        Rec rc; rc.id = id; rc.t = t; rc.n = 3; rec_in(rc, 0, x); rec_in(rc, 1, y); rec_in(rc, 2, z);
                        rc.out = (x.valid ? 2 * x.v : 0) + (y.valid ? 3 * y.v : 0) + (z.valid ? 4 * z.v : 0);
                        out.push_back(rc);
                        r.valid = true; r.mod = true; r.v = rc.out;
                    }
                    break;
                }
                case ITE:
                {
                    RIn c = in_of(s.in[0]);
                    const int sel = c.valid ? (c.v ? 1 : 2) : -1;
                    const bool retarget = c.mod && sel != r.sel;
                    r.sel = sel;
                    if (sel >= 0)
                    {
                        RIn x = in_of(s.in[sel]);
                        r.valid = x.valid; r.v = x.v;
                        r.mod = x.valid && (x.mod || retarget);
                    }
                    else { r.valid = false; r.mod = false; }
                    break;
                }
                case NEST: case INL:
                {
                    const Program &body = bodies().at(static_cast<std::size_t>(s.k));
                    ref_cycle(body, r.sub, t, id * 100, in_of(s.in[0]), in_of(s.in[1]), nullptr, out, nullptr);
                    const RState &last = r.sub.back();
                    r.valid = last.valid; r.mod = last.mod; r.v = last.v;
                    break;
                }
            }
        }
    }

    /** Full reference run: returns expected evaluation records (including sinks 9000+i) and cycle times. */
    inline void ref_run(const Program &p, const History &h, bool sinks, long end, std::vector<Rec> &out, std::vector<long> &cycles)
    {
        std::vector<RState> st;
        ref_init(p, st);
        long t = 0;
        while (t < end)
        {
            // does anything happen at t? sources ticking at t or timers due at t
            bool src = false;
            std::size_t si = 0;
            for (auto &s : p.st) if (s.kind == SRC || s.kind == BSRC || s.kind == USRC) { if (t < h.cycles && si < h.tick.size() && ((h.tick[si] >> t) & 1u)) src = true; ++si; }
            const long timer = ref_next_timer(p, st);
            if (!src && timer != t)
            {
                // jump to the next interesting time
                long nxt = LONG_MAX;
                for (long c = t + 1; c < h.cycles; ++c)
                {
                    std::size_t sj = 0; bool any = false;
                    for (auto &s : p.st) if (s.kind == SRC || s.kind == BSRC || s.kind == USRC) { if (sj < h.tick.size() && ((h.tick[sj] >> c) & 1u)) any = true; ++sj; }
                    if (any) { nxt = c; break; }
                }
                if (timer > t) nxt = std::min(nxt, timer);
                if (nxt == LONG_MAX) break;
                t = nxt;
                continue;
            }
            cycles.push_back(t);
            int sc = 0;
            ref_cycle(p, st, t, 0, RIn{false, false, 0}, RIn{false, false, 0}, &h, out, &sc);
            if (sinks)
                for (std::size_t i = 0; i < p.st.size(); ++i)
                {
                    if (is_bool_kind(p.st[i].kind)) continue;
                    if (st[i].mod && st[i].valid)
                    {
                        Rec rc; rc.id = 9000000 + (p.st[i].id >= 0 ? p.st[i].id : static_cast<long>(i) + 1); rc.t = t; rc.n = 1; rc.valid[0] = true; rc.mod[0] = true; rc.v[0] = st[i].v; rc.out = 0;
                        out.push_back(rc);
                    }
                }
            ++t;
        }
    }

    // ------------------------------------------------------------------------------------------------------
    // Lifecycle monitor (C01 dynamic clauses, shared by others)
    // ------------------------------------------------------------------------------------------------------
    struct Monitor : LifecycleObserver
    {
        struct Frame { const void *graph; long last_index; long t; };
        std::vector<Frame> stack;
        std::vector<const void *> node_stack;  // currently evaluating nodes (graph data ptr of owner)
        std::uint64_t node_evals{0};
        std::uint64_t nested_graph_evals{0};

        void fail(const std::string &m) { if (g_log && g_log->monitor_error.empty()) g_log->monitor_error = m; }
        void on_before_graph_evaluation(const GraphView &g) override
        {
            const long t = rel(g.evaluation_time());
            if (g.is_root()) { if (g_log) g_log->root_cycles.push_back(t); if (!stack.empty()) fail("root graph evaluation nested inside another evaluation"); }
            else
            {
                ++nested_graph_evals;
                if (stack.empty()) fail("nested graph evaluated outside any parent evaluation");
                else if (stack.back().last_index < 0) fail("nested graph evaluated while its parent graph is not inside a node evaluation");
                else if (t < stack.back().t) fail("nested graph evaluated at " + std::to_string(t) + " earlier than its parent's current time " + std::to_string(stack.back().t));
            }
            stack.push_back(Frame{g.data(), -1, t});
        }
        void on_after_graph_evaluation(const GraphView &g) override
        {
            if (stack.empty() || stack.back().graph != g.data()) { fail("unbalanced graph evaluation events"); return; }
            stack.pop_back();
            if (g.is_root() && g_log) g_log->root_next.push_back(rel(g.next_scheduled_time()));
        }
        void on_before_node_evaluation(const NodeView &n) override
        {
            ++node_evals;
            if (stack.empty()) { fail("node evaluated outside a graph evaluation"); return; }
            const long idx = static_cast<long>(n.node_index());
            Frame &f = stack.back();
            if (idx <= f.last_index)
                fail("node index " + std::to_string(idx) + " evaluated after index " + std::to_string(f.last_index) + " in the same cycle t=" + std::to_string(f.t) +
                     (idx == f.last_index ? " (evaluated twice)" : " (out of rank order)"));
            f.last_index = idx;
        }
    };

    /** Static clause: every compiled edge goes forward in rank, recursively through child graph builders. */
    struct EdgeCheck { std::string err; int depth{0}; std::uint64_t edges{0}; std::uint64_t graphs{0}; };
    inline void check_edges_into(const GraphBuilder &gb, EdgeCheck &ec);
    inline void check_edges_visit(void *ctx, ChildGraphInspectionView child)
    {
        auto &ec = *static_cast<EdgeCheck *>(ctx);
        if (child.graph == nullptr || !ec.err.empty()) return;
        ++ec.depth;
        check_edges_into(*child.graph, ec);
        --ec.depth;
    }
    inline void check_edges_into(const GraphBuilder &gb, EdgeCheck &ec)
    {
        ++ec.graphs;
        for (const GraphEdge &e : gb.edges())
        {
            ++ec.edges;
            const std::size_t src = graph_edge_source_node(e.source_node);
            if (src >= e.target_node && ec.err.empty())
            {
                std::ostringstream o;
                o << "compiled edge " << src << " -> " << e.target_node << " at nesting depth " << ec.depth << " does not go forward in rank";
                ec.err = o.str();
            }
        }
        for (const auto &nb : gb.nodes()) nb.visit_child_graphs(&ec, &check_edges_visit);
    }
    /** Static clause: every compiled edge goes forward in rank, recursively through child graph builders. */
    inline std::string check_edges(const GraphBuilder &gb, EdgeCheck *stats = nullptr)
    {
        EdgeCheck ec;
        check_edges_into(gb, ec);
        if (stats) *stats = ec;
        return ec.err;
    }
}  // namespace gx
