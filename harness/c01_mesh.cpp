// C01 (mesh part) — evaluation order among the DYNAMIC child graphs of a mesh_: an instance that reads a sibling's output through
// mesh_(f)[k] (a reference) must not be evaluated, in a cycle, before that sibling had its turn. mesh_ ranks its instances at run
// time (re_rank / add_dependency in mesh_node.cpp) as dependencies are discovered, retargeted and created on demand.
//
// Program: result[k] = val[k] + default(mesh_(f)[link[k]], 0) over val, link : TSD<Int, TS<Int>> (the ExprFn shape of the in-tree
// tests). Every history of <= L ops per cycle over T cycles from {set val[k] to a cycle-stamped value, point link[k] at j (j may be
// a key nobody supplies a value for: created on demand, result never valid)}. Oracle: at the end of EVERY cycle the mesh output must
// equal the stateless recomputation of all results from the current val / link tables - a stale operand (cycle stamps are digits)
// means an instance ran before the sibling it reads. Histories that ever close a link cycle, or that re-point a link from a target
// with a result to one without (reference retarget to an invalid target: a don't-care of C13), are not run.
#include "tsshapes.h"
#include <hgraph/lib/std/operators/impl/higher_order_impl.h>   // mesh_ref
using namespace hgraph;
using namespace tsshapes;

namespace
{
    using Table = std::map<long, long>;
    struct Run { std::vector<std::string> script; int cycles{0}; std::vector<Table> samples; };
    Run *g = nullptr;

    long stamp(long k, long c) { long p = 1; for (long i = 1; i < k; ++i) p *= 10; return (c + 1) * p; }   // key k owns decimal digit k-1

    template <char Which> struct Writer
    {
        static constexpr auto name = Which == 'v' ? "c01m_val_writer" : "c01m_link_writer";
        static constexpr bool schedule_on_start = true;
        static void eval(NodeScheduler sched, DateTime now, Out<DictI> out)
        {
            const long c = rel(now);
            if (c < g->cycles)
            {
                const std::string &ops = g->script[static_cast<std::size_t>(c)];
                if (!ops.empty())
                    for (auto &op : split(ops, ','))
                    {
                        if (op[0] != Which) continue;
                        const long k = op[1] - '0';
                        out.set(Int{k}, Int{Which == 'v' ? stamp(k, c) : static_cast<long>(op[2] - '0')});
                    }
            }
            if (c + 1 < g->cycles) sched.schedule(MIN_TD);
        }
    };
    struct ExprFn
    {
        static constexpr auto name = "c01m_expr_fn";
        static Port<TS<Int>> compose(Wiring &w, Port<TS<Int>> val, Port<TS<Int>> link)
        {
            Port<TS<Int>> dep = stdlib::mesh_ref<TS<Int>>(w, link);
            Port<TS<Int>> zero = wire<stdlib::const_, TS<Int>>(w, Int{0});
            Port<TS<Int>> base = wire<stdlib::default_>(w, dep, zero).template as<TS<Int>>();
            return wire<stdlib::add_>(w, val, base).template as<TS<Int>>();
        }
    };
    struct EveryProbe
    {
        static constexpr auto name = "c01m_every_probe";
        static constexpr bool schedule_on_start = true;
        static void eval(In<"d", DictI, InputActivity::Passive, InputValidity::Unchecked> d, NodeScheduler sched, DateTime now)
        {
            const long c = rel(now);
            Table t;
            if (d.valid()) for (auto &&[key, child] : d.valid_items()) t[static_cast<long>(key.template checked_as<Int>())] = static_cast<long>(child.value());
            g->samples.push_back(std::move(t));
            if (c + 1 < g->cycles + 1) sched.schedule(MIN_TD);
        }
    };

    std::optional<long> model_result(long key, const Table &val, const Table &link, int depth = 0)
    {
        if (depth > 16) return std::nullopt;
        auto v = val.find(key);
        if (v == val.end()) return std::nullopt;
        long base = 0;
        if (auto l = link.find(key); l != link.end())
            if (auto dep = model_result(l->second, val, link, depth + 1)) base = *dep;
        return v->second + base;
    }
    bool has_cycle(const Table &link)
    {
        for (auto &[k, _] : link)
        {
            long cur = k; int steps = 0;
            while (link.count(cur) && steps++ < 12) { cur = link.at(cur); if (cur == k) return true; }
        }
        return false;
    }
    std::string show(const Table &t) { std::string s = "{"; for (auto &[k, v] : t) s += (s.size() > 1 ? ", " : "") + std::to_string(k) + ":" + std::to_string(v); return s + "}"; }

    // Returns false when the history is outside the checked space (link cycle, or a link re-pointed from a target with a result to one without).
    bool admissible(const std::vector<std::string> &script, std::vector<Table> *expected, bool *nontrivial)
    {
        Table val, link;
        bool chain2 = false, retarget = false;
        std::vector<std::pair<long, long>> transient;
        for (std::size_t c = 0; c < script.size() + 1; ++c)
        {
            if (c < script.size() && !script[c].empty())
            {
                // all val writes of the cycle are visible to the cycle's link changes (both writers run before the mesh)
                for (auto &op : split(script[c], ',')) if (op[0] == 'v') val[op[1] - '0'] = stamp(op[1] - '0', static_cast<long>(c));
                for (auto &op : split(script[c], ','))
                    if (op[0] == 'l')
                    {
                        const long k = op[1] - '0', j = op[2] - '0';
                        if (link.count(k) && link[k] != j)
                        {
                            retarget = true;
                            Table after = link; after[k] = j;
                            if (has_cycle(after)) return false;
                            transient.emplace_back(k, link[k]);   // the old edge may still be in place when another edge of this cycle is discovered
                            if (model_result(link[k], val, link).has_value() && !model_result(j, val, after).has_value()) return false;
                        }
                        link[k] = j;
                    }
                if (has_cycle(link)) return false;
                // link changes of one cycle reach the mesh one instance at a time: a cycle through an edge that is being replaced in this
                // very cycle can be seen transiently (mesh_ then raises its dependency-cycle error) - outside the statement, not run
                for (auto &[k, old_target] : transient)
                {
                    std::set<long> seen{k}; long cur = old_target; int steps = 0;
                    while (steps++ < 12) { if (cur == k) return false; if (!link.count(cur)) break; cur = link.at(cur); }
                }
                transient.clear();
            }
            Table want;
            std::set<long> keys;
            for (auto &[k, _] : val) keys.insert(k);
            for (auto &[k, t] : link) { keys.insert(k); keys.insert(t); }
            for (long k : keys) if (auto r = model_result(k, val, link)) want[k] = *r;
            for (auto &[k, j] : link) if (link.count(j) && val.count(k) && val.count(j)) chain2 = true;
            if (expected) expected->push_back(std::move(want));
        }
        if (nontrivial) *nontrivial = chain2 && retarget;
        return true;
    }

    struct Outcome { std::optional<std::string> violation; std::string sig; bool nontrivial{false}; };
    Outcome run_desc(const std::string &desc)
    {
        Outcome out;
        Run run; run.script = split(desc, ';'); run.cycles = static_cast<int>(run.script.size());
        std::vector<Table> expected;
        if (!admissible(run.script, &expected, &out.nontrivial)) throw verif::HarnessError("history outside the checked space: " + desc);
        std::string exc;
        g = &run;
        try
        {
            Wiring w;
            auto mesh = wire<stdlib::mesh_>(w, fn<ExprFn>(), wire<Writer<'v'>>(w), wire<Writer<'l'>>(w)).template as<DictI>();
            wire<EveryProbe>(w, mesh);
            GraphBuilder gb = std::move(w).finish();
            GraphExecutorBuilder eb;
            eb.graph_builder(std::move(gb)).start_time(MIN_ST).end_time(MIN_ST + TimeDelta{run.cycles + 2});
            auto ex = eb.make_executor();
            ex.view().run();
        }
        catch (const std::exception &e) { exc = e.what(); }
        g = nullptr;
        if (!exc.empty()) { out.violation = "run threw: " + exc; return out; }
        if (run.samples.size() != expected.size()) throw verif::HarnessError("probe did not sample every cycle");
        std::ostringstream sig;
        for (std::size_t c = 0; c < expected.size(); ++c)
        {
            sig << show(run.samples[c]) << ";";
            if (!out.violation && run.samples[c] != expected[c])
                out.violation = "cycle " + std::to_string(c) + ": mesh output " + show(run.samples[c]) + " but recomputing every instance from the current inputs gives " + show(expected[c]) +
                                " (a digit that lags behind = an instance ran before the sibling it reads, or was not run after it)";
        }
        out.sig = sig.str();
        return out;
    }

    void gen_lists(const std::vector<std::string> &alphabet, int max_len, std::vector<std::string> &out)
    {
        out.push_back("");
        std::vector<std::string> prev = {""};
        for (int l = 1; l <= max_len; ++l)
        {
            std::vector<std::string> next;
            for (auto &p : prev) for (auto &a : alphabet) { if (!p.empty() && p.substr(p.rfind(',') == std::string::npos ? 0 : p.rfind(',') + 1) >= a) continue; next.push_back(p.empty() ? a : p + "," + a); }   // ops of one cycle are an unordered set
            for (auto &n : next) out.push_back(n);
            prev.swap(next);
        }
    }
}  // namespace

void verif_init() { stdlib::register_standard_operators(); }
std::optional<std::string> verif_run_case(verif::Ctx &, const std::string &desc) { return run_desc(desc).violation; }

void verif_enumerate(verif::Ctx &ctx)
{
    const bool th = ctx.thorough();
    struct Space { std::vector<std::string> alphabet; int max_len; int cycles; };
    std::vector<Space> spaces = {
        {{"l12", "l13", "l19", "l21", "l23", "l29", "l31", "l32", "v1", "v2", "v3"}, 1, th ? 6 : 5},
        {{"l12", "l13", "l21", "l23", "l29", "v1", "v2", "v3"}, 2, th ? 4 : 3},
        {{"l12", "l23", "l29", "l39", "v1", "v2", "v3"}, 3, th ? 3 : 2},
    };
    for (auto &sp : spaces)
    {
        std::vector<std::string> lists;
        gen_lists(sp.alphabet, sp.max_len, lists);
        std::vector<int> idx(static_cast<std::size_t>(sp.cycles), 0);
        while (true)
        {
            std::string body;
            std::vector<std::string> script;
            for (int c = 0; c < sp.cycles; ++c) { script.push_back(lists[static_cast<std::size_t>(idx[static_cast<std::size_t>(c)])]); body += (c ? ";" : "") + script.back(); }
            if (admissible(script, nullptr, nullptr) && ctx.next_is_mine())
            {
                ++ctx.evaluations; ++ctx.traces;
                Outcome o = run_desc(body);
                ctx.transitions += static_cast<std::uint64_t>(sp.cycles);
                ctx.state(o.sig);
                if (o.nontrivial) ctx.nontriv(body);
                ctx.count("mesh_cases");
                if (o.violation)
                {
                    Outcome o2 = run_desc(body);
                    if (!o2.violation || *o2.violation != *o.violation) throw verif::HarnessError("case not reproducible: " + body);
                    ctx.violation(body, *o.violation, "mesh: " + o.violation->substr(o.violation->find(':') + 2, 40));
                }
                else if (ctx.evaluations % 9973 == 1) ctx.sample("cases", body);
            }
            int p = 0;
            while (p < sp.cycles && ++idx[static_cast<std::size_t>(p)] == static_cast<int>(lists.size())) { idx[static_cast<std::size_t>(p)] = 0; ++p; }
            if (p == sp.cycles) break;
        }
    }
}

VERIF_MAIN()
