// C06 (error-capture part) — statement order must not matter for error-output ports either.
// Dataflow:  x -> Mid -> Risky (throws on negative input), and K independent "blocks", each of which asks for the error
// time-series of Risky with ITS OWN capture options (trace depth 0/1/2, with or without input values) and reads message and
// activation back trace. The blocks either write `Risky(Mid(x))` themselves (equal sub-expressions: the wiring layer shares one
// instance) or use one common port. Blocks do not depend on each other, so every permutation of the block statements is an
// admissible order of the same dataflow: all permutations must give every block the same streams (node ids, which are ranks and
// legitimately differ between orders, are removed from the traces), an error tick exactly in the throwing cycles, with the message.
#include "vpch.h"
#include "vcommon.h"
#include "tsshapes.h"
using namespace hgraph;
using namespace hgraph::testing;

namespace
{
    using tsshapes::split;
    long rel(DateTime t) { return static_cast<long>((t - MIN_ST) / MIN_TD); }
    struct Log { std::map<int, std::vector<std::string>> by_block; std::vector<std::string> out; };
    Log *L = nullptr;

    struct Mid { static constexpr auto name = "c06e_mid"; static void eval(In<"x", TS<Int>> x, Out<TS<Int>> out) { out.set(x.value() + 1000); } };
    struct Risky
    {
        static constexpr auto name = "c06e_risky";
        static void eval(In<"x", TS<Int>> x, Out<TS<Int>> out)
        {
            if (x.value() < 1000) throw std::runtime_error("negative input " + std::to_string(static_cast<long>(x.value())));
            out.set(x.value() * 2);
        }
    };
    std::string strip_ids(const std::string &in)
    {
        std::string out;
        for (std::size_t i = 0; i < in.size(); ++i)
        {
            if (in[i] == '[')
            {
                std::size_t j = i + 1;
                while (j < in.size() && std::isdigit(static_cast<unsigned char>(in[j]))) ++j;
                if (j > i + 1 && j < in.size() && in[j] == ']') { i = j; continue; }
            }
            out.push_back(in[i]);
        }
        return out;
    }
    struct ErrProbe
    {
        static constexpr auto name = "c06e_err_probe";
        static void eval(In<"e", TS<NodeError>> e, Scalar<"block", Int> block, DateTime now)
        {
            const auto b = e.base().value().as_bundle();
            const std::string msg{b.at("error_msg").checked_as<Str>()};
            const std::string trace{b.at("activation_back_trace").checked_as<Str>()};
            L->by_block[static_cast<int>(block.value())].push_back("t" + std::to_string(rel(now)) + " msg=" + msg + " trace=" + strip_ids(trace));
        }
    };
    struct OutProbe
    {
        static constexpr auto name = "c06e_out_probe";
        static void eval(In<"x", TS<Int>> x, Scalar<"block", Int> block, DateTime now) { L->out.push_back("b" + std::to_string(static_cast<long>(block.value())) + "t" + std::to_string(rel(now)) + "=" + std::to_string(static_cast<long>(x.value()))); }
    };

    ErrorCaptureOptions options_of(const std::string &o)
    {
        ErrorCaptureOptions r;
        r.trace_back_depth = static_cast<decltype(r.trace_back_depth)>(o[1] - '0');
        r.capture_values = o.size() > 2 && o[2] == 'v';
        return r;
    }

    struct Outcome { std::optional<std::string> violation; std::string sig; std::size_t ticks{0}; };
    // desc: <form s|p>:<opt,opt[,opt]>:<order e.g. 102>:<x;x;x>      opt = d<depth>[v]
    Outcome run_desc(const std::string &desc)
    {
        Outcome out;
        const auto parts = split(desc, ':');
        if (parts.size() != 4) throw verif::HarnessError("bad case " + desc);
        const char form = parts[0][0];
        const auto opts = split(parts[1], ',');
        const std::string order = parts[2];
        const auto script = split(parts[3], ';');
        Log log; L = &log;
        std::string exc;
        try
        {
            Wiring w;
            auto x = wire<stdlib::replay_impl, TS<Int>>(w, Str{"x"});
            std::optional<Port<TS<Int>>> common;
            if (form == 'p') common = wire<Risky>(w, wire<Mid>(w, x));
            for (char oc : order)
            {
                const int b = oc - '0';
                Port<TS<Int>> f = common ? *common : wire<Risky>(w, wire<Mid>(w, x));
                auto e = exception_time_series(f, options_of(opts[static_cast<std::size_t>(b)]));
                wire<ErrProbe>(w, e, Int{b});
                wire<OutProbe>(w, f, Int{b});
            }
            GraphBuilder gb = std::move(w).finish();
            std::vector<std::optional<Int>> xs;
            for (auto &v : script) xs.push_back(v.empty() ? std::nullopt : std::optional<Int>{Int{std::stol(v)}});
            set_replay_values<Int>(gb.global_state(), "x", xs);
            GraphExecutorBuilder eb;
            eb.graph_builder(std::move(gb)).start_time(MIN_ST).end_time(MIN_ST + MIN_TD * 20);
            auto ex = eb.make_executor();
            ex.view().run();
        }
        catch (const std::exception &e) { exc = e.what(); }
        L = nullptr;
        if (!exc.empty()) { out.violation = "wiring / run threw: " + exc; return out; }
        std::sort(log.out.begin(), log.out.end());
        std::string sig;
        for (std::size_t b = 0; b < opts.size(); ++b)
        {
            sig += "B" + std::to_string(b) + "{";
            for (auto &t : log.by_block[static_cast<int>(b)]) { sig += t + "|"; ++out.ticks; }
            sig += "}";
        }
        sig += " out:";
        for (auto &t : log.out) sig += t + ",";
        out.sig = sig;
        // an error tick exactly in the throwing cycles, carrying the message; ordinary output in the others
        for (std::size_t b = 0; b < opts.size(); ++b)
        {
            std::vector<std::string> want;
            for (std::size_t c = 0; c < script.size(); ++c)
                if (!script[c].empty() && std::stol(script[c]) < 0) want.push_back("t" + std::to_string(c) + " msg=negative input " + std::to_string(std::stol(script[c]) + 1000));
            const auto &got = log.by_block[static_cast<int>(b)];
            if (got.size() != want.size()) { out.violation = "block " + std::to_string(b) + " saw " + std::to_string(got.size()) + " error ticks, the node threw " + std::to_string(want.size()) + " times"; return out; }
            for (std::size_t i = 0; i < want.size(); ++i)
                if (got[i].rfind(want[i], 0) != 0) { out.violation = "block " + std::to_string(b) + " error tick " + std::to_string(i) + " is '" + got[i].substr(0, 60) + "', expected it to start with '" + want[i] + "'"; return out; }
        }
        return out;
    }
}  // namespace

void verif_init() { stdlib::register_standard_operators(); }
std::optional<std::string> verif_run_case(verif::Ctx &, const std::string &desc) { return run_desc(desc).violation; }

void verif_enumerate(verif::Ctx &ctx)
{
    const bool th = ctx.thorough();
    const std::vector<std::string> alpha = {"d0", "d1", "d1v", "d2", "d2v"};
    const int T = th ? 4 : 3;
    std::vector<std::string> scripts;
    {
        const std::vector<std::string> vals = {"", "5", "-3"};
        std::vector<int> idx(static_cast<std::size_t>(T), 0);
        while (true)
        {
            std::string s; bool neg = false;
            for (int c = 0; c < T; ++c) { std::string v = vals[static_cast<std::size_t>(idx[static_cast<std::size_t>(c)])]; if (v == "5") v = std::to_string(5 + c); else if (v == "-3") { v = std::to_string(-3 - c); neg = true; } s += (c ? ";" : "") + v; }
            if (neg) scripts.push_back(s);
            int p = 0;
            while (p < T && ++idx[static_cast<std::size_t>(p)] == 3) { idx[static_cast<std::size_t>(p)] = 0; ++p; }
            if (p == T) break;
        }
    }
    for (int K = 2; K <= 3; ++K)
    {
        std::vector<std::string> tuples;
        std::function<void(std::string, int)> rec = [&](std::string t, int n) { if (n == K) { tuples.push_back(t); return; } for (auto &a : alpha) rec(t + (n ? "," : "") + a, n + 1); };
        rec("", 0);
        std::vector<std::string> orders;
        { std::string o; for (int i = 0; i < K; ++i) o += static_cast<char>('0' + i); do orders.push_back(o); while (std::next_permutation(o.begin(), o.end())); }
        for (char form : std::string{"sp"})
            for (auto &tu : tuples)
                for (auto &sc : scripts)
                {
                    if (!ctx.next_is_mine()) continue;   // one (program, history) = one unit: all orders are compared inside it
                    std::string first_sig, first_desc;
                    for (auto &ord : orders)
                    {
                        const std::string desc = std::string(1, form) + ":" + tu + ":" + ord + ":" + sc;
                        ++ctx.evaluations; ++ctx.traces;
                        Outcome o = run_desc(desc);
                        ctx.transitions += o.ticks;
                        ctx.state(o.sig);
                        ctx.count(std::string{"cases_"} + form);
                        if (ord != orders.front()) ctx.nontriv(desc);
                        if (o.violation)
                        {
                            Outcome o2 = run_desc(desc);
                            if (!o2.violation || *o2.violation != *o.violation) throw verif::HarnessError("case not reproducible: " + desc);
                            ctx.violation(desc, *o.violation, std::string{"errcap "} + form + ": " + o.violation->substr(0, 40));
                        }
                        else if (first_sig.empty()) { first_sig = o.sig; first_desc = desc; }
                        else if (o.sig != first_sig)
                            ctx.violation(desc, "error streams differ between statement orders " + first_desc + " and " + desc + ":\n   " + first_sig.substr(0, 400) + "\n   " + o.sig.substr(0, 400), std::string{"errcap "} + form + ": order dependence");
                    }
                }
    }
}

VERIF_MAIN()
