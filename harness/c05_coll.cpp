// C05 — collection deltas are coherent with collection values at every tick        (all shapes below)
// C04 — modified / valid / last-modified-time tell the truth for producers and consumers (same runs, --sub c04 selects
//        the flag oracles as the deciding ones; both properties are evaluated on every execution)
//
// A scripted writer node applies every list of mutations (<= L per cycle) over T cycles to a real output of each shape
// through the typed Out<> API; it wakes every cycle and logs the PRODUCER view. Consumers: an active mirror (typed reads of
// value / added / removed / modified items on every tick), two passive probes that wake every cycle through their own
// scheduler and log the generic view (value, delta, modified, valid, last_modified_time), and a probe bound to a CHILD
// (TSL element / TSB field). Everything is compared with a boring reference container per shape.
#include "tsshapes.h"
using namespace hgraph;
using namespace tsshapes;

namespace
{
    // ---- observations -------------------------------------------------------------------------------------------
    struct Generic  // what any view exposes
    {
        long t{0};
        bool valid{false}, modified{false}, all_valid{false};
        long lmt{-1000};
        std::string value, delta;
        bool delta_present{false};
        std::string str() const
        {
            std::ostringstream o;
            o << "t" << t << (valid ? " valid" : " invalid") << (modified ? " modified" : "") << " lmt=" << lmt << " value=" << value << " delta=" << (delta_present ? delta : std::string{"<none>"});
            return o.str();
        }
    };
    struct ChildObs { long t; int child; bool valid, modified; long lmt; std::string value; bool delta_present{false}; };

    struct Run
    {
        std::vector<std::string> script;   // per cycle: comma separated ops ("" = nothing)
        int cycles{0};
        std::vector<Generic> producer;     // every cycle
        std::vector<Generic> probe[2];     // every cycle
        std::vector<Typed> mirror;         // on ticks
        std::vector<ChildObs> prod_child, cons_child, bound_child;  // children of fixed shapes, every cycle; bound_child = consumer bound directly to child 0
        std::vector<long> mirror_eval_times;
    };
    Run *g = nullptr;

    template <typename View>
    Generic observe(const View &v, DateTime now)
    {
        Generic o;
        o.t = rel(now);
        o.valid = v.valid();
        o.all_valid = v.all_valid();
        o.modified = v.modified();
        o.lmt = rel(v.last_modified_time());
        o.value = o.valid ? canon(v.value().to_string()) : std::string{"<invalid>"};
        ValueView d = v.delta_value();
        o.delta_present = d.has_value();
        o.delta = o.delta_present ? canon(d.to_string()) : std::string{};
        return o;
    }

    template <typename S> const TSOutputView &out_view(const Out<S> &out)
    {
        if constexpr (std::is_base_of_v<TSOutputView, Out<S>>) return out; else return out.base();
    }

    // reference model state (a superset serving every shape)
    struct Model
    {
        bool valid{false};
        long lmt{-1000};
        // TS
        long ts{0};
        // TSS
        std::set<long> set;
        // TSD<Int,TS> / TSL / TSB use imap (+ per child lmt / valid)
        std::map<long, long> imap;
        std::map<long, long> child_lmt;
        // TSD<Int,TSS>
        std::map<long, std::set<long>> smap;
        // TSW
        std::deque<long> win; long pushes{0};
        bool any_op{false};
        std::map<long, std::set<long>> graveyard;  // contents of keys erased earlier in the current cycle
    };

    // ---- nodes ----------------------------------------------------------------------------------------------------
    template <typename Sh>
    struct Writer
    {
        static constexpr auto name = "c05_writer";
        static constexpr bool schedule_on_start = true;
        static void eval(NodeScheduler sched, DateTime now, Out<typename Sh::S> out)
        {
            const long c = rel(now);
            if (c < g->cycles)
            {
                const std::string &ops = g->script[static_cast<std::size_t>(c)];
                if (!ops.empty()) for (auto &op : split(ops, ',')) Sh::apply(out, op, now);
            }
            g->producer.push_back(observe(out_view(out), now));
            if constexpr (std::is_same_v<Sh, ShapeTSL> || std::is_same_v<Sh, ShapeTSB>)
            {
                for (int i = 0; i < 2; ++i)
                {
                    TSOutputView ch = [&] { if constexpr (std::is_same_v<Sh, ShapeTSL>) return static_cast<const TSLOutputView &>(out).at(static_cast<std::size_t>(i)); else return static_cast<const TSBOutputView &>(out).at(static_cast<std::size_t>(i)); }();
                    g->prod_child.push_back(ChildObs{c, i, ch.valid(), ch.modified(), rel(ch.last_modified_time()), ch.valid() ? ch.value().to_string() : std::string{"<invalid>"}, ch.delta_value().has_value()});
                }
            }
            if (c + 1 < g->cycles + 2) sched.schedule(MIN_TD);
        }
    };
    template <typename Sh>
    struct EveryProbe
    {
        static constexpr auto name = "c05_every_probe";
        static constexpr bool schedule_on_start = true;
        static void eval(In<"x", typename Sh::S, InputActivity::Passive, InputValidity::Unchecked> x, NodeScheduler sched, Scalar<"slot", Int> slot, DateTime now)
        {
            const long c = rel(now);
            const TSInputView &v = x.base();
            g->probe[slot.value()].push_back(observe(v, now));
            if constexpr (std::is_same_v<Sh, ShapeTSL> || std::is_same_v<Sh, ShapeTSB>)
            {
                if (slot.value() == 0)
                    for (int i = 0; i < 2; ++i)
                    {
                        TSInputView ch = [&]() -> TSInputView { if constexpr (std::is_same_v<Sh, ShapeTSL>) return static_cast<const TSLInputView &>(x).at(static_cast<std::size_t>(i)); else return static_cast<const TSBInputView &>(x).field(i == 0 ? "a" : "b"); }();
                        g->cons_child.push_back(ChildObs{c, i, ch.valid(), ch.modified(), rel(ch.last_modified_time()), ch.valid() ? ch.value().to_string() : std::string{"<invalid>"}, ch.delta_value().has_value()});
                    }
            }
            if (c + 1 < g->cycles + 2) sched.schedule(MIN_TD);
        }
    };
    struct ChildProbe  // bound directly to child 0 of a fixed shape
    {
        static constexpr auto name = "c05_child_probe";
        static constexpr bool schedule_on_start = true;
        static void eval(In<"x", TS<Int>, InputActivity::Passive, InputValidity::Unchecked> x, NodeScheduler sched, DateTime now)
        {
            const long c = rel(now);
            g->bound_child.push_back(ChildObs{c, 0, x.valid(), x.modified(), rel(x.last_modified_time()), x.valid() ? x.base().value().to_string() : std::string{"<invalid>"}, x.base().delta_value().has_value()});
            if (c + 1 < g->cycles + 2) sched.schedule(MIN_TD);
        }
    };
    template <typename Sh>
    struct Mirror
    {
        static constexpr auto name = "c05_mirror";
        static void eval(In<"x", typename Sh::S, InputActivity::Active, InputValidity::Unchecked> x, DateTime now)
        {
            Typed t = x.valid() ? Sh::read(x) : Typed{};
            if (!x.valid()) t.value = "<invalid>";
            t.t = rel(now);
            g->mirror.push_back(t);
        }
    };

    // ---- reference ------------------------------------------------------------------------------------------------
    struct Expect
    {
        bool must_tick{false}, may_tick{false};   // effective op / only ineffective ops (don't-care)
        bool valid{false};
        bool valid_dont_care{false};   // only ineffective operations (e.g. removing an absent key) so far: whether that counts as a write is not stated
        bool all_valid{false};
        bool modified_dont_care{false};
        Typed typed;            // expected typed view if ticked
        bool child_mod[2]{false, false};
        bool child_valid[2]{false, false};
        bool invalidation_cycle{false};  // an explicit invalidation happened: only validity/value are compared (the statement is silent on the rest)
    };

    template <typename Sh>
    Expect model_cycle(Model &m, const std::string &ops, long c)
    {
        Expect e;
        Model before = m;
        m.graveyard.clear();
        bool effective = false, any = false, invalidated_last = false, wrote = false, invalidated = false;
        std::map<long, long> removed_value;  // dict: value held at the moment of removal
        std::set<long> touched;  // dict keys / indices written this cycle
        if (!ops.empty())
            for (auto &op : split(ops, ','))
            {
                any = true;
                m.any_op = true;
                if constexpr (std::is_same_v<Sh, ShapeTS>)
                {
                    if (op[0] == 'v') { m.ts = std::stol(op.substr(1)); m.valid = true; effective = true; wrote = true; invalidated_last = false; }
                    else if (op[0] == 'i') { if (m.valid) { effective = true; } m.valid = false; invalidated_last = true; invalidated = true; }
                }
                else if constexpr (std::is_same_v<Sh, ShapeTSS>)
                {
                    auto add = [&](long k) { if (m.set.insert(k).second) effective = true; };
                    auto rem = [&](long k) { if (m.set.erase(k)) effective = true; };
                    if (op[0] == '+') add(std::stol(op.substr(1)));
                    else if (op[0] == '-') rem(std::stol(op.substr(1)));
                    else if (op[0] == 'c') { if (!m.set.empty()) effective = true; m.set.clear(); }
                    else if (op[0] == 'B') for (long k = 4; k <= 12; ++k) add(k);
                    else if (op[0] == 'D') for (long k = 4; k <= 12; ++k) rem(k);
                }
                else if constexpr (std::is_same_v<Sh, ShapeDictI>)
                {
                    if (op[0] == 's') { auto eq = op.find('='); const long k = std::stol(op.substr(1, eq - 1)); m.imap[k] = std::stol(op.substr(eq + 1)); touched.insert(k); effective = true; }
                    else if (op[0] == 'e') { const long k = std::stol(op.substr(1)); if (m.imap.count(k)) { removed_value[k] = m.imap[k]; m.imap.erase(k); effective = true; } touched.erase(k); }
                    else if (op[0] == 'x') { auto eq = op.find('='); const long k = std::stol(op.substr(1, eq - 1)); if (m.imap.count(k)) { removed_value[k] = std::stol(op.substr(eq + 1)); m.imap.erase(k); effective = true; touched.erase(k); } }
                    else if (op[0] == 'c') { if (!m.imap.empty()) effective = true; for (auto &[k, v] : m.imap) removed_value[k] = v; m.imap.clear(); touched.clear(); }
                    else if (op[0] == 'B') for (long k = 4; k <= 12; ++k) { m.imap[k] = k * 10; touched.insert(k); effective = true; }
                }
                else if constexpr (std::is_same_v<Sh, ShapeDictS>)
                {
                    auto col = op.find(':');
                    if (op[0] == 'a')
                    {
                        const long k = std::stol(op.substr(1, col - 1));
                        // a key erased earlier in this cycle and added again is the SAME element (the cancelling pair leaves no trace): it keeps its contents
                        if (!m.smap.count(k) && m.graveyard.count(k)) m.smap[k] = m.graveyard[k];
                        m.smap[k].insert(std::stol(op.substr(col + 1))); touched.insert(k); effective = true;
                    }
                    else if (op[0] == 'r') { const long k = std::stol(op.substr(1, col - 1)); if (m.smap.count(k)) { if (m.smap[k].erase(std::stol(op.substr(col + 1)))) effective = true; touched.insert(k); } }
                    else if (op[0] == 'e') { const long k = std::stol(op.substr(1)); if (m.smap.count(k)) { m.graveyard[k] = m.smap[k]; m.smap.erase(k); effective = true; } touched.erase(k); }
                }
                else if constexpr (std::is_same_v<Sh, ShapeTSL> || std::is_same_v<Sh, ShapeDynL>)
                {
                    auto eq = op.find('='); const long i = std::stol(op.substr(0, eq)); m.imap[i] = std::stol(op.substr(eq + 1)); touched.insert(i); m.child_lmt[i] = c; effective = true;
                }
                else if constexpr (std::is_same_v<Sh, ShapeTSB>)
                {
                    if (op[0] == 'W')
                    {
                        const auto colon = op.find(':');
                        const std::string xs[2] = {op.substr(1, colon - 1), op.substr(colon + 1)};
                        for (long i = 0; i < 2; ++i) if (xs[i] != "-") { m.imap[i] = std::stol(xs[i]); touched.insert(i); m.child_lmt[i] = c; effective = true; }
                    }
                    else { const long i = op[0] == 'a' ? 0 : 1; m.imap[i] = std::stol(op.substr(2)); touched.insert(i); m.child_lmt[i] = c; effective = true; }
                }
                else if constexpr (std::is_same_v<Sh, ShapeTSW>)
                {
                    m.win.push_back(std::stol(op.substr(1))); if (m.win.size() > 3) m.win.pop_front(); ++m.pushes; effective = true;
                }
            }
        e.must_tick = effective;
        e.may_tick = any && !effective;
        if constexpr (std::is_same_v<Sh, ShapeTS>)
        {
            // a write followed by an invalidation in the same cycle: the statement is silent on the modified flag
            e.modified_dont_care = wrote && invalidated_last;
            e.invalidation_cycle = invalidated;
            if (effective && !invalidated_last) m.lmt = c;
            e.valid = m.valid;
            e.typed.value = std::to_string(m.ts);
        }
        else
        {
            if (effective) { m.valid = true; m.lmt = c; }
            e.valid = m.valid;
            e.all_valid = e.valid;
            if constexpr (std::is_same_v<Sh, ShapeTSW>) { e.valid = m.pushes >= 1; e.all_valid = m.pushes >= 2; }  // a window exists from its first element; the minimum count gates all_valid (pinned by python/tests ... test_to_window_validity_and_absent_removed_value)
            if constexpr (std::is_same_v<Sh, ShapeTSL> || std::is_same_v<Sh, ShapeTSB>) e.all_valid = m.imap.count(0) && m.imap.count(1);
            if constexpr (std::is_same_v<Sh, ShapeDynL>) { const long n = m.imap.empty() ? 0 : m.imap.rbegin()->first + 1; e.all_valid = m.valid && static_cast<long>(m.imap.size()) == n; }
            e.valid_dont_care = !m.valid && m.any_op;
        }
        auto keyset = [](const auto &mp) { std::set<long> s; for (auto &[k, v] : mp) s.insert(k); return s; };
        if constexpr (std::is_same_v<Sh, ShapeTSS>)
        {
            std::set<long> add, rem;
            for (long k : m.set) if (!before.set.count(k)) add.insert(k);
            for (long k : before.set) if (!m.set.count(k)) rem.insert(k);
            e.typed.value = set_str(m.set); e.typed.added = set_str(add); e.typed.removed = set_str(rem);
        }
        else if constexpr (std::is_same_v<Sh, ShapeDictI>)
        {
            std::vector<std::string> val, add, rem, mod;
            for (auto &[k, v] : m.imap) val.push_back(std::to_string(k) + "=" + std::to_string(v));
            for (auto &[k, v] : m.imap) if (!before.imap.count(k)) add.push_back(std::to_string(k));
            for (auto &[k, v] : before.imap) if (!m.imap.count(k)) rem.push_back(std::to_string(k) + "=" + std::to_string(removed_value.count(k) ? removed_value[k] : v));
            for (long k : touched) if (m.imap.count(k)) mod.push_back(std::to_string(k) + "=" + std::to_string(m.imap[k]));
            e.typed.value = "{" + sorted_join(val) + "}"; e.typed.added = "{" + sorted_join(add) + "}"; e.typed.removed = "{" + sorted_join(rem) + "}"; e.typed.modified = "{" + sorted_join(mod) + "}";
        }
        else if constexpr (std::is_same_v<Sh, ShapeDictS>)
        {
            std::vector<std::string> val, add, rem, mod;
            for (auto &[k, v] : m.smap) val.push_back(std::to_string(k) + "=" + set_str(v));
            for (auto &[k, v] : m.smap) if (!before.smap.count(k)) add.push_back(std::to_string(k));
            for (auto &[k, v] : before.smap) if (!m.smap.count(k)) rem.push_back(std::to_string(k));
            for (long k : touched)
                if (m.smap.count(k))
                {
                    std::set<long> a, r;
                    const std::set<long> &old = before.smap.count(k) ? before.smap.at(k) : std::set<long>{};
                    for (long x : m.smap[k]) if (!old.count(x)) a.insert(x);
                    for (long x : old) if (!m.smap[k].count(x)) r.insert(x);
                    mod.push_back(std::to_string(k) + "=+" + set_str(a) + "-" + set_str(r));
                }
            e.typed.value = "{" + sorted_join(val) + "}"; e.typed.added = "{" + sorted_join(add) + "}"; e.typed.removed = "{" + sorted_join(rem) + "}"; e.typed.modified = "{" + sorted_join(mod) + "}";
        }
        else if constexpr (std::is_same_v<Sh, ShapeTSL> || std::is_same_v<Sh, ShapeTSB>)
        {
            std::vector<std::string> val, mod;
            for (long i = 0; i < 2; ++i)
            {
                val.push_back(std::to_string(i) + "=" + (m.imap.count(i) ? std::to_string(m.imap[i]) : std::string{"?"}));
                if (touched.count(i)) mod.push_back(std::to_string(i) + "=" + std::to_string(m.imap[i]));
                e.child_mod[i] = touched.count(i) != 0;
                e.child_valid[i] = m.imap.count(i) != 0;
            }
            e.typed.value = "{" + join(val) + "}"; e.typed.modified = "{" + join(mod) + "}";
        }
        else if constexpr (std::is_same_v<Sh, ShapeDynL>)
        {
            std::vector<std::string> val, mod;
            const long n = m.imap.empty() ? 0 : m.imap.rbegin()->first + 1;
            for (long i = 0; i < n; ++i)
            {
                val.push_back(std::to_string(i) + "=" + (m.imap.count(i) ? std::to_string(m.imap[i]) : std::string{"?"}));
                if (touched.count(i)) mod.push_back(std::to_string(i) + "=" + std::to_string(m.imap[i]));
            }
            e.typed.value = "{" + join(val) + "}"; e.typed.modified = "{" + join(mod) + "}";
        }
        else if constexpr (std::is_same_v<Sh, ShapeTSW>)
        {
            std::vector<std::string> val;
            for (long v : m.win) val.push_back(std::to_string(v));
            e.typed.value = "[" + join(val) + "]";
        }
        (void)keyset;
        return e;
    }

    // ---- one case -------------------------------------------------------------------------------------------------
    struct Outcome { std::optional<std::string> c05, c04; std::string sig; bool nontrivial{false}; std::uint64_t ticks{0}; };

    template <typename Sh>
    Outcome run_shape(const std::vector<std::string> &script)
    {
        Outcome out;
        Run run;
        run.script = script;
        run.cycles = static_cast<int>(script.size());
        g = &run;
        std::string exc;
        try
        {
            Wiring w;
            auto wr = wire<Writer<Sh>>(w);
            wire<Mirror<Sh>>(w, wr);
            wire<EveryProbe<Sh>>(w, wr, Int{0});
            wire<EveryProbe<Sh>>(w, wr, Int{1});
            if constexpr (std::is_same_v<Sh, ShapeTSL>) wire<ChildProbe>(w, tsl_element(wr, 0));
            if constexpr (std::is_same_v<Sh, ShapeTSB>) wire<ChildProbe>(w, wire<stdlib::getattr_>(w, wr, Str{"a"}).template as<TS<Int>>());
            GraphBuilder gb = std::move(w).finish();
            GraphExecutorBuilder eb;
            eb.graph_builder(std::move(gb)).start_time(MIN_ST).end_time(MIN_ST + TimeDelta{run.cycles + 4});
            auto ex = eb.make_executor();
            ex.view().run();
        }
        catch (const std::exception &e) { exc = e.what(); }
        g = nullptr;
        if (!exc.empty()) { out.c05 = out.c04 = "run threw: " + exc; return out; }

        const long total = run.cycles + 2;
        if (static_cast<long>(run.producer.size()) != total || static_cast<long>(run.probe[0].size()) != total || static_cast<long>(run.probe[1].size()) != total)
            throw verif::HarnessError("probe did not observe every cycle");
        Model m;
        std::map<long, const Typed *> mirror_at;
        for (auto &t : run.mirror) mirror_at[t.t] = &t;
        std::ostringstream sig;
        std::string prev_value_typed;  // for the model-free coherence clause
        long observed_lmt = -1000;
        bool ever_invalid_after_valid = false;
        for (long c = 0; c < total; ++c)
        {
            const std::string ops = c < run.cycles ? script[static_cast<std::size_t>(c)] : std::string{};
            Expect e = model_cycle<Sh>(m, ops, c);
            const Generic &p = run.producer[static_cast<std::size_t>(c)];
            sig << (p.modified ? "M" : "-") << (p.valid ? "V" : "-") << p.value << "|";
            // ---------------- C04: flags tell the truth, producer side
            if (!out.c04)
            {
                if (e.must_tick && !e.modified_dont_care && !p.modified && !(std::is_same_v<Sh, ShapeTS> && !e.valid))
                    out.c04 = "producer: written in cycle " + std::to_string(c) + " but modified reads false: " + p.str();
                else if (!e.must_tick && !e.may_tick && p.modified)
                    out.c04 = "producer: nothing written in cycle " + std::to_string(c) + " but modified reads true: " + p.str();
                else if (p.valid != e.valid && !e.valid_dont_care)
                    out.c04 = "producer: valid=" + std::to_string(p.valid) + " but reference says " + std::to_string(e.valid) + " in cycle " + std::to_string(c) + ": " + p.str();
                else if (!e.valid_dont_care && !std::is_same_v<Sh, ShapeTS> && p.valid && p.all_valid != e.all_valid)
                    out.c04 = "producer: all_valid=" + std::to_string(p.all_valid) + " but reference says " + std::to_string(e.all_valid) + " in cycle " + std::to_string(c) + ": " + p.str();
                if (p.modified) observed_lmt = c;
                if (!out.c04 && p.valid && p.lmt != observed_lmt)
                    out.c04 = "producer: last_modified_time=" + std::to_string(p.lmt) + " but the latest cycle with modified==true is " + std::to_string(observed_lmt) + ": " + p.str();
                if (!out.c04 && p.valid && !p.modified && p.delta_present && p.delta.find_first_of("0123456789") != std::string::npos)
                    out.c04 = "producer: a per-tick delta is readable in cycle " + std::to_string(c) + " which did not produce it: " + p.str();
                // consumers == producer
                for (int k = 0; k < 2 && !out.c04; ++k)
                {
                    const Generic &q = run.probe[k][static_cast<std::size_t>(c)];
                    if (e.invalidation_cycle) { if (q.valid != p.valid || q.value != p.value) out.c04 = "consumer " + std::to_string(k) + " disagrees with the producer on validity in the invalidation cycle " + std::to_string(c); continue; }
                    if (q.valid != p.valid || q.all_valid != p.all_valid || q.modified != p.modified || q.value != p.value || (p.valid && q.lmt != p.lmt))
                        out.c04 = "consumer " + std::to_string(k) + " disagrees with the producer in cycle " + std::to_string(c) + ":\n  producer: " + p.str() + "\n  consumer: " + q.str();
                    else if (q.valid && !q.modified && q.delta_present && q.delta.find_first_of("0123456789") != std::string::npos)
                        out.c04 = "consumer " + std::to_string(k) + ": a per-tick delta is readable in cycle " + std::to_string(c) + " which did not produce it: " + q.str();
                    else if (q.modified && p.modified && q.delta != p.delta)
                        out.c04 = "consumer " + std::to_string(k) + " sees a different delta than the producer in cycle " + std::to_string(c) + ":\n  producer: " + p.str() + "\n  consumer: " + q.str();
                }
                // fixed shapes: parent modified <=> some child modified; children agree producer/consumer/bound consumer
                if constexpr (std::is_same_v<Sh, ShapeTSL> || std::is_same_v<Sh, ShapeTSB>)
                {
                    bool any_child = false;
                    for (int i = 0; i < 2 && !out.c04; ++i)
                    {
                        const ChildObs &pc = run.prod_child.at(static_cast<std::size_t>(c * 2 + i));
                        const ChildObs &cc = run.cons_child.at(static_cast<std::size_t>(c * 2 + i));
                        any_child = any_child || pc.modified;
                        if (pc.modified != e.child_mod[i] || pc.valid != e.child_valid[i])
                            out.c04 = "child " + std::to_string(i) + " flags wrong in cycle " + std::to_string(c) + ": modified=" + std::to_string(pc.modified) + " valid=" + std::to_string(pc.valid);
                        else if (cc.modified != pc.modified || cc.valid != pc.valid || cc.value != pc.value || (pc.valid && cc.lmt != pc.lmt))
                            out.c04 = "consumer's child " + std::to_string(i) + " disagrees with the producer's in cycle " + std::to_string(c);
                        else if (pc.valid && !pc.modified && !e.invalidation_cycle && pc.delta_present)
                            out.c04 = "producer's child " + std::to_string(i) + ": a per-tick delta is readable in cycle " + std::to_string(c) + " in which the child was not written";
                        else if (cc.valid && !cc.modified && !e.invalidation_cycle && cc.delta_present)
                            out.c04 = "consumer's child " + std::to_string(i) + ": a per-tick delta is readable in cycle " + std::to_string(c) + " in which the child was not written (the producer's child has none)";
                        else if (pc.valid && pc.lmt != m.child_lmt[i])
                            out.c04 = "child " + std::to_string(i) + " last_modified_time=" + std::to_string(pc.lmt) + " expected " + std::to_string(m.child_lmt[i]);
                    }
                    if (!out.c04 && any_child != p.modified) out.c04 = "fixed-shape parent modified=" + std::to_string(p.modified) + " but some child modified=" + std::to_string(any_child) + " in cycle " + std::to_string(c);
                    if (!out.c04)
                    {
                        const ChildObs &pc = run.prod_child.at(static_cast<std::size_t>(c * 2));
                        const ChildObs &bc = run.bound_child.at(static_cast<std::size_t>(c));
                        if (bc.valid && !bc.modified && !e.invalidation_cycle && bc.delta_present)
                            out.c04 = "consumer bound to child 0: a per-tick delta is readable in cycle " + std::to_string(c) + " in which the child was not written";
                        else if (bc.modified != pc.modified || bc.valid != pc.valid || bc.value != pc.value || (pc.valid && bc.lmt != pc.lmt))
                            out.c04 = "consumer bound to child 0 disagrees with the producer's child in cycle " + std::to_string(c) + ": producer modified=" + std::to_string(pc.modified) + " value=" + pc.value +
                                      " lmt=" + std::to_string(pc.lmt) + " consumer modified=" + std::to_string(bc.modified) + " value=" + bc.value + " lmt=" + std::to_string(bc.lmt);
                    }
                }
            }
            // ---------------- mirror evaluated iff the output ticked
            const bool mirrored = mirror_at.count(c) != 0;
            if (!out.c04 && mirrored != p.modified && !e.invalidation_cycle && !(std::is_same_v<Sh, ShapeTS> && !p.valid))
                out.c04 = std::string{"active consumer "} + (mirrored ? "was" : "was not") + " evaluated in cycle " + std::to_string(c) + " although modified=" + std::to_string(p.modified);
            // ---------------- C05: typed view == reference container, delta == net change
            if (mirrored && !out.c05)
            {
                ++out.ticks;
                const Typed &t = *mirror_at[c];
                const bool readable = e.valid;
                if (readable && t.value != "<invalid>")
                {
                    if (t.value != e.typed.value) out.c05 = "value differs from the reference container in cycle " + std::to_string(c) + ": got " + t.str() + " want value=[" + e.typed.value + "]";
                    else if (t.added != e.typed.added || t.removed != e.typed.removed)
                        out.c05 = "delta is not the net change of cycle " + std::to_string(c) + ": got " + t.str() + " want added=[" + e.typed.added + "] removed=[" + e.typed.removed + "]";
                    else if (t.modified != e.typed.modified)
                        out.c05 = "modified items differ in cycle " + std::to_string(c) + ": got " + t.str() + " want modified=[" + e.typed.modified + "]";
                }
                else if (e.valid && t.value == "<invalid>")
                    out.c05 = "consumer sees an invalid input in cycle " + std::to_string(c) + " although the reference holds a value";
                if (!e.typed.added.empty() && e.typed.added != "{}" && e.typed.removed != "{}") out.nontrivial = true;
            }
            if (ops.find(',') != std::string::npos) out.nontrivial = out.nontrivial || e.must_tick;
            (void)ever_invalid_after_valid; (void)prev_value_typed;
        }
        // window validity: valid only once the minimum count is reached (covered through e.valid above for TSW)
        out.sig = std::string{Sh::name} + "#" + sig.str();
        return out;
    }

    Outcome run_desc(const std::string &desc)
    {
        const auto bar = desc.find('|');
        const std::string shape = desc.substr(0, bar);
        std::vector<std::string> script = split(desc.substr(bar + 1), ';');
        if (shape == "ts") return run_shape<ShapeTS>(script);
        if (shape == "tss") return run_shape<ShapeTSS>(script);
        if (shape == "tsd") return run_shape<ShapeDictI>(script);
        if (shape == "tsds") return run_shape<ShapeDictS>(script);
        if (shape == "tsl") return run_shape<ShapeTSL>(script);
        if (shape == "tsldyn") return run_shape<ShapeDynL>(script);
        if (shape == "tsb") return run_shape<ShapeTSB>(script);
        if (shape == "tsw") return run_shape<ShapeTSW>(script);
        throw verif::HarnessError("unknown shape " + shape);
    }

    void gen_lists(const std::vector<std::string> &alphabet, int max_len, std::vector<std::string> &out)
    {
        out.push_back("");
        std::vector<std::string> prev = {""};
        for (int l = 1; l <= max_len; ++l)
        {
            std::vector<std::string> next;
            for (auto &p : prev) for (auto &a : alphabet) next.push_back(p.empty() ? a : p + "," + a);
            for (auto &n : next) out.push_back(n);
            prev.swap(next);
        }
    }
}  // namespace

void verif_init() { stdlib::register_standard_operators(); }

std::optional<std::string> verif_run_case(verif::Ctx &ctx, const std::string &desc)
{
    Outcome o = run_desc(desc);
    if (ctx.sub == "c04") return o.c04;
    if (ctx.sub == "c05") return o.c05;
    return o.c05 ? o.c05 : o.c04;
}

void verif_enumerate(verif::Ctx &ctx)
{
    const bool th = ctx.thorough();
    struct Space { std::string shape; std::vector<std::string> alphabet; int max_len; int cycles; };
    std::vector<Space> spaces = {
        {"ts", {"v1", "v2", "i"}, 2, th ? 6 : 5},
        {"tss", {"+1", "+2", "-1", "-2", "c", "B", "D"}, 2, th ? 4 : 3},
        {"tsd", {"s1=5", "s1=6", "s2=5", "e1", "e2", "c", "B", "x1=9"}, 2, th ? 4 : 3},
        {"tsds", {"a1:1", "a1:2", "r1:1", "a2:1", "e1", "e2"}, 2, th ? 4 : 3},
        {"tsl", {"0=1", "0=2", "1=1"}, 2, th ? 5 : 4},
        {"tsldyn", {"0=1", "0=2", "1=1", "2=1", "4=1"}, 2, th ? 4 : 3},   // grow-only dynamic list: growth past unset slots (1->2->3->5 elements)
        {"tsb", {"a=1", "a=2", "b=1", "W1:1", "W2:1", "W1:-"}, 2, th ? 4 : 3},
        {"tsb", {"a=1", "b=1", "W1:1", "W2:1", "W1:2"}, 1, th ? 6 : 5},
        {"tsw", {"p1", "p2", "p3"}, 1, th ? 8 : 6},   // one push per evaluation time is the API contract
    };
    // a second slice: longer mutation lists per cycle over fewer cycles (cancellation / resurrection chains)
    spaces.push_back({"tss", {"+1", "+2", "-1", "-2", "c", "B", "D"}, 3, 2});
    spaces.push_back({"tsd", {"s1=5", "s1=6", "s2=5", "e1", "e2", "c", "B", "x1=9"}, 3, 2});
    spaces.push_back({"tsds", {"a1:1", "a1:2", "r1:1", "a2:1", "e1", "e2"}, 3, 2});
    for (auto &sp : spaces)
    {
        std::vector<std::string> lists;
        gen_lists(sp.alphabet, sp.max_len, lists);
        std::vector<int> idx(static_cast<std::size_t>(sp.cycles), 0);
        while (true)
        {
            if (ctx.next_is_mine())
            {
                std::string desc = sp.shape + "|";
                for (int c = 0; c < sp.cycles; ++c) desc += (c ? ";" : "") + lists[static_cast<std::size_t>(idx[static_cast<std::size_t>(c)])];
                ++ctx.evaluations; ++ctx.traces;
                Outcome o = run_desc(desc);
                ctx.transitions += o.ticks;
                ctx.state(o.sig);
                if (o.nontrivial) ctx.nontriv(desc);
                ctx.count("cases_" + sp.shape);
                const std::optional<std::string> &v = ctx.sub == "c04" ? o.c04 : (ctx.sub == "c05" ? o.c05 : (o.c05 ? o.c05 : o.c04));
                if (v)
                {
                    Outcome o2 = run_desc(desc);
                    const std::optional<std::string> &v2 = ctx.sub == "c04" ? o2.c04 : (ctx.sub == "c05" ? o2.c05 : (o2.c05 ? o2.c05 : o2.c04));
                    if (!v2 || *v2 != *v) throw verif::HarnessError("case not reproducible: " + desc);
                    ctx.violation(desc, *v, sp.shape + ": " + v->substr(0, 48));
                }
                else if (ctx.evaluations % 9973 == 1) ctx.sample("cases", desc);
            }
            int p = 0;
            while (p < sp.cycles && ++idx[static_cast<std::size_t>(p)] == static_cast<int>(lists.size())) { idx[static_cast<std::size_t>(p)] = 0; ++p; }
            if (p == sp.cycles) break;
        }
    }
}

VERIF_MAIN()
