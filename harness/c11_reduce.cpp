// C11 — reduce equals the fold over exactly the currently valid elements.
// Scripted TSD<Int,TS<Int>> / fixed TSL<TS<Int>,4> writers drive the real stdlib::reduce_ with three combiners (the add_
// operator, a static node, a sub-graph) with and without a zero. Element values are distinct powers of two and the zero is
// 2^20, so the result identifies exactly which operands were folded. A passive probe samples the result in EVERY cycle:
// invalid if empty and no zero; zero if empty with zero; value+zero for a single element with zero; otherwise the sum of
// exactly the live elements (never the zero) — for every add / remove / update / bulk-growth history.
#include "tsshapes.h"
using namespace hgraph;
using namespace tsshapes;

namespace
{
    constexpr long ZERO = 1L << 20;
    long val_a(long k) { return 1L << (k - 1); }        // keys 1..9
    long val_b(long k) { return 1L << (k - 1 + 10); }   // updated variant (disjoint bit)
    long val_u(long k) { return (1L << 21) + (1L << (32 + k % 24)); }   // update of one of the 70 bulk keys: its own high bit shows whether the new operand reached the result

    struct Sample { long t; bool valid; bool modified; long value; };
    struct Run { std::vector<std::string> script; int cycles{0}; std::vector<Sample> samples; };
    Run *g = nullptr;

    // ops: "s<k>a" "s<k>b" "e<k>" "B" (bulk add keys 4..9 = growth) "H" (huge: keys 10..80) "c" clear
    void apply_dict(const Out<DictI> &out, const std::string &op)
    {
        if (op[0] == 's') { const long k = std::stol(op.substr(1, op.size() - 2)); out.set(Int{k}, Int{op.back() == 'a' ? val_a(k) : val_b(k)}); }
        else if (op[0] == 'e') (void)out.erase(Int{std::stol(op.substr(1))});
        else if (op[0] == 'B') { for (long k = 4; k <= 9; ++k) out.set(Int{k}, Int{val_a(k)}); }
        else if (op[0] == 'H') { for (long k = 21; k <= 90; ++k) out.set(Int{k}, Int{1L << 21}); }   // 70 equal addends above the zero bit: sum shows the count
        else if (op[0] == 'u') { const long k = std::stol(op.substr(1)); out.set(Int{k}, Int{val_u(k)}); }
        else if (op[0] == 'n') { (void)out[Int{std::stol(op.substr(1))}]; }   // create the key WITHOUT a value: a live key whose element is not valid yet
        else if (op[0] == 'c') out.clear();
    }
    struct DictWriter
    {
        static constexpr auto name = "c11_dict_writer";
        static constexpr bool schedule_on_start = true;
        static void eval(NodeScheduler sched, DateTime now, Out<DictI> out)
        {
            const long c = rel(now);
            if (c < g->cycles) { const std::string &ops = g->script[static_cast<std::size_t>(c)]; if (!ops.empty()) for (auto &op : split(ops, ',')) apply_dict(out, op); }
            if (c + 1 < g->cycles) sched.schedule(MIN_TD);
        }
    };
    using List4 = TSL<TS<Int>, 4>;
    struct ListWriter
    {
        static constexpr auto name = "c11_list_writer";
        static constexpr bool schedule_on_start = true;
        static void eval(NodeScheduler sched, DateTime now, Out<List4> out)
        {
            const long c = rel(now);
            if (c < g->cycles)
            {
                const std::string &ops = g->script[static_cast<std::size_t>(c)];
                if (!ops.empty()) for (auto &op : split(ops, ',')) { const long i = op[1] - '0'; out.set(static_cast<std::size_t>(i), Int{op.back() == 'a' ? val_a(i + 1) : val_b(i + 1)}); }
            }
            if (c + 1 < g->cycles) sched.schedule(MIN_TD);
        }
    };
    using ListDyn = TSL<TS<Int>>;
    struct DynListWriter   // grow-only dynamic list; indices 0..5 ("s<i>a" / "s<i>b"): writing index i grows the list to i+1, the skipped slots stay unset
    {
        static constexpr auto name = "c11_dyn_list_writer";
        static constexpr bool schedule_on_start = true;
        static void eval(NodeScheduler sched, DateTime now, Out<ListDyn> out)
        {
            const long c = rel(now);
            if (c < g->cycles)
            {
                const std::string &ops = g->script[static_cast<std::size_t>(c)];
                if (!ops.empty()) for (auto &op : split(ops, ',')) { const long i = op[1] - '0'; out.set(static_cast<std::size_t>(i), Int{op.back() == 'a' ? val_a(i + 1) : val_b(i + 1)}); }
            }
            if (c + 1 < g->cycles) sched.schedule(MIN_TD);
        }
    };
    long live_zero(long c) { return 1L << (40 + c % 16); }   // the live zero input ticks with a new value in every cycle
    struct ZeroWriter
    {
        static constexpr auto name = "c11_zero_writer";
        static constexpr bool schedule_on_start = true;
        static void eval(NodeScheduler sched, DateTime now, Out<TS<Int>> out)
        {
            const long c = rel(now);
            out.set(Int{live_zero(c)});
            if (c + 1 < g->cycles + 2) sched.schedule(MIN_TD);
        }
    };
    struct EveryProbe
    {
        static constexpr auto name = "c11_every_probe";
        static constexpr bool schedule_on_start = true;
        static void eval(In<"x", TS<Int>, InputActivity::Passive, InputValidity::Unchecked> x, NodeScheduler sched, DateTime now)
        {
            const long c = rel(now);
            g->samples.push_back(Sample{c, x.valid(), x.modified(), x.valid() ? static_cast<long>(x.value()) : 0});
            if (c + 1 < g->cycles + 2) sched.schedule(MIN_TD);
        }
    };

    struct SumNode { static constexpr auto name = "c11_sum_node"; static void eval(In<"lhs", TS<Int>> lhs, In<"rhs", TS<Int>> rhs, Out<TS<Int>> out) { out.set(lhs.value() + rhs.value()); } };
    struct SumGraph
    {
        static constexpr auto name = "c11_sum_graph";
        static Port<TS<Int>> compose(Wiring &w, Port<TS<Int>> lhs, Port<TS<Int>> rhs) { return wire<SumNode>(w, lhs, rhs); }
    };

    struct Outcome { std::optional<std::string> violation; std::string sig; bool nontrivial{false}; std::uint64_t ticks{0}; };

    // cfg: <coll><comb><zero>   coll d|l ; comb o (add_ operator) | n (node) | g (sub-graph) ; zero z|-
    Outcome run_cfg(const std::string &cfg, const std::vector<std::string> &script)
    {
        Outcome out;
        Run run; run.script = script; run.cycles = static_cast<int>(script.size());
        const bool dict = cfg[0] == 'd', livez = cfg[2] == 'y', zero = cfg[2] == 'z' || livez;
        std::string exc;
        g = &run;
        try
        {
            Wiring w;
            Port<TS<Int>> r;
            auto wire_reduce = [&](auto coll) {
                if (livez)
                {
                    auto z = wire<ZeroWriter>(w);
                    if (cfg[1] == 'o') return wire<stdlib::reduce_>(w, fn<stdlib::add_>(), coll, z).template as<TS<Int>>();
                    if (cfg[1] == 'n') return wire<stdlib::reduce_>(w, fn<SumNode>(), coll, z).template as<TS<Int>>();
                    return wire<stdlib::reduce_>(w, fn<SumGraph>(), coll, z).template as<TS<Int>>();
                }
                if (cfg[1] == 'o') return zero ? wire<stdlib::reduce_>(w, fn<stdlib::add_>(), coll, Int{ZERO}).template as<TS<Int>>() : wire<stdlib::reduce_>(w, fn<stdlib::add_>(), coll).template as<TS<Int>>();
                if (cfg[1] == 'n') return zero ? wire<stdlib::reduce_>(w, fn<SumNode>(), coll, Int{ZERO}).template as<TS<Int>>() : wire<stdlib::reduce_>(w, fn<SumNode>(), coll).template as<TS<Int>>();
                return zero ? wire<stdlib::reduce_>(w, fn<SumGraph>(), coll, Int{ZERO}).template as<TS<Int>>() : wire<stdlib::reduce_>(w, fn<SumGraph>(), coll).template as<TS<Int>>();
            };
            if (dict) r = wire_reduce(wire<DictWriter>(w)); else if (cfg[0] == 'y') r = wire_reduce(wire<DynListWriter>(w)); else r = wire_reduce(wire<ListWriter>(w));
            wire<EveryProbe>(w, r);
            GraphBuilder gb = std::move(w).finish();
            GraphExecutorBuilder eb;
            eb.graph_builder(std::move(gb)).start_time(MIN_ST).end_time(MIN_ST + TimeDelta{run.cycles + 3});
            auto ex = eb.make_executor();
            ex.view().run();
        }
        catch (const std::exception &e) { exc = e.what(); }
        g = nullptr;
        if (!exc.empty()) { out.violation = "run threw: " + exc; return out; }
        const long total = run.cycles + 2;
        if (static_cast<long>(run.samples.size()) != total) throw verif::HarnessError("probe did not sample every cycle");
        std::map<long, long> live;
        std::ostringstream sig;
        std::size_t max_live = 0;
        bool structural_and_update = false;
        for (long c = 0; c < total; ++c)
        {
            if (c < run.cycles && !script[static_cast<std::size_t>(c)].empty())
            {
                bool structural = false, update = false;
                std::map<long, long> graveyard;   // keys erased earlier in THIS cycle: re-creating one resurrects the same element with its contents (see C05)
                for (auto &op : split(script[static_cast<std::size_t>(c)], ','))
                {
                    if (dict)
                    {
                        if (op[0] == 's') { const long k = std::stol(op.substr(1, op.size() - 2)); if (live.count(k)) update = true; else structural = true; live[k] = op.back() == 'a' ? val_a(k) : val_b(k); }
                        else if (op[0] == 'e') { const long k = std::stol(op.substr(1)); if (live.count(k)) { graveyard[k] = live[k]; live.erase(k); structural = true; } }
                        else if (op[0] == 'B') { for (long k = 4; k <= 9; ++k) live[k] = val_a(k); structural = true; }
                        else if (op[0] == 'H') { for (long k = 21; k <= 90; ++k) live[k] = 1L << 21; structural = true; }
                        else if (op[0] == 'u') { const long k = std::stol(op.substr(1)); if (live.count(k)) update = true; else structural = true; live[k] = val_u(k); }
                        else if (op[0] == 'n') { const long k = std::stol(op.substr(1)); structural = true; if (!live.count(k) && graveyard.count(k)) live[k] = graveyard[k]; }   // a key without a value is not an element of the fold
                        else if (op[0] == 'c') { if (!live.empty()) structural = true; for (auto &[k2, v2] : live) graveyard[k2] = v2; live.clear(); }
                    }
                    else { const long i = op[1] - '0'; live[i] = op.back() == 'a' ? val_a(i + 1) : val_b(i + 1); }
                }
                if (structural && update) structural_and_update = true;
            }
            max_live = std::max(max_live, live.size());
            bool want_valid; long want = 0;
            long sum = 0; for (auto &[k, v] : live) sum += v;
            const long zv = livez ? live_zero(c) : ZERO;
            if (live.empty()) { want_valid = zero; want = zv; }
            else if (live.size() == 1) { want_valid = true; want = zero ? sum + zv : sum; }
            else { want_valid = true; want = sum; }
            const Sample &s = run.samples[static_cast<std::size_t>(c)];
            sig << (s.valid ? std::to_string(s.value) : std::string{"-"}) << ",";
            if (s.modified) ++out.ticks;
            if (out.violation) continue;
            if (s.valid != want_valid)
                out.violation = "cycle " + std::to_string(c) + ": result is " + (s.valid ? "valid (" + std::to_string(s.value) + ")" : std::string{"invalid"}) + " but " + std::to_string(live.size()) +
                                " elements are live and " + (zero ? "a zero is given" : "no zero is given");
            else if (s.valid && s.value != want)
            {
                std::ostringstream o;
                o << "cycle " << c << ": result " << s.value << " (bits 0x" << std::hex << s.value << ") but the fold over the " << std::dec << live.size() << " live elements is " << want << " (bits 0x" << std::hex << want
                  << ")" << (((s.value ^ want) & (livez ? ~((1L << 40) - 1) : ZERO)) ? " — the zero was folded in, left out or stale" : "");
                out.violation = o.str();
            }
        }
        out.sig = cfg + "#" + sig.str();
        out.nontrivial = max_live >= 3 && structural_and_update;
        return out;
    }

    Outcome run_desc(const std::string &desc)
    {
        auto bar = desc.find('|');
        return run_cfg(desc.substr(0, bar), split(desc.substr(bar + 1), ';'));
    }

    void gen_lists(const std::vector<std::string> &alphabet, int max_len, std::vector<std::string> &out)
    {
        out.push_back("");
        std::vector<std::string> prev = {""};
        for (int l = 1; l <= max_len; ++l)
        {
            std::vector<std::string> next;
            for (auto &p : prev) for (auto &a : alphabet) next.push_back(p.empty() ? a : p + "," + a);
            for (auto &n : next) out.push_back(n);
            prev.swap(next);
        }
    }
}  // namespace

void verif_init() { stdlib::register_standard_operators(); }
std::optional<std::string> verif_run_case(verif::Ctx &, const std::string &desc) { return run_desc(desc).violation; }

void verif_enumerate(verif::Ctx &ctx)
{
    const bool th = ctx.thorough();
    struct Space { std::vector<std::string> cfgs; std::vector<std::string> alphabet; int max_len; int cycles; };
    const std::vector<std::string> dict_ops = {"s1a", "s2a", "s3a", "s4a", "s5a", "s1b", "s3b", "e1", "e2", "e3", "B"};
    std::vector<Space> spaces = {
        {{"do-", "doz"}, th ? dict_ops : std::vector<std::string>{"s1a", "s2a", "s3a", "s4a", "s1b", "e1", "e2", "B"}, 2, 3},   // add_ operator, all <=2-op lists over 3 cycles
        {{"dn-", "dnz", "dg-", "dgz"}, dict_ops, 1, th ? 5 : 4},            // node / sub-graph combiners
        {{"do-", "doz"}, {"s1a", "s2a", "s3a", "e1", "e2", "e3", "s2b", "c"}, 3, 2},   // long lists: cancellations inside one cycle
        {{"lo-", "loz", "ln-", "lgz"}, {"s0a", "s1a", "s2a", "s3a", "s0b", "s2b"}, 2, 3},  // fixed TSL<TS<Int>,4>: unset slots are not live
    };
    // grow-only dynamic TSL<TS<Int>>: writing index i grows the list to i+1; skipped (unset) slots are not live; growth crosses the leaf capacities 1->2->4->8
    spaces.push_back({th ? std::vector<std::string>{"yo-", "yoz", "yn-", "ygz", "yoy"} : std::vector<std::string>{"yo-", "yoz", "ygy"}, th ? std::vector<std::string>{"s0a", "s1a", "s2a", "s4a", "s5a", "s0b", "s2b"} : std::vector<std::string>{"s0a", "s1a", "s2a", "s4a", "s0b", "s2b"}, 2, 3});
    // keys that exist before they hold a value (pending elements are not part of the fold, whenever they appear)
    spaces.push_back({{"do-", "doz", "dn-"}, {"n1", "n2", "s1a", "s2a", "s3a", "e1", "e2", "s1b"}, 2, 3});
    // a LIVE zero (a time-series that ticks with a new value every cycle): empty and singleton results must follow it, also after the tree shrank
    spaces.push_back({{"doy", "dny"}, th ? std::vector<std::string>{"s1a", "s2a", "s3a", "s4a", "e1", "e2", "e3", "e4", "B", "c"} : std::vector<std::string>{"s1a", "s2a", "s3a", "e1", "e2", "e3", "c"}, 2, 3});
    spaces.push_back({{"doy", "dgy"}, {"s1a", "s2a", "s3a", "e1", "e2", "e3", "s1b", "c"}, 1, 5});
    // more than 64 live elements (70 bulk keys): several operands at different depths of the tree change in one cycle
    spaces.push_back({{"do-", "dnz"}, {"H", "u21", "u55", "u90", "e56"}, 2, 3});
    if (th)
    {
        spaces.push_back({{"dn-", "dgz"}, dict_ops, 2, 3});
        spaces.push_back({{"do-", "doz"}, dict_ops, 1, 5});
        spaces.push_back({{"do-", "doz", "dnz"}, {"H", "s1a", "s1b", "e1", "e21", "e90", "e55", "B"}, 1, 4});   // > 64 live elements (capacity 128)
    }
    for (auto &sp : spaces)
    {
        std::vector<std::string> lists;
        gen_lists(sp.alphabet, sp.max_len, lists);
        std::vector<int> idx(static_cast<std::size_t>(sp.cycles), 0);
        while (true)
        {
            std::string body;
            for (int c = 0; c < sp.cycles; ++c) body += (c ? ";" : "") + lists[static_cast<std::size_t>(idx[static_cast<std::size_t>(c)])];
            for (auto &cfg : sp.cfgs)
            {
                if (!ctx.next_is_mine()) continue;
                const std::string desc = cfg + "|" + body;
                ++ctx.evaluations; ++ctx.traces;
                Outcome o = run_desc(desc);
                ctx.transitions += o.ticks;
                ctx.state(o.sig);
                if (o.nontrivial) ctx.nontriv(desc);
                ctx.count("cases_" + cfg);
                if (o.violation)
                {
                    Outcome o2 = run_desc(desc);
                    if (!o2.violation || *o2.violation != *o.violation) throw verif::HarnessError("case not reproducible: " + desc);
                    ctx.violation(desc, *o.violation, cfg + ": " + o.violation->substr(o.violation->find(':') + 2, 40));
                }
                else if (ctx.evaluations % 9973 == 1) ctx.sample("cases", desc);
            }
            int p = 0;
            while (p < sp.cycles && ++idx[static_cast<std::size_t>(p)] == static_cast<int>(lists.size())) { idx[static_cast<std::size_t>(p)] = 0; ++p; }
            if (p == sp.cycles) break;
        }
    }
}

VERIF_MAIN()
