// C03 — user code runs exactly when an active input ticked (or an own wake-up is due) and required inputs are valid.
// Every combination of InputActivity {Active, Passive} x InputValidity {Valid, Unchecked, AllValid} on 2-input probe nodes
// (36 static-node instantiations), activity combinations on 3-input probes, parameter-order variants (State / Scalar before
// the inputs), a structural TSL input under Valid / AllValid / Unchecked, a self-scheduling probe, each also under every
// wiring-time passive(port) marker mask, x every tick history of the sources. The complete evaluation log (which cycles, and
// for every input value / modified / valid) and a downstream stage must equal the reference rule.
#include "vpch.h"
#include "vcommon.h"
using namespace hgraph;

namespace
{
    long rel(DateTime t) { return static_cast<long>((t - MIN_ST).count()); }

    struct Rec
    {
        long id{0}, t{0};
        int n{0};
        long v[3]{0, 0, 0};
        bool mod[3]{false, false, false}, valid[3]{false, false, false};
        long out{0};
        bool operator==(const Rec &o) const
        {
            if (id != o.id || t != o.t || n != o.n || out != o.out) return false;
            for (int i = 0; i < n; ++i)
            {
                if (valid[i] != o.valid[i]) return false;
                if (valid[i] && (v[i] != o.v[i] || mod[i] != o.mod[i])) return false;
            }
            return true;
        }
        bool operator<(const Rec &o) const { return std::tie(t, id) < std::tie(o.t, o.id); }
        std::string str() const
        {
            std::ostringstream o;
            o << "{id=" << id << " t=" << t << " in=[";
            for (int i = 0; i < n; ++i) o << (i ? " " : "") << (valid[i] ? std::to_string(v[i]) : std::string{"-"}) << (mod[i] ? "*" : "");
            o << "] out=" << out << "}";
            return o.str();
        }
    };
    std::vector<Rec> *g_log = nullptr;

    template <typename InT>
    void rd(Rec &r, int i, const InT &in)
    {
        r.valid[i] = in.valid();
        r.mod[i] = in.modified();
        r.v[i] = r.valid[i] ? static_cast<long>(in.value()) : 0;
    }
    long combine(const Rec &r)
    {
        long s = 1;
        for (int i = 0; i < r.n; ++i) if (r.valid[i]) s += (i + 2) * r.v[i];
        return s;
    }

    constexpr InputActivity ACTS[2] = {InputActivity::Active, InputActivity::Passive};
    constexpr InputValidity VALS[3] = {InputValidity::Valid, InputValidity::Unchecked, InputValidity::AllValid};

    template <InputActivity A0, InputValidity V0, InputActivity A1, InputValidity V1>
    struct P2
    {
        static constexpr auto name = "c03_p2";
        static void eval(In<"a", TS<Int>, A0, V0> a, In<"b", TS<Int>, A1, V1> b, Scalar<"id", Int> id, DateTime now, Out<TS<Int>> out)
        {
            Rec r; r.id = id.value(); r.t = rel(now); r.n = 2; rd(r, 0, a); rd(r, 1, b); r.out = combine(r);
            if (g_log) g_log->push_back(r);
            out.set(Int{r.out});
        }
    };
    // parameter-order variants: non-input parameters BEFORE the inputs (active-slot bookkeeping must count inputs, not parameters)
    template <InputActivity A0, InputActivity A1>
    struct P2StateFirst
    {
        static constexpr auto name = "c03_p2_state_first";
        static void start(State<Int> n) { n.set(Int{0}); }
        static void eval(State<Int> n, Scalar<"id", Int> id, In<"a", TS<Int>, A0> a, In<"b", TS<Int>, A1> b, DateTime now, Out<TS<Int>> out)
        {
            n.set(n.get() + 1);
            Rec r; r.id = id.value(); r.t = rel(now); r.n = 2; rd(r, 0, a); rd(r, 1, b); r.out = combine(r);
            if (g_log) g_log->push_back(r);
            out.set(Int{r.out});
        }
    };
    template <InputActivity A0, InputActivity A1>
    struct P2SchedFirst
    {
        static constexpr auto name = "c03_p2_sched_first";
        static void eval(NodeScheduler sched, In<"a", TS<Int>, A0> a, Scalar<"id", Int> id, In<"b", TS<Int>, A1> b, DateTime now, Out<TS<Int>> out)
        {
            (void)sched;
            Rec r; r.id = id.value(); r.t = rel(now); r.n = 2; rd(r, 0, a); rd(r, 1, b); r.out = combine(r);
            if (g_log) g_log->push_back(r);
            out.set(Int{r.out});
        }
    };
    template <InputActivity A0, InputActivity A1, InputActivity A2>
    struct P3
    {
        static constexpr auto name = "c03_p3";
        static void eval(In<"a", TS<Int>, A0, InputValidity::Valid> a, In<"b", TS<Int>, A1, InputValidity::Unchecked> b, In<"c", TS<Int>, A2, InputValidity::Valid> c,
                         Scalar<"id", Int> id, DateTime now, Out<TS<Int>> out)
        {
            Rec r; r.id = id.value(); r.t = rel(now); r.n = 3; rd(r, 0, a); rd(r, 1, b); rd(r, 2, c); r.out = combine(r);
            if (g_log) g_log->push_back(r);
            out.set(Int{r.out});
        }
    };
    using Pair = TSL<TS<Int>, 2>;
    template <InputValidity V>
    struct PL
    {
        static constexpr auto name = "c03_pl";
        static void eval(In<"l", Pair, V> l, Scalar<"id", Int> id, DateTime now, Out<TS<Int>> out)
        {
            Rec r; r.id = id.value(); r.t = rel(now); r.n = 2;
            for (int i = 0; i < 2; ++i) { auto e = l[static_cast<std::size_t>(i)]; r.valid[i] = e.valid(); r.mod[i] = e.modified(); r.v[i] = r.valid[i] ? static_cast<long>(e.value()) : 0; }
            r.out = combine(r);
            if (g_log) g_log->push_back(r);
            out.set(Int{r.out});
        }
    };
    // self-scheduling probe: wakes itself 2 steps after every tick of a; b is passive and unchecked
    struct PSched
    {
        static constexpr auto name = "c03_psched";
        static void eval(In<"a", TS<Int>> a, In<"b", TS<Int>, InputActivity::Passive, InputValidity::Unchecked> b, NodeScheduler sched, Scalar<"id", Int> id, DateTime now,
                         Out<TS<Int>> out)
        {
            Rec r; r.id = id.value(); r.t = rel(now); r.n = 2; rd(r, 0, a); rd(r, 1, b); r.out = combine(r);
            if (g_log) g_log->push_back(r);
            out.set(Int{r.out});
            if (a.modified()) sched.schedule(MIN_TD * 2);
        }
    };
    // second stage: reads the probe output (active, valid) and a source (passive, unchecked)
    struct Stage2
    {
        static constexpr auto name = "c03_stage2";
        static void eval(In<"x", TS<Int>> x, In<"s", TS<Int>, InputActivity::Passive, InputValidity::Unchecked> s, Scalar<"id", Int> id, DateTime now, Out<TS<Int>> out)
        {
            Rec r; r.id = id.value(); r.t = rel(now); r.n = 2; rd(r, 0, x); rd(r, 1, s); r.out = combine(r);
            if (g_log) g_log->push_back(r);
            out.set(Int{r.out});
        }
    };
    struct Sink
    {
        static constexpr auto name = "c03_sink";
        static void eval(In<"x", TS<Int>> x, Scalar<"id", Int> id, DateTime now)
        {
            Rec r; r.id = id.value(); r.t = rel(now); r.n = 1; rd(r, 0, x); r.out = 0;
            if (g_log) g_log->push_back(r);
        }
    };

    // ---- probe type table -----------------------------------------------------------------------------------
    struct ProbeType
    {
        std::string name;
        int arity{2};
        bool active[3]{true, true, true};
        int validity[3]{0, 0, 0};   // 0 Valid, 1 Unchecked, 2 AllValid
        bool tsl{false};            // single structural TSL input made of two sources
        bool self_sched{false};
        std::function<Port<TS<Int>>(Wiring &, const std::vector<Port<TS<Int>>> &, unsigned pmask, Int id)> wire_fn;
    };
    std::vector<ProbeType> &types() { static std::vector<ProbeType> t; return t; }

    Port<TS<Int>> mp(const Port<TS<Int>> &p, unsigned pmask, int j) { return ((pmask >> j) & 1u) ? passive(p) : p; }

    template <std::size_t I>
    void add_p2()
    {
        constexpr InputActivity A0 = ACTS[I % 2];
        constexpr InputValidity V0 = VALS[(I / 2) % 3];
        constexpr InputActivity A1 = ACTS[(I / 6) % 2];
        constexpr InputValidity V1 = VALS[I / 12];
        ProbeType t;
        t.name = "p2_" + std::to_string(I);
        t.arity = 2;
        t.active[0] = A0 == InputActivity::Active; t.active[1] = A1 == InputActivity::Active;
        t.validity[0] = static_cast<int>((I / 2) % 3); t.validity[1] = static_cast<int>(I / 12);
        t.wire_fn = [](Wiring &w, const std::vector<Port<TS<Int>>> &p, unsigned pm, Int id) { return wire<P2<A0, V0, A1, V1>>(w, mp(p[0], pm, 0), mp(p[1], pm, 1), id); };
        types().push_back(t);
    }
    template <std::size_t I>
    void add_order_variants()
    {
        constexpr InputActivity A0 = ACTS[I % 2];
        constexpr InputActivity A1 = ACTS[I / 2];
        {
            ProbeType t; t.name = "p2statefirst_" + std::to_string(I); t.arity = 2;
            t.active[0] = A0 == InputActivity::Active; t.active[1] = A1 == InputActivity::Active;
            t.wire_fn = [](Wiring &w, const std::vector<Port<TS<Int>>> &p, unsigned pm, Int id) { return wire<P2StateFirst<A0, A1>>(w, id, mp(p[0], pm, 0), mp(p[1], pm, 1)); };
            types().push_back(t);
        }
        {
            ProbeType t; t.name = "p2schedfirst_" + std::to_string(I); t.arity = 2;
            t.active[0] = A0 == InputActivity::Active; t.active[1] = A1 == InputActivity::Active;
            t.wire_fn = [](Wiring &w, const std::vector<Port<TS<Int>>> &p, unsigned pm, Int id) { return wire<P2SchedFirst<A0, A1>>(w, mp(p[0], pm, 0), id, mp(p[1], pm, 1)); };
            types().push_back(t);
        }
    }
    template <std::size_t I>
    void add_p3()
    {
        constexpr InputActivity A0 = ACTS[I % 2];
        constexpr InputActivity A1 = ACTS[(I / 2) % 2];
        constexpr InputActivity A2 = ACTS[I / 4];
        ProbeType t; t.name = "p3_" + std::to_string(I); t.arity = 3;
        t.active[0] = A0 == InputActivity::Active; t.active[1] = A1 == InputActivity::Active; t.active[2] = A2 == InputActivity::Active;
        t.validity[0] = 0; t.validity[1] = 1; t.validity[2] = 0;
        t.wire_fn = [](Wiring &w, const std::vector<Port<TS<Int>>> &p, unsigned pm, Int id) { return wire<P3<A0, A1, A2>>(w, mp(p[0], pm, 0), mp(p[1], pm, 1), mp(p[2], pm, 2), id); };
        types().push_back(t);
    }
    template <std::size_t I>
    void add_pl()
    {
        constexpr InputValidity V = VALS[I];
        ProbeType t; t.name = "pl_" + std::to_string(I); t.arity = 2; t.tsl = true;
        t.validity[0] = static_cast<int>(I);
        t.wire_fn = [](Wiring &w, const std::vector<Port<TS<Int>>> &p, unsigned, Int id) { return wire<PL<V>>(w, stdlib::to_tsl<Pair>(w, p[0], p[1]).template as<Pair>(), id); };
        types().push_back(t);
    }

    void build_types()
    {
        if (!types().empty()) return;
        [&]<std::size_t... I>(std::index_sequence<I...>) { (add_p2<I>(), ...); }(std::make_index_sequence<36>{});
        [&]<std::size_t... I>(std::index_sequence<I...>) { (add_order_variants<I>(), ...); }(std::make_index_sequence<4>{});
        [&]<std::size_t... I>(std::index_sequence<I...>) { (add_p3<I>(), ...); }(std::make_index_sequence<8>{});
        [&]<std::size_t... I>(std::index_sequence<I...>) { (add_pl<I>(), ...); }(std::make_index_sequence<3>{});
        ProbeType t; t.name = "psched"; t.arity = 2; t.active[0] = true; t.active[1] = false; t.validity[0] = 0; t.validity[1] = 1; t.self_sched = true;
        t.wire_fn = [](Wiring &w, const std::vector<Port<TS<Int>>> &p, unsigned pm, Int id) { return wire<PSched>(w, mp(p[0], pm, 0), mp(p[1], pm, 1), id); };
        types().push_back(t);
    }

    long src_value(int s, int c) { return 100 * (c + 1) + s; }

    struct Built
    {
        const ProbeType *type{nullptr};
        unsigned pmask{0};
        std::optional<GraphBuilder> gb;
        std::string exc;
    };

    void build(Built &b, const ProbeType &t, unsigned pmask)
    {
        b.type = &t; b.pmask = pmask;
        try
        {
            Wiring w;
            std::vector<Port<TS<Int>>> src;
            for (int i = 0; i < t.arity; ++i) src.push_back(wire<stdlib::replay_impl, TS<Int>>(w, Str{"s" + std::to_string(i)}));
            auto p = t.wire_fn(w, src, pmask, Int{1});
            wire<Sink>(w, p, Int{9001});
            auto q = wire<Stage2>(w, p, src[static_cast<std::size_t>(t.arity - 1)], Int{2});
            wire<Sink>(w, q, Int{9002});
            b.gb.emplace(std::move(w).finish());
        }
        catch (const std::exception &e) { b.exc = e.what(); }
    }

    struct SrcState { bool valid{false}, mod{false}; long v{0}; };

    void reference(const ProbeType &t, unsigned pmask, const std::vector<unsigned> &masks, int cycles, long end, std::vector<Rec> &out)
    {
        std::vector<SrcState> s(static_cast<std::size_t>(t.arity));
        SrcState p, q;
        std::set<long> due;
        for (long c = 0; c < end; ++c)
        {
            for (int i = 0; i < t.arity; ++i)
            {
                s[static_cast<std::size_t>(i)].mod = c < cycles && ((masks[static_cast<std::size_t>(i)] >> c) & 1u);
                if (s[static_cast<std::size_t>(i)].mod) { s[static_cast<std::size_t>(i)].valid = true; s[static_cast<std::size_t>(i)].v = src_value(i, static_cast<int>(c)); }
            }
            p.mod = false; q.mod = false;
            bool trigger = due.count(c) != 0;
            bool ready = true;
            if (t.tsl)
            {
                // one structural input: active; Valid = any element valid, AllValid = every element valid, Unchecked = no gate
                trigger = trigger || s[0].mod || s[1].mod;
                if (t.validity[0] == 0) ready = s[0].valid || s[1].valid;
                if (t.validity[0] == 2) ready = s[0].valid && s[1].valid;
            }
            else
            {
                for (int i = 0; i < t.arity; ++i)
                {
                    const bool active = t.active[i] && !((pmask >> i) & 1u);
                    if (active && s[static_cast<std::size_t>(i)].mod) trigger = true;
                    if (t.validity[i] != 1 && !s[static_cast<std::size_t>(i)].valid) ready = false;
                }
            }
            due.erase(c);
            if (trigger && ready)
            {
                Rec r; r.id = 1; r.t = c; r.n = t.arity;
                for (int i = 0; i < t.arity; ++i) { r.valid[i] = s[static_cast<std::size_t>(i)].valid; r.mod[i] = s[static_cast<std::size_t>(i)].mod; r.v[i] = r.valid[i] ? s[static_cast<std::size_t>(i)].v : 0; }
                r.out = combine(r);
                out.push_back(r);
                p.valid = true; p.mod = true; p.v = r.out;
                if (t.self_sched && s[0].mod) due.insert(c + 2);
                Rec k; k.id = 9001; k.t = c; k.n = 1; k.valid[0] = true; k.mod[0] = true; k.v[0] = p.v; k.out = 0;
                out.push_back(k);
            }
            if (p.mod)
            {
                const SrcState &last = s[static_cast<std::size_t>(t.arity - 1)];
                Rec r; r.id = 2; r.t = c; r.n = 2; r.valid[0] = true; r.mod[0] = true; r.v[0] = p.v; r.valid[1] = last.valid; r.mod[1] = last.mod; r.v[1] = last.valid ? last.v : 0;
                r.out = combine(r);
                out.push_back(r);
                Rec k; k.id = 9002; k.t = c; k.n = 1; k.valid[0] = true; k.mod[0] = true; k.v[0] = r.out; k.out = 0;
                out.push_back(k);
            }
        }
    }

    struct Outcome { std::optional<std::string> violation; std::string sig; bool nontrivial{false}; std::uint64_t evals{0}; };

    Outcome run(Built &b, const std::vector<unsigned> &masks, int cycles)
    {
        Outcome o;
        if (!b.exc.empty()) { o.violation = "wiring threw: " + b.exc; return o; }
        std::vector<Rec> log;
        g_log = &log;
        std::string exc;
        try
        {
            for (int i = 0; i < b.type->arity; ++i)
            {
                std::vector<std::optional<Int>> seq;
                for (int c = 0; c < cycles; ++c) seq.push_back((masks[static_cast<std::size_t>(i)] >> c) & 1u ? std::optional<Int>{Int{src_value(i, c)}} : std::nullopt);
                while (!seq.empty() && !seq.back()) seq.pop_back();
                testing::set_replay_values<Int>(b.gb->global_state(), "s" + std::to_string(i), seq);
            }
            GraphExecutorBuilder eb;
            eb.graph_builder(*b.gb).start_time(MIN_ST).end_time(MIN_ST + TimeDelta{40});
            auto ex = eb.make_executor();
            ex.view().run();
        }
        catch (const std::exception &e) { exc = e.what(); }
        g_log = nullptr;
        if (!exc.empty()) { o.violation = "run threw: " + exc; return o; }
        std::vector<Rec> want;
        reference(*b.type, b.pmask, masks, cycles, 40, want);
        std::stable_sort(log.begin(), log.end());
        std::stable_sort(want.begin(), want.end());
        o.evals = log.size();
        std::ostringstream sig;
        for (auto &r : log) if (r.id == 1) sig << r.t << ",";
        o.sig = sig.str();
        // non-trivial: some cycle in which only passive/unrequired inputs ticked (the gate had to say no)
        o.nontrivial = want.size() < static_cast<std::size_t>(4 * cycles) && !want.empty();
        if (log.size() != want.size() || !std::equal(log.begin(), log.end(), want.begin()))
        {
            std::size_t i = 0;
            while (i < log.size() && i < want.size() && log[i] == want[i]) ++i;
            o.violation = "evaluation log differs from the activation/validity rule: first difference at #" + std::to_string(i) + " got " +
                          (i < log.size() ? log[i].str() : std::string{"<end>"}) + " want " + (i < want.size() ? want[i].str() : std::string{"<end>"});
        }
        return o;
    }

    // desc: "<type name>:<pmask>:<cycles>:<m0>,<m1>[,<m2>]"
    std::optional<std::string> run_desc(const std::string &desc)
    {
        build_types();
        auto p1 = desc.find(':'), p2 = desc.find(':', p1 + 1), p3 = desc.find(':', p2 + 1);
        const std::string name = desc.substr(0, p1);
        const unsigned pmask = static_cast<unsigned>(std::stoul(desc.substr(p1 + 1, p2 - p1 - 1)));
        const int cycles = std::stoi(desc.substr(p2 + 1, p3 - p2 - 1));
        std::vector<unsigned> masks;
        std::string cur;
        for (char c : desc.substr(p3 + 1)) { if (c == ',') { masks.push_back(static_cast<unsigned>(std::stoul(cur))); cur.clear(); } else cur += c; }
        if (!cur.empty()) masks.push_back(static_cast<unsigned>(std::stoul(cur)));
        for (auto &t : types())
            if (t.name == name)
            {
                Built b; build(b, t, pmask);
                bool any_active = false, declared_active = false;
                for (int i = 0; i < t.arity; ++i) { if (t.active[i]) declared_active = true; if (t.active[i] && !((pmask >> i) & 1u)) any_active = true; }
                if (declared_active && !any_active && !t.tsl)
                    return b.exc.find("passive would deactivate every input") == std::string::npos
                               ? std::optional<std::string>{"a passive() marker removing the last active input was not rejected at wiring"} : std::nullopt;
                return run(b, masks, cycles).violation;
            }
        throw verif::HarnessError("unknown probe type " + name);
    }
}  // namespace

void verif_init() { stdlib::register_standard_operators(); build_types(); }

std::optional<std::string> verif_run_case(verif::Ctx &, const std::string &desc) { return run_desc(desc); }

void verif_enumerate(verif::Ctx &ctx)
{
    const bool th = ctx.thorough();
    for (auto &t : types())
    {
        const int cycles = t.arity == 3 ? (th ? 5 : 4) : (th ? 6 : 5);
        const unsigned per = 1u << cycles;
        for (unsigned pmask = 0; pmask < (t.tsl ? 1u : (1u << t.arity)); ++pmask)
        {
            if (!ctx.next_is_mine()) continue;
            Built b;
            build(b, t, pmask);
            ctx.count("graphs_built");
            {
                // a passive() marker that would leave the node without any active input is rejected at wiring (documented guard)
                bool any_active = false, declared_active = false;
                for (int i = 0; i < t.arity; ++i) { if (t.active[i]) declared_active = true; if (t.active[i] && !((pmask >> i) & 1u)) any_active = true; }
                if (declared_active && !any_active && !t.tsl)
                {
                    ++ctx.evaluations;
                    ctx.count("all_passive_rejections");
                    if (b.exc.find("passive would deactivate every input") == std::string::npos)
                        ctx.violation(t.name + ":" + std::to_string(pmask) + ":1:0,0,0", "a passive() marker removing the last active input was not rejected at wiring", "all-passive not rejected");
                    continue;
                }
            }
            std::uint64_t nh = 1;
            for (int i = 0; i < t.arity; ++i) nh *= per;
            for (std::uint64_t hi = 0; hi < nh; ++hi)
            {
                std::vector<unsigned> masks;
                std::uint64_t x = hi;
                for (int i = 0; i < t.arity; ++i) { masks.push_back(static_cast<unsigned>(x % per)); x /= per; }
                std::ostringstream d;
                d << t.name << ":" << pmask << ":" << cycles << ":";
                for (std::size_t i = 0; i < masks.size(); ++i) d << (i ? "," : "") << masks[i];
                const std::string desc = d.str();
                ++ctx.evaluations; ++ctx.traces;
                Outcome o = run(b, masks, cycles);
                ctx.transitions += o.evals;
                ctx.state(t.name + "|" + std::to_string(pmask) + "|" + o.sig);
                if (o.nontrivial) ctx.nontriv(desc);
                if (o.violation)
                {
                    auto v2 = run_desc(desc);
                    if (!v2 || *v2 != *o.violation) throw verif::HarnessError("case not reproducible: " + desc);
                    ctx.violation(desc, *o.violation, t.name.substr(0, t.name.find('_')) + ": " + o.violation->substr(0, 60));
                }
                else if (ctx.evaluations % 20011 == 1) ctx.sample("cases", desc + " => probe evaluated at " + o.sig);
            }
        }
    }
    ctx.counters["probe_types"] = types().size();
}

VERIF_MAIN()
