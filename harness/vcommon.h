// Shared driver for the /verif harness executables.
//
// A harness defines   void verif_enumerate(verif::Ctx &)   (walk its share of the case space, calling
// ctx.run(desc) or doing its own search and reporting through ctx)   and
// std::optional<std::string> verif_run_case(verif::Ctx &, const std::string &desc)   (run ONE case described by a
// compact text descriptor; return a violation message or nullopt).  The driver handles sharding arguments,
// replay (--case), double-execution of failing cases (determinism proof obligation), and writes a JSON
// result file for the Python runner.
#pragma once
#include <cstdint>
#include <cstdio>
#include <cstdlib>
#include <cstring>
#include <chrono>
#include <fstream>
#include <functional>
#include <map>
#include <optional>
#include <set>
#include <sstream>
#include <string>
#include <unordered_set>
#include <vector>

namespace verif
{
    inline std::uint64_t fnv1a(const std::string &s, std::uint64_t h = 1469598103934665603ULL)
    {
        for (unsigned char c : s) { h ^= c; h *= 1099511628211ULL; }
        return h;
    }

    inline std::string json_escape(const std::string &s)
    {
        std::string o;
        o.reserve(s.size() + 8);
        for (unsigned char c : s)
        {
            switch (c)
            {
                case '"': o += "\\\""; break;
                case '\\': o += "\\\\"; break;
                case '\n': o += "\\n"; break;
                case '\t': o += "\\t"; break;
                case '\r': o += "\\r"; break;
                default:
                    if (c < 0x20) { char b[8]; std::snprintf(b, sizeof b, "\\u%04x", c); o += b; }
                    else o += static_cast<char>(c);
            }
        }
        return o;
    }

    struct Violation
    {
        std::string desc;       // case descriptor (replayable with --case)
        std::string message;    // what was expected / observed
        std::string signature;  // stable identity for known-findings matching
    };

    struct HarnessError : std::runtime_error { using std::runtime_error::runtime_error; };

    struct Ctx
    {
        std::string tier{"quick"};
        std::string sub{};  // optional sub-space selector
        long seed{0};
        unsigned shard{0}, nshards{1};
        bool replay{false};
        std::uint64_t case_counter{0};

        // measured coverage
        std::uint64_t evaluations{0};
        std::uint64_t transitions{0};
        std::uint64_t traces{0};
        std::unordered_set<std::uint64_t> states;      // canonical state / observation signatures
        std::unordered_set<std::uint64_t> nontrivial;  // distinct non-trivial cases
        std::map<std::string, std::uint64_t> counters;
        std::map<std::string, std::vector<std::string>> sample_groups;
        std::vector<Violation> violations;
        std::set<std::string> violation_sigs;
        std::uint64_t violation_count{0};
        bool capped{false};
        std::string cap_note;
        std::size_t max_samples{6};
        std::size_t max_violations{600};
        bool overflow{false};   // more distinct violation signatures than can be recorded

        bool mine(std::uint64_t idx) const { return nshards <= 1 || (idx % nshards) == shard; }
        /** Round-robin ownership for sequentially generated cases. */
        bool next_is_mine() { return mine(case_counter++); }
        bool thorough() const { return tier == "thorough"; }

        void sample(const std::string &group, const std::string &s)
        {
            auto &v = sample_groups[group];
            if (v.size() < max_samples) v.push_back(s);
        }
        void state(std::uint64_t h) { states.insert(h); }
        void state(const std::string &s) { states.insert(fnv1a(s)); }
        void nontriv(const std::string &s) { nontrivial.insert(fnv1a(s)); }
        void count(const std::string &k, std::uint64_t n = 1) { counters[k] += n; }

        void violation(const std::string &desc, const std::string &message, std::string signature = {})
        {
            ++violation_count;
            if (signature.empty()) signature = message.substr(0, message.find('\n'));
            // every DISTINCT signature is recorded (known-finding matching is per signature: a new one must never be crowded out by
            // listed ones); repeats of a signature only while the list is short
            if (!violation_sigs.insert(signature).second && violations.size() >= 3) return;
            if (violations.size() < max_violations) violations.push_back({desc, message, signature});
            else if (!overflow) { overflow = true; violations.push_back({desc, "more distinct violation signatures than the report holds; further ones are dropped: " + message, "violation list overflow"}); }
        }
    };
}  // namespace verif

// implemented by each harness
void verif_enumerate(verif::Ctx &ctx);
std::optional<std::string> verif_run_case(verif::Ctx &ctx, const std::string &desc);
// optional hook: called once before anything else
void verif_init();

namespace verif
{
    /** Run one case with the determinism obligation: a failing case must fail identically when re-run. */
    inline void run_checked(Ctx &ctx, const std::string &desc, const std::string &sig_prefix = {})
    {
        ++ctx.evaluations;
        std::optional<std::string> r;
        try { r = verif_run_case(ctx, desc); }
        catch (const HarnessError &) { throw; }
        if (!r) return;
        std::optional<std::string> r2 = verif_run_case(ctx, desc);
        if (!r2 || *r2 != *r)
        {
            throw HarnessError("non-deterministic outcome for case " + desc + "\n first: " + *r + "\n second: " +
                               (r2 ? *r2 : std::string{"<pass>"}));
        }
        ctx.violation(desc, *r, sig_prefix.empty() ? std::string{} : sig_prefix);
    }

    inline void write_result(const Ctx &ctx, const std::string &path, double wall, const std::string &error)
    {
        std::ofstream o(path);
        o << "{\n";
        o << "\"tier\":\"" << ctx.tier << "\",\"seed\":" << ctx.seed << ",\"shard\":" << ctx.shard
          << ",\"nshards\":" << ctx.nshards << ",\n";
        o << "\"evaluations\":" << ctx.evaluations << ",\"transitions\":" << ctx.transitions << ",\"traces\":" << ctx.traces
          << ",\n";
        o << "\"n_states\":" << ctx.states.size() << ",\"n_nontrivial\":" << ctx.nontrivial.size() << ",\n";
        o << "\"capped\":" << (ctx.capped ? "true" : "false") << ",\"cap_note\":\"" << json_escape(ctx.cap_note) << "\",\n";
        o << "\"wall_s\":" << wall << ",\n";
        o << "\"error\":\"" << json_escape(error) << "\",\n";
        o << "\"counters\":{";
        bool first = true;
        for (auto &[k, v] : ctx.counters) { o << (first ? "" : ",") << "\"" << json_escape(k) << "\":" << v; first = false; }
        o << "},\n\"samples\":{";
        first = true;
        for (auto &[k, v] : ctx.sample_groups)
        {
            o << (first ? "" : ",") << "\"" << json_escape(k) << "\":[";
            for (std::size_t i = 0; i < v.size(); ++i) o << (i ? "," : "") << "\"" << json_escape(v[i]) << "\"";
            o << "]";
            first = false;
        }
        o << "},\n\"violation_count\":" << ctx.violation_count << ",\n\"violations\":[";
        for (std::size_t i = 0; i < ctx.violations.size(); ++i)
        {
            auto &v = ctx.violations[i];
            o << (i ? "," : "") << "{\"desc\":\"" << json_escape(v.desc) << "\",\"message\":\"" << json_escape(v.message)
              << "\",\"signature\":\"" << json_escape(v.signature) << "\"}";
        }
        o << "]\n}\n";
        o.close();
        // hash sets, one hex per line, for exact cross-shard union in the runner
        auto dump = [&](const std::unordered_set<std::uint64_t> &s, const std::string &p) {
            std::ofstream h(p, std::ios::binary);
            std::vector<std::uint64_t> v(s.begin(), s.end());
            h.write(reinterpret_cast<const char *>(v.data()), static_cast<std::streamsize>(v.size() * sizeof(std::uint64_t)));
        };
        dump(ctx.states, path + ".states");
        dump(ctx.nontrivial, path + ".nontriv");
    }

    inline int driver_main(int argc, char **argv)
    {
        Ctx ctx;
        std::string out = "/dev/null", one_case;
        bool have_case = false;
        for (int i = 1; i < argc; ++i)
        {
            std::string a = argv[i];
            auto next = [&]() -> std::string { if (i + 1 >= argc) { std::fprintf(stderr, "missing value for %s\n", a.c_str()); std::exit(2); } return argv[++i]; };
            if (a == "--tier") ctx.tier = next();
            else if (a == "--sub") ctx.sub = next();
            else if (a == "--seed") ctx.seed = std::stol(next());
            else if (a == "--shard") { std::string s = next(); auto p = s.find('/'); ctx.shard = std::stoul(s.substr(0, p)); ctx.nshards = std::stoul(s.substr(p + 1)); }
            else if (a == "--out") out = next();
            else if (a == "--case") { one_case = next(); have_case = true; }
            else { std::fprintf(stderr, "unknown argument %s\n", a.c_str()); return 2; }
        }
        const auto t0 = std::chrono::steady_clock::now();
        std::string error;
        int rc = 0;
        try
        {
            verif_init();
            if (have_case)
            {
                ctx.replay = true;
                auto r1 = verif_run_case(ctx, one_case);
                auto r2 = verif_run_case(ctx, one_case);
                ++ctx.evaluations;
                if (r1.has_value() != r2.has_value() || (r1 && *r1 != *r2)) throw HarnessError("replay is not deterministic");
                if (r1) { ctx.violation(one_case, *r1); std::printf("REPLAY-VIOLATION %s\n%s\n", one_case.c_str(), r1->c_str()); }
                else std::printf("REPLAY-PASS %s\n", one_case.c_str());
            }
            else { verif_enumerate(ctx); }
        }
        catch (const HarnessError &e) { error = std::string{"harness error: "} + e.what(); rc = 2; }
        catch (const std::exception &e) { error = std::string{"unexpected exception: "} + e.what(); rc = 2; }
        const double wall = std::chrono::duration<double>(std::chrono::steady_clock::now() - t0).count();
        write_result(ctx, out, wall, error);
        if (rc != 0) { std::fprintf(stderr, "%s\n", error.c_str()); return rc; }
        return ctx.violation_count ? 1 : 0;
    }
}  // namespace verif

#define VERIF_MAIN() int main(int argc, char **argv) { return verif::driver_main(argc, argv); }
