// C13 (lookup part) — a consumer that reads an ELEMENT of a referenced dictionary: probe(getitem_(if_then_else(c, A, B), key)).
// The element lookup hangs off the reference as a purely structural observer of the selected dictionary; when the reference is
// re-pointed it must re-resolve to the NEW dictionary's entry - also when both dictionaries hold the same keys. A and B hold key 1
// from cycle 0 on (so the looked-up target is always valid) and differ or agree in whether they hold key 2 (added / erased over
// time). Every history of selector tick {-,T,F} x op on A {-, write A[1], write A[2], erase A[2]} x op on B (same) per cycle.
// Oracle: the consumer is evaluated exactly when the selected dictionary's entry 1 is written or the selection changes (first
// selection included); it reads the selected dictionary's entry; republishing the same selection, writes to the other dictionary and
// key-set changes that leave entry 1 alone never evaluate it.
#include "tsshapes.h"
using namespace hgraph;
using namespace tsshapes;

namespace
{
    struct Run { std::vector<std::string> sel, a, b; int cycles{0}; std::vector<std::pair<long, long>> evals; };
    Run *g = nullptr;

    long value_of(int which, long key, long c) { return (which + 1) * 1000 + key * 100 + c; }

    struct SelWriter
    {
        static constexpr auto name = "c13g_sel_writer";
        static constexpr bool schedule_on_start = true;
        static void eval(NodeScheduler sched, DateTime now, Out<TS<Bool>> out)
        {
            const long c = rel(now);
            if (c < g->cycles) { const std::string &op = g->sel[static_cast<std::size_t>(c)]; if (!op.empty()) out.set(Bool{op == "T"}); }
            if (c + 1 < g->cycles) sched.schedule(MIN_TD);
        }
    };
    struct DictWriter   // ops: "1" write [1], "2" write [2], "e" erase [2], "12" both
    {
        static constexpr auto name = "c13g_dict_writer";
        static constexpr bool schedule_on_start = true;
        static void eval(NodeScheduler sched, DateTime now, Scalar<"which", Int> which, Out<DictI> out)
        {
            const long c = rel(now);
            if (c < g->cycles)
            {
                const std::string &op = (which.value() == 0 ? g->a : g->b)[static_cast<std::size_t>(c)];
                for (char ch : op)
                {
                    if (ch == '1') out.set(Int{1}, Int{value_of(static_cast<int>(which.value()), 1, c)});
                    else if (ch == '2') out.set(Int{2}, Int{value_of(static_cast<int>(which.value()), 2, c)});
                    else if (ch == 'e') (void)out.erase(Int{2});
                }
            }
            if (c + 1 < g->cycles) sched.schedule(MIN_TD);
        }
    };
    struct Probe { static constexpr auto name = "c13g_probe"; static void eval(In<"x", TS<Int>> x, DateTime now) { g->evals.emplace_back(rel(now), static_cast<long>(x.value())); } };

    struct Outcome { std::optional<std::string> violation; std::string sig; bool nontrivial{false}; };

    // desc: <sel;sel;..>|<a;a;..>|<b;b;..>
    Outcome run_desc(const std::string &desc)
    {
        Outcome out;
        auto parts = split(desc, '|');
        Run run; run.sel = split(parts.at(0), ';'); run.a = split(parts.at(1), ';'); run.b = split(parts.at(2), ';'); run.cycles = static_cast<int>(run.sel.size());
        std::string exc;
        g = &run;
        try
        {
            Wiring w;
            auto a = wire<DictWriter>(w, Int{0});
            auto b = wire<DictWriter>(w, Int{1});
            auto selected = wire<stdlib::if_then_else>(w, wire<SelWriter>(w), a, b).template as<DictI>();
            auto item = wire<stdlib::getitem_>(w, selected, wire<stdlib::const_, TS<Int>>(w, Int{1})).template as<TS<Int>>();
            wire<Probe>(w, item);
            GraphBuilder gb = std::move(w).finish();
            GraphExecutorBuilder eb;
            eb.graph_builder(std::move(gb)).start_time(MIN_ST).end_time(MIN_ST + TimeDelta{run.cycles + 2});
            auto ex = eb.make_executor();
            ex.view().run();
        }
        catch (const std::exception &e) { exc = e.what(); }
        g = nullptr;
        if (!exc.empty()) { out.violation = "run threw: " + exc; return out; }
        // model
        std::vector<std::pair<long, long>> want;
        long cur[2] = {0, 0}; bool has2[2] = {false, false};
        int selected = -1; bool same_keys_retarget = false;
        for (int c = 0; c < run.cycles; ++c)
        {
            bool wrote1[2] = {false, false};
            for (int d = 0; d < 2; ++d)
                for (char ch : (d == 0 ? run.a : run.b)[static_cast<std::size_t>(c)])
                {
                    if (ch == '1') { cur[d] = value_of(d, 1, c); wrote1[d] = true; }
                    else if (ch == '2') has2[d] = true;
                    else if (ch == 'e') has2[d] = false;
                }
            bool retarget = false;
            const std::string &s = run.sel[static_cast<std::size_t>(c)];
            if (!s.empty()) { const int ns = s == "T" ? 0 : 1; if (ns != selected) { retarget = true; if (selected >= 0 && has2[0] == has2[1]) same_keys_retarget = true; selected = ns; } }
            if (selected >= 0 && (retarget || wrote1[selected])) want.emplace_back(c, cur[selected]);
        }
        std::ostringstream sig;
        for (auto &[t, v] : run.evals) sig << t << "=" << v << ",";
        if (run.evals != want)
        {
            std::string gs, ws;
            for (auto &[t, v] : run.evals) gs += "t" + std::to_string(t) + "=" + std::to_string(v) + " ";
            for (auto &[t, v] : want) ws += "t" + std::to_string(t) + "=" + std::to_string(v) + " ";
            out.violation = "the consumer of selected[1] was evaluated [" + gs + "] but the selected dictionary's entry gives [" + ws + "] (values 1xxx belong to A, 2xxx to B)";
        }
        out.sig = sig.str();
        out.nontrivial = same_keys_retarget;
        return out;
    }
}  // namespace

void verif_init() { stdlib::register_standard_operators(); }
std::optional<std::string> verif_run_case(verif::Ctx &, const std::string &desc) { return run_desc(desc).violation; }

void verif_enumerate(verif::Ctx &ctx)
{
    const int T = ctx.thorough() ? 4 : 3;   // cycles after the initial one
    const std::vector<std::string> sels = {"", "T", "F"}, ops = {"", "1", "2", "e"};
    const std::vector<std::array<std::string, 3>> inits = {{"T", "12", "12"}, {"T", "12", "1"}, {"F", "1", "12"}, {"T", "1", "1"}, {"", "12", "1"}, {"", "1", "1"}};
    std::vector<int> idx(static_cast<std::size_t>(T), 0);
    const int per = static_cast<int>(sels.size() * ops.size() * ops.size());
    while (true)
    {
        for (auto &init : inits)
        {
            if (!ctx.next_is_mine()) continue;
            std::string s = init[0], a = init[1], b = init[2];
            for (int c = 0; c < T; ++c)
            {
                const int v = idx[static_cast<std::size_t>(c)];
                s += ";" + sels[static_cast<std::size_t>(v % 3)]; a += ";" + ops[static_cast<std::size_t>((v / 3) % 4)]; b += ";" + ops[static_cast<std::size_t>(v / 12)];
            }
            const std::string desc = s + "|" + a + "|" + b;
            ++ctx.evaluations; ++ctx.traces; ctx.transitions += static_cast<std::uint64_t>(T + 1);
            Outcome o = run_desc(desc);
            ctx.state(o.sig);
            if (o.nontrivial) ctx.nontriv(desc);
            ctx.count("getitem_cases");
            if (o.violation)
            {
                Outcome o2 = run_desc(desc);
                if (!o2.violation || *o2.violation != *o.violation) throw verif::HarnessError("case not reproducible: " + desc);
                ctx.violation(desc, *o.violation, "getitem: " + o.violation->substr(0, 60));
            }
            else if (ctx.evaluations % 9973 == 1) ctx.sample("cases", desc);
        }
        int p = 0;
        while (p < T && ++idx[static_cast<std::size_t>(p)] == per) { idx[static_cast<std::size_t>(p)] = 0; ++p; }
        if (p == T) break;
    }
}

VERIF_MAIN()
