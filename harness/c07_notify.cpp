// C07 (notification part) — runs that use the engine's before/after-evaluation notifications, and runs that FAIL, in one process
// and thread. Graphs: G (a node registering an after-evaluation callback per evaluation), H (before- and after-evaluation callbacks
// and a second node), F (registers two after-evaluation callbacks, the second throws: the run fails - allowed), E (a node that throws
// in its evaluation in cycle 1 after registering a callback). Every history of <= L runs over {G, H, F, E} x 2 inputs. Oracle: what a
// run produces (outputs, callbacks executed, error text) is a function of (graph, input) only - equal to the same graph run alone
// before anything else ran in the process (taken once, at start-up); a failing run leaves nothing behind for the next one.
#include "vpch.h"
#include "vcommon.h"
#include "tsshapes.h"
using namespace hgraph;
using namespace hgraph::testing;

namespace
{
    std::vector<std::string> g_log;
    struct Doubler
    {
        static constexpr auto name = "c07n_doubler";
        static void eval(In<"x", TS<Int>> x, EngineControlView engine, Out<TS<Int>> out)
        {
            const long v = x.value();
            engine.add_after_evaluation_notification([v] { g_log.push_back("G-after-" + std::to_string(v)); });
            out.set(Int{v * 2});
        }
    };
    struct Both
    {
        static constexpr auto name = "c07n_both";
        static void eval(In<"x", TS<Int>> x, EngineControlView engine, Out<TS<Int>> out)
        {
            const long v = x.value();
            engine.add_before_evaluation_notification([v] { g_log.push_back("H-before-next-" + std::to_string(v)); });
            engine.add_after_evaluation_notification([v] { g_log.push_back("H-after-" + std::to_string(v)); });
            out.set(Int{v + 100});
        }
    };
    struct Plus { static constexpr auto name = "c07n_plus"; static void eval(In<"x", TS<Int>> x, Out<TS<Int>> out) { out.set(x.value() + 1); } };
    struct BothG { static constexpr auto name = "c07n_both_g"; static Port<TS<Int>> compose(Wiring &w, Port<TS<Int>> x) { return wire<Plus>(w, wire<Both>(w, x)); } };
    struct Faulty
    {
        static constexpr auto name = "c07n_faulty";
        static void eval(In<"x", TS<Int>> x, EngineControlView engine, Out<TS<Int>> out)
        {
            engine.add_after_evaluation_notification([] { g_log.push_back("F-release"); });
            engine.add_after_evaluation_notification([] { throw std::runtime_error("F: release hook failed"); });
            out.set(x.value());
        }
    };
    struct EvalFails
    {
        static constexpr auto name = "c07n_eval_fails";
        static void eval(In<"x", TS<Int>> x, EngineControlView engine, Out<TS<Int>> out)
        {
            const long v = x.value();
            engine.add_after_evaluation_notification([v] { g_log.push_back("E-after-" + std::to_string(v)); });
            if (v % 2 == 0) throw std::runtime_error("E: even input");
            out.set(Int{v});
        }
    };

    const std::vector<std::optional<Int>> INPUTS[2] = {{Int{1}, Int{2}, Int{3}}, {Int{5}, std::nullopt, Int{7}, Int{9}}};

    template <typename NodeT> std::string run_one(int h)
    {
        g_log.clear();
        std::string s;
        try
        {
            auto out = eval_node<NodeT>(INPUTS[h]);
            s = "out=[";
            for (auto &o : out) s += (o.has_value() ? std::to_string(static_cast<long>(*o)) : std::string{"-"}) + ",";
            s += "]";
        }
        catch (const std::exception &e) { s = std::string{"error='"} + e.what() + "'"; }
        s += " callbacks=[";
        for (auto &l : g_log) s += l + ",";
        return s + "]";
    }
    std::string run_letter(char g, int h)
    {
        switch (g)
        {
            case 'G': return run_one<Doubler>(h);
            case 'H': return run_one<BothG>(h);
            case 'F': return run_one<Faulty>(h);
            case 'E': return run_one<EvalFails>(h);
        }
        throw verif::HarnessError("bad letter");
    }
    std::map<std::string, std::string> g_reference;   // letter+input -> trace of the run taken alone at start-up

    std::optional<std::string> run_history(const std::string &desc, std::string *sig, bool *nontrivial)
    {
        bool failed_before = false;
        std::string all;
        for (std::size_t i = 0; i + 1 < desc.size(); i += 2)
        {
            const std::string key = desc.substr(i, 2);
            const std::string got = run_letter(key[0], key[1] - '0');
            all += got + ";";
            if (failed_before && got.rfind("out=", 0) == 0 && nontrivial) *nontrivial = true;
            if (got.rfind("error=", 0) == 0) failed_before = true;
            if (got != g_reference.at(key))
                return "after history [" + desc.substr(0, i) + "], run " + key + " gave\n     " + got + "\n   but the same graph on the same input run alone gives\n     " + g_reference.at(key);
        }
        if (sig) *sig = all;
        return std::nullopt;
    }
}  // namespace

void verif_init()
{
    stdlib::register_standard_operators();
    for (char g : std::string{"GHFE"}) for (int h = 0; h < 2; ++h) g_reference[std::string(1, g) + std::to_string(h)] = run_letter(g, h);
    // the references themselves must be sane: G / H succeed with their callbacks, F / E fail
    if (g_reference["G0"].rfind("out=[2,4,6,]", 0) != 0 || g_reference["G0"].find("G-after-3") == std::string::npos) throw verif::HarnessError("reference of G0 is not what the graph defines: " + g_reference["G0"]);
    if (g_reference["F0"].rfind("error=", 0) != 0 || g_reference["E0"].rfind("error=", 0) != 0) throw verif::HarnessError("F / E are meant to fail");
}
std::optional<std::string> verif_run_case(verif::Ctx &, const std::string &desc) { return run_history(desc, nullptr, nullptr); }

void verif_enumerate(verif::Ctx &ctx)
{
    const int L = ctx.thorough() ? 5 : 4;
    std::vector<std::string> letters; for (char g : std::string{"GHFE"}) for (int h = 0; h < 2; ++h) letters.push_back(std::string(1, g) + std::to_string(h));
    std::vector<std::string> hist = {""};
    for (int l = 1; l <= L; ++l)
    {
        std::vector<std::string> next;
        for (auto &p : hist) for (auto &a : letters) next.push_back(p + a);
        for (auto &d : next)
        {
            if (!ctx.next_is_mine()) continue;
            std::string sig; bool nt = false;
            ++ctx.evaluations; ++ctx.traces; ctx.transitions += static_cast<std::uint64_t>(l);
            auto v = run_history(d, &sig, &nt);
            ctx.state(sig); if (nt) ctx.nontriv(d); ctx.count("notify_histories");
            if (v)
            {
                auto v2 = run_history(d, nullptr, nullptr);
                if (!v2 || *v2 != *v) throw verif::HarnessError("case not reproducible: " + d);
                ctx.violation(d, *v, "notify: " + d.substr(d.size() - 2) + " after a history differs from its run alone");
            }
        }
        hist.swap(next);
    }
}

VERIF_MAIN()
