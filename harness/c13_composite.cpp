// C13 (composite part) — a reference to a COMPOSITE assembled on the consumer side (to_tsb / to_tsl of independent producers:
// one sub-reference per leg, no single output behind it) behaves like a reference to a single output: a consumer reading
// through if_then_else(sel, CA, CB) is evaluated when a leg of the selected composite ticks or when the selection moves to the
// other composite, never on a re-published selection or on a tick of a de-selected leg, and reads the selected legs' values.
// CA and CB share no producer, share their FIRST leg, or share their LAST leg (two references that agree on one leg and
// differ on the other are different references).
//   producers P, P2, QA, QB : TS<Int>, all tick in cycle 0 (every leg valid from the start); selector ticks T in cycle 0
//   variant f: CA = (P, QA)  CB = (P, QB)      l: CA = (QA, P)  CB = (QB, P)      n: CA = (P, QA)  CB = (P2, QB)
// Histories: per later cycle {selector -, T, F} x {P tick} x {QA tick} x {QB tick}; all of them over T cycles.
#include "vpch.h"
#include "vcommon.h"
#include "tsshapes.h"
using namespace hgraph;
using namespace hgraph::testing;

namespace
{
    using tsshapes::split;
    using PairB = UnNamedTSB<Field<"a", TS<Int>>, Field<"b", TS<Int>>>;
    using PairL = TSL<TS<Int>, 2>;
    long rel(DateTime t) { return static_cast<long>((t - MIN_ST) / MIN_TD); }

    struct Script { std::vector<std::string> sel; std::vector<unsigned> ticks; };   // ticks bit0 P, bit1 QA, bit2 QB, bit3 P2
    const Script *G = nullptr;
    struct Ev { long t; bool va, vb; long a, b; };
    std::vector<Ev> *LOG = nullptr;

    struct Sel
    {
        static constexpr auto name = "c13c_sel";
        static constexpr bool schedule_on_start = true;
        static void eval(NodeScheduler sched, DateTime now, Out<TS<Bool>> out)
        {
            const long c = rel(now);
            if (c < static_cast<long>(G->sel.size()) && !G->sel[static_cast<std::size_t>(c)].empty()) out.set(Bool{G->sel[static_cast<std::size_t>(c)] == "T"});
            if (c + 1 < static_cast<long>(G->sel.size())) sched.schedule(MIN_TD);
        }
    };
    struct Prod
    {
        static constexpr auto name = "c13c_prod";
        static constexpr bool schedule_on_start = true;
        static void eval(NodeScheduler sched, Scalar<"bit", Int> bit, DateTime now, Out<TS<Int>> out)
        {
            const long c = rel(now);
            if (c < static_cast<long>(G->ticks.size()) && ((G->ticks[static_cast<std::size_t>(c)] >> bit.value()) & 1u)) out.set(Int{1000 * (bit.value() + 1) + c});
            if (c + 1 < static_cast<long>(G->ticks.size())) sched.schedule(MIN_TD);
        }
    };
    struct ConsB
    {
        static constexpr auto name = "c13c_cons_bundle";
        static void eval(In<"x", PairB, InputActivity::Active, InputValidity::Unchecked> x, DateTime now)
        {
            auto a = x.template field<"a">(); auto b = x.template field<"b">();
            LOG->push_back({rel(now), a.valid(), b.valid(), a.valid() ? static_cast<long>(a.value()) : -1, b.valid() ? static_cast<long>(b.value()) : -1});
        }
    };
    struct ConsL
    {
        static constexpr auto name = "c13c_cons_list";
        static void eval(In<"x", PairL, InputActivity::Active, InputValidity::Unchecked> x, DateTime now)
        {
            auto a = x[0]; auto b = x[1];
            LOG->push_back({rel(now), a.valid(), b.valid(), a.valid() ? static_cast<long>(a.value()) : -1, b.valid() ? static_cast<long>(b.value()) : -1});
        }
    };

    struct Outcome { std::optional<std::string> violation; std::string sig; std::size_t evals{0}; bool nontrivial{false}; };
    // desc: <shape b|l><variant f|l|n>|<sel;sel;..>|<ticks;ticks;..>      cycle 0 is implied (sel T, all producers tick)
    Outcome run_desc(const std::string &desc)
    {
        Outcome out;
        const auto parts = split(desc, '|');
        if (parts.size() != 3) throw verif::HarnessError("bad case " + desc);
        const char shape = parts[0][0], variant = parts[0][1];
        Script sc;
        sc.sel.push_back("T"); sc.ticks.push_back(15u);
        for (auto &s : split(parts[1], ';')) sc.sel.push_back(s);
        for (auto &s : split(parts[2], ';')) sc.ticks.push_back(static_cast<unsigned>(std::stoul(s)));
        if (sc.sel.size() != sc.ticks.size()) throw verif::HarnessError("bad case " + desc);
        std::vector<Ev> log; G = &sc; LOG = &log;
        std::string exc;
        try
        {
            Wiring w;
            auto sel = wire<Sel>(w);
            auto p = wire<Prod>(w, Int{0}), qa = wire<Prod>(w, Int{1}), qb = wire<Prod>(w, Int{2}), p2 = wire<Prod>(w, Int{3});
            auto legs = [&](bool first_composite) -> std::pair<Port<TS<Int>>, Port<TS<Int>>> {
                if (variant == 'f') return {p, first_composite ? qa : qb};
                if (variant == 'l') return {first_composite ? qa : qb, p};
                return {first_composite ? p : p2, first_composite ? qa : qb};
            };
            auto [a1, b1] = legs(true); auto [a2, b2] = legs(false);
            if (shape == 'b')
            {
                auto ca = stdlib::to_tsb<PairB>(w, a1, b1); auto cb = stdlib::to_tsb<PairB>(w, a2, b2);
                wire<ConsB>(w, wire<stdlib::if_then_else>(w, sel, ca, cb).template as<PairB>());
            }
            else
            {
                auto ca = stdlib::to_tsl<PairL>(w, a1, b1).template as<PairL>(); auto cb = stdlib::to_tsl<PairL>(w, a2, b2).template as<PairL>();
                wire<ConsL>(w, wire<stdlib::if_then_else>(w, sel, ca, cb).template as<PairL>());
            }
            GraphBuilder gb = std::move(w).finish();
            GraphExecutorBuilder eb;
            eb.graph_builder(std::move(gb)).start_time(MIN_ST).end_time(MIN_ST + MIN_TD * static_cast<long>(sc.sel.size() + 3));
            auto ex = eb.make_executor();
            ex.view().run();
        }
        catch (const std::exception &e) { exc = e.what(); }
        G = nullptr; LOG = nullptr;
        if (!exc.empty()) { out.violation = "wiring / run threw: " + exc; return out; }
        out.evals = log.size();
        std::map<long, const Ev *> at;
        for (auto &e : log) { if (at.count(e.t)) { out.violation = "the consumer was evaluated twice in cycle " + std::to_string(e.t); return out; } at[e.t] = &e; }
        long val[4] = {0, 0, 0, 0};
        bool sel_first = true;
        std::string sig;
        for (std::size_t c = 0; c < sc.sel.size(); ++c)
        {
            const unsigned tk = sc.ticks[c];
            for (int i = 0; i < 4; ++i) if ((tk >> i) & 1u) val[i] = 1000 * (i + 1) + static_cast<long>(c);
            bool retarget = false;
            if (!sc.sel[c].empty()) { const bool nf = sc.sel[c] == "T"; retarget = c > 0 && nf != sel_first; sel_first = nf; }
            // producer index of each leg of the selected composite
            int la, lb;
            if (variant == 'f') { la = 0; lb = sel_first ? 1 : 2; }
            else if (variant == 'l') { la = sel_first ? 1 : 2; lb = 0; }
            else { la = sel_first ? 0 : 3; lb = sel_first ? 1 : 2; }
            const bool leg_tick = ((tk >> la) & 1u) || ((tk >> lb) & 1u);
            const bool must = c == 0 || retarget || leg_tick;
            const Ev *e = at.count(static_cast<long>(c)) ? at[static_cast<long>(c)] : nullptr;
            sig += e ? "E" : ".";
            if (retarget) out.nontrivial = true;
            if (out.violation) continue;
            const std::string where = "cycle " + std::to_string(c) + " (selector '" + sc.sel[c] + "', ticks " + std::to_string(tk) + ", selected " + (sel_first ? "CA" : "CB") + "): ";
            if (must && !e) out.violation = where + "the consumer was not evaluated although " + (retarget ? "the reference was re-pointed to the other composite" : "a leg of the selected composite ticked");
            else if (!must && e) out.violation = where + "the consumer was evaluated although the selection did not move and no leg of the selected composite ticked";
            else if (e && (!e->va || !e->vb || e->a != val[la] || e->b != val[lb]))
                out.violation = where + "the consumer read (" + (e->va ? std::to_string(e->a) : std::string{"-"}) + ", " + (e->vb ? std::to_string(e->b) : std::string{"-"}) + ") through the reference, the selected composite holds (" + std::to_string(val[la]) + ", " + std::to_string(val[lb]) + ")";
        }
        out.sig = std::string(1, shape) + variant + sig;
        return out;
    }
}  // namespace

void verif_init() { stdlib::register_standard_operators(); }
std::optional<std::string> verif_run_case(verif::Ctx &, const std::string &desc) { return run_desc(desc).violation; }

void verif_enumerate(verif::Ctx &ctx)
{
    const bool th = ctx.thorough();
    const int T = th ? 4 : 3;
    const std::vector<std::string> sels = {"", "T", "F"};
    // per cycle: selector x ticks of P, QA, QB (P2 ticks together with P: it only matters in variant n)
    std::vector<std::pair<std::string, unsigned>> letters;
    for (auto &s : sels) for (unsigned t = 0; t < 8; ++t) letters.push_back({s, t | ((t & 1u) << 3)});
    for (char shape : std::string{"bl"})
        for (char variant : std::string{"fln"})
        {
            std::vector<std::size_t> idx(static_cast<std::size_t>(T), 0);
            while (true)
            {
                if (ctx.next_is_mine())
                {
                    std::string s, t;
                    for (int c = 0; c < T; ++c) { s += (c ? ";" : "") + letters[idx[static_cast<std::size_t>(c)]].first; t += (c ? ";" : "") + std::to_string(letters[idx[static_cast<std::size_t>(c)]].second); }
                    const std::string desc = std::string(1, shape) + variant + "|" + s + "|" + t;
                    ++ctx.evaluations; ++ctx.traces;
                    Outcome o = run_desc(desc);
                    ctx.transitions += o.evals;
                    ctx.state(o.sig);
                    if (o.nontrivial) ctx.nontriv(desc);
                    ctx.count(std::string{"cases_"} + shape + variant);
                    if (o.violation)
                    {
                        Outcome o2 = run_desc(desc);
                        if (!o2.violation || *o2.violation != *o.violation) throw verif::HarnessError("case not reproducible: " + desc);
                        const auto p = o.violation->find("): ");
                        ctx.violation(desc, *o.violation, std::string{"composite "} + shape + variant + ": " + (p == std::string::npos ? o.violation->substr(0, 60) : o.violation->substr(p + 3, 60)));
                    }
                    else if (ctx.evaluations % 4999 == 1) ctx.sample("cases", desc);
                }
                int p = 0;
                while (p < T && ++idx[static_cast<std::size_t>(p)] == letters.size()) { idx[static_cast<std::size_t>(p)] = 0; ++p; }
                if (p == T) break;
            }
        }
}

VERIF_MAIN()
