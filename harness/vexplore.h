// Iterative-context-bounded exploration of the schedules of one closed harness configuration (used with vsched.h).
// An execution is identified by its list of choices; children of an execution deviate from it at one later choice point.
#pragma once
#include "vcommon.h"
#include "vsched.h"
#include <optional>
#include <set>

namespace vs
{
    struct ExecResult { std::optional<std::string> violation; std::string outcome; };
    using ExecFn = std::function<ExecResult(const std::vector<int> &prefix, std::vector<ChoicePoint> &trace)>;

    inline int option_cost(const ChoicePoint &cp, std::size_t index)
    {
        if (index == 0) return 0;
        const int o = cp.options[index];
        if (o >= 4000) return 1;                               // a spurious wake-up of a condition waiter
        if (o >= 3000) return 1;                               // the wall clock jumped before this read: a deviation from the default environment
        if (o >= 2000) return 0;                               // which waiter a signal wakes: the implementation's free choice
        if (cp.current_enabled) return 1;                      // preemption of a runnable thread (or a timer firing under it)
        if (o >= 1000 && cp.options[0] < 1000) return 1;       // a timer firing although some thread could run
        return 0;                                              // the running thread blocked: any continuation is free
    }

    inline FILE *dump_file() { static FILE *f = getenv("VS_DUMP") ? fopen(getenv("VS_DUMP"), "w") : nullptr; return f; }

    struct Explorer
    {
        ExecFn exec;
        int bound{2};
        std::uint64_t executions{0}, max_choice_points{0}, cap{2000000};
        std::set<std::string> outcomes;
        std::optional<std::string> violation;
        std::vector<int> violating_choices;
        bool capped{false};
        verif::Ctx *ctx{nullptr};
        std::string desc, root_outcome;
        std::uint64_t top_counter{0};

        void explore(const std::vector<int> &prefix, int depth = 0)
        {
            if (violation || capped) return;
            if (executions >= cap) { capped = true; return; }
            std::vector<ChoicePoint> trace;
            ExecResult r = exec(prefix, trace);
            const bool is_root = prefix.empty();
            if (is_root) root_outcome = r.outcome;
            // shards split the subtrees below depth `split` (1 when the bound allows one deviation, else 2); the executions above are repeated by
            // every shard (to find their children) and counted by shard 0 only
            const int split = bound <= 1 ? 1 : 2;
            const bool counted = depth >= split || !ctx || ctx->shard == 0;
            if (counted) ++executions;
            if (FILE *dump = dump_file())
            {
                std::string line;
                for (auto &cp : trace) { line += cp.kind; line += ':'; for (int o : cp.options) line += std::to_string(o) + "."; line += "=" + std::to_string(cp.chosen_index) + " "; }
                fprintf(dump, "%s || %s || %s\n", line.c_str(), r.outcome.c_str(), r.violation ? r.violation->c_str() : "ok");
            }
            max_choice_points = std::max<std::uint64_t>(max_choice_points, trace.size());
            outcomes.insert(r.outcome);
            if (ctx && counted) { ctx->transitions += trace.size(); ctx->state(desc + "#" + r.outcome); if (r.outcome != root_outcome) ctx->nontriv(desc + "#" + r.outcome); }
            if (r.violation) { violation = r.violation; violating_choices.clear(); for (auto &cp : trace) violating_choices.push_back(cp.chosen_index); return; }
            int used = 0;
            std::vector<int> base;
            for (std::size_t i = 0; i < trace.size(); ++i)
            {
                const ChoicePoint &cp = trace[i];
                if (i >= prefix.size())
                    for (std::size_t alt = 1; alt < cp.options.size(); ++alt)
                    {
                        if (used + option_cost(cp, alt) > bound) continue;
                        if (depth == split - 1 && ctx && !ctx->mine(top_counter++)) continue;
                        std::vector<int> child = base;
                        child.push_back(static_cast<int>(alt));
                        explore(child, depth + 1);
                        if (violation || capped) return;
                    }
                used += option_cost(cp, static_cast<std::size_t>(cp.chosen_index));
                base.push_back(cp.chosen_index);
            }
        }
    };

    /** Explore one configuration within an enumeration and account for it in ctx. `desc` must not contain ";prefix=". */
    inline void explore_config(verif::Ctx &ctx, const std::string &desc, int bound, std::uint64_t cap, const ExecFn &exec)
    {
        Explorer ex; ex.exec = exec; ex.bound = bound; ex.ctx = &ctx; ex.desc = desc; ex.cap = cap;
        ex.explore({});
        ctx.evaluations += ex.executions;
        ctx.traces += ex.executions;
        ctx.count("executions", ex.executions);
        if (ctx.shard == 0)
        {
            ctx.count("configs");
            ctx.counters["max_choice_points_in_one_execution"] = std::max<std::uint64_t>(ctx.counters["max_choice_points_in_one_execution"], ex.max_choice_points);
        }
        if (ex.capped) { ctx.capped = true; ctx.cap_note = "execution cap hit for " + desc; }
        ctx.sample("configs", desc + " => " + std::to_string(ex.executions) + " executions in this shard, " + std::to_string(ex.outcomes.size()) + " distinct observable histories");
        if (ex.violation)
        {
            std::string pf;
            for (std::size_t i = 0; i < ex.violating_choices.size(); ++i) pf += (i ? "," : "") + std::to_string(ex.violating_choices[i]);
            const std::string rdesc = desc + ";prefix=" + pf;
            // determinism obligation: the recorded schedule must fail identically when replayed
            std::vector<ChoicePoint> t2;
            ExecResult again = exec(ex.violating_choices, t2);
            if (!again.violation || *again.violation != *ex.violation) throw verif::HarnessError("schedule is not reproducible: " + rdesc + " first: " + *ex.violation + " replay: " + (again.violation ? *again.violation : std::string{"pass"}));
            ctx.violation(rdesc, *ex.violation, ex.violation->substr(0, 48));
        }
    }

    inline std::vector<std::string> split(const std::string &s, char sep)
    {
        std::vector<std::string> out; std::string cur;
        for (char c : s) { if (c == sep) { out.push_back(cur); cur.clear(); } else cur += c; }
        out.push_back(cur);
        return out;
    }
}  // namespace vs
