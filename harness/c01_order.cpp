// C01 — nodes evaluate at most once per cycle and only after their producers; cycles are rejected.
// GRAPH-X: every DAG over the vocabulary up to N statements x every insertion order (via delayed_binding) x every
// source coincidence pattern; static edge check, lifecycle monitor, and comparison of every logged read with the
// per-cycle reference interpreter. Cyclic programs (delayed bindings / rank dependencies) must be rejected by finish().
#include "gx.h"
using namespace gx;

namespace
{
    struct Space
    {
        int max_nodes;       // statements (excluding auto sinks)
        std::vector<Kind> kinds;
        int cycles;
        int max_sources;
    };

    // Enumerate canonical-order DAG programs: statement i picks a kind and inputs among earlier compatible ports.
    // Pruning (stated in the evidence): at most max_sources sources; every statement except the last is consumed by
    // a later statement (sinks observe every port anyway, dead statements add no ordering constraint).
    void gen(const Space &sp, std::vector<Stmt> &cur, std::function<void(const std::vector<Stmt> &)> emit, int target_n)
    {
        const int i = static_cast<int>(cur.size());
        if (i == target_n)
        {
            std::vector<bool> used(cur.size(), false);
            for (auto &s : cur) for (int j = 0; j < n_inputs(s.kind); ++j) if (s.in[j] >= 0) used[static_cast<std::size_t>(s.in[j])] = true;
            for (int j = 0; j + 1 < target_n; ++j) if (!used[static_cast<std::size_t>(j)]) return;
            emit(cur);
            return;
        }
        std::vector<int> iports, bports;
        int nsrc = 0;
        for (int j = 0; j < i; ++j) { (is_bool_kind(cur[j].kind) ? bports : iports).push_back(j); if (n_inputs(cur[j].kind) == 0) ++nsrc; }
        for (Kind k : sp.kinds)
        {
            const int ni = n_inputs(k);
            if (ni == 0)
            {
                if (nsrc >= sp.max_sources) continue;
                // canonical form: sources come in a block at the front of the canonical numbering (insertion order is separate)
                if (i > 0 && n_inputs(cur[i - 1].kind) != 0) continue;
                Stmt s; s.kind = k; if (k == TICK) s.k = 2 * 16 + 2;
                cur.push_back(s); gen(sp, cur, emit, target_n); cur.pop_back();
                continue;
            }
            if (iports.empty()) continue;
            if (k == ITE && bports.empty()) continue;
            std::vector<std::vector<int>> choices;
            if (ni == 1) for (int a : iports) choices.push_back({a});
            if (ni == 2) for (int a : iports) for (int b : iports) choices.push_back({a, b});
            if (ni == 3 && k == ITE) for (int c : bports) for (int a : iports) for (int b : iports) if (a != b) choices.push_back({c, a, b});
            if (ni == 3 && k == F3) for (int a : iports) for (int b : iports) for (int c : iports) if (a <= b) choices.push_back({a, b, c});
            // three-element structural source: the first two (adjacent) elements from ONE producer, the third from another
            if (ni == 3 && k == SUM3) for (int a : iports) for (int c : iports) if (a != c) choices.push_back({a, a, c});
            for (auto &ch : choices)
            {
                if ((k == NEST || k == INL))
                {
                    for (int body = 0; body < static_cast<int>(bodies().size()); ++body)
                    {
                        Stmt s; s.kind = k; s.k = body; for (int j = 0; j < ni; ++j) s.in[j] = ch[static_cast<std::size_t>(j)];
                        cur.push_back(s); gen(sp, cur, emit, target_n); cur.pop_back();
                    }
                    continue;
                }
                Stmt s; s.kind = k; s.k = (k == F1 || k == F2 || k == F3) ? 1 : 0;
                for (int j = 0; j < ni; ++j) s.in[j] = ch[static_cast<std::size_t>(j)];
                cur.push_back(s); gen(sp, cur, emit, target_n); cur.pop_back();
            }
        }
    }

    void setup_bodies()
    {
        auto &b = bodies();
        b.clear();
        b.push_back(parse_program("gA,Bk1"));            // 0: F2(a,b)
        b.push_back(parse_program("fAk2;g0,Bk1"));       // 1: chain inside
        b.push_back(parse_program("aA;pB;g0,1k3"));      // 2: stateful + pass-through of b
        b.push_back(parse_program("fAk1;n0,Bk0"));       // 3: nested inside nested (depth 2)
    }

    struct CaseResult { std::optional<std::string> violation; bool unsupported{false}; std::uint64_t evals{0}, nested_evals{0}; std::string sig; bool coincident{false}; };

    struct Built
    {
        Program p;
        std::optional<GraphBuilder> gb;
        std::string static_err;
        std::string build_exc;
        std::size_t node_count{0};
        bool dedupe_value_records{false};  // C06: a shared instance logs once, an unshared twin logs the same record twice
    };

    void build_program(Built &b, const Program &p)
    {
        b.p = p;
        try
        {
            Wiring w;
            WireCtx c{w};
            wire_program(c, p, true);
            b.gb.emplace(std::move(w).finish());
            b.node_count = b.gb->nodes().size();
            b.static_err = check_edges(*b.gb);
        }
        catch (const std::exception &e) { b.build_exc = e.what(); }
    }

    History parse_history(const std::string &rest)
    {
        History h;
        auto c1 = rest.find(':'), c2 = rest.find(':', c1 + 1);
        h.cycles = std::stoi(rest.substr(0, c1));
        std::string m = rest.substr(c1 + 1, c2 - c1 - 1), v = rest.substr(c2 + 1), cur;
        for (char c : m) { if (c == ',') { h.tick.push_back(static_cast<unsigned>(std::stoul(cur))); cur.clear(); } else cur += c; }
        if (!cur.empty()) h.tick.push_back(static_cast<unsigned>(std::stoul(cur)));
        cur.clear();
        for (char c : v) { if (c == ',') { h.bval.push_back(static_cast<unsigned>(std::stoul(cur))); cur.clear(); } else cur += c; }
        if (!cur.empty()) h.bval.push_back(static_cast<unsigned>(std::stoul(cur)));
        return h;
    }

    CaseResult run_history(Built &b, const History &h)
    {
        CaseResult res;
        if (!b.build_exc.empty())
        {
            res.unsupported = true;
            res.sig = "EXC:" + b.build_exc;
            res.violation = "program could not be built: " + b.build_exc;
            return res;
        }
        const Program &p = b.p;
        RunLog log;
        g_log = &log;
        Monitor mon;
        std::string exc;
        try
        {
            seed_history(*b.gb, p, h);
            GraphExecutorBuilder eb;
            eb.graph_builder(*b.gb).start_time(MIN_ST).end_time(MIN_ST + TimeDelta{200}).add_lifecycle_observer(&mon);
            auto ex = eb.make_executor();
            ex.view().run();
        }
        catch (const std::exception &e) { exc = e.what(); }
        g_log = nullptr;
        res.evals = mon.node_evals;
        res.nested_evals = mon.nested_graph_evals;
        if (!exc.empty()) { res.sig = "EXC:" + exc; res.violation = "run threw: " + exc; return res; }
        std::vector<Rec> want;
        std::vector<long> cycles;
        ref_run(p, h, true, 200, want, cycles);
        std::vector<Rec> got = log.evals;
        std::stable_sort(got.begin(), got.end());
        std::stable_sort(want.begin(), want.end());
        if (b.dedupe_value_records)
        {
            auto dedupe = [](std::vector<Rec> &v) {
                std::vector<Rec> o;
                for (auto &r : v) { if (r.id < 9000000 && !o.empty() && o.back() == r) continue; o.push_back(r); }
                v.swap(o);
            };
            dedupe(got); dedupe(want);
        }
        std::ostringstream sig;
        for (auto &r : got) sig << r.id << "@" << r.t << "=" << r.out << ";";
        res.sig = sig.str();
        for (int c = 0; c < h.cycles; ++c) { int n = 0; for (unsigned m : h.tick) n += (m >> c) & 1u; if (n >= 2) res.coincident = true; }
        if (!b.static_err.empty()) { res.violation = "static: " + b.static_err; return res; }
        if (!log.monitor_error.empty()) { res.violation = "monitor: " + log.monitor_error; return res; }
        if (got.size() != want.size() || !std::equal(got.begin(), got.end(), want.begin()))
        {
            std::ostringstream o;
            o << "evaluation log differs from the per-cycle reference (a node ran before its producer, twice, or not at all): ";
            std::size_t i = 0;
            while (i < got.size() && i < want.size() && got[i] == want[i]) ++i;
            o << "first difference at #" << i << " got " << (i < got.size() ? got[i].str() : std::string{"<end>"}) << " want "
              << (i < want.size() ? want[i].str() : std::string{"<end>"});
            res.violation = o.str();
        }
        return res;
    }

    // desc: "run:<program text>#<cycles>:<mask,mask,...>:<bval,bval,...>"
    CaseResult run_case_impl(const std::string &desc, verif::Ctx *)
    {
        const std::string body = desc.substr(4);
        const auto h1 = body.find('#');
        Built b;
        build_program(b, parse_program(body.substr(0, h1)));
        return run_history(b, parse_history(body.substr(h1 + 1)));
    }

    // Cyclic programs: "cyc:<variant>:<n>"  a ring of n F1/F2 nodes closed through a delayed binding (variant d),
    // closed through an explicit rank dependency (variant r), and the same ring closed through stdlib::feedback (variant f).
    std::optional<std::string> run_cycle_case(const std::string &desc)
    {
        const char variant = desc.at(4);
        const int n = std::stoi(desc.substr(6));
        const auto comma = desc.find(',');
        const int entry = comma == std::string::npos ? 0 : std::stoi(desc.substr(comma + 1));  // which ring node also reads the source
        bool threw = false;
        std::string what;
        bool ran = false;
        RunLog log; g_log = &log;
        try
        {
            Wiring w;
            auto src = wire<stdlib::replay_impl, TS<Int>>(w, Str{"s0"});
            if (variant == 'd' || variant == 'f')
            {
                std::optional<DelayedBindingWiringPort<TS<Int>>> d;
                std::optional<decltype(stdlib::feedback<TS<Int>>(w))> fb;
                Port<TS<Int>> back;
                if (variant == 'd') { d = delayed_binding<TS<Int>>(w); back = (*d)(); }
                else { fb.emplace(stdlib::feedback<TS<Int>>(w)); back = (*fb)(); }
                Port<TS<Int>> cur = back;
                for (int i = 0; i < n; ++i)
                {
                    if (i == entry) cur = wire<NSumL>(w, stdlib::to_tsl<Pair>(w, cur, src).template as<Pair>(), Int{i + 1});
                    else cur = wire<NF1>(w, cur, Int{1}, Int{i + 1});
                }
                if (variant == 'd') (*d)(cur); else (*fb)(cur);
                wire<NSink>(w, cur, Int{9000001});
            }
            else
            {
                // two independent chains made mutually rank-dependent
                auto a = wire<NF1>(w, src, Int{1}, Int{1});
                Port<TS<Int>> b = a;
                for (int i = 1; i < n; ++i) b = wire<NF1>(w, b, Int{1}, Int{i + 1});
                w.add_rank_dependency(a.node(), b.node());
                wire<NSink>(w, b, Int{9000001});
            }
            GraphBuilder gb = std::move(w).finish();
            testing::set_replay_values<Int>(gb.global_state(), "s0", {Int{1}, std::nullopt, Int{2}});
            GraphExecutorBuilder eb;
            eb.graph_builder(std::move(gb)).start_time(MIN_ST).end_time(MIN_ST + TimeDelta{50});
            auto ex = eb.make_executor();
            ex.view().run();
            ran = true;
        }
        catch (const std::exception &e) { threw = true; what = e.what(); }
        g_log = nullptr;
        if (variant == 'f')
        {
            if (threw) return "loop closed through feedback was rejected: " + what;
            if (!ran) return std::string{"feedback loop did not run"};
            return std::nullopt;
        }
        if (!threw) return std::string{"cyclic wiring (variant "} + variant + ", ring of " + std::to_string(n) + ") was built and run instead of being rejected";
        if (what.find("cycle") == std::string::npos) return "cyclic wiring rejected with an unrelated error: " + what;
        return std::nullopt;
    }
}  // namespace

namespace
{
    // structural class of a statement: what the interning key may legitimately merge
    std::string struct_class(const Program &p, int i, std::vector<std::string> &memo)
    {
        if (!memo[static_cast<std::size_t>(i)].empty()) return memo[static_cast<std::size_t>(i)];
        const Stmt &s = p.st[static_cast<std::size_t>(i)];
        std::ostringstream o;
        if (n_inputs(s.kind) == 0) o << "src" << i;  // every source statement is its own node (distinct keys)
        else
        {
            o << static_cast<char>(s.kind) << "k" << s.k << "i" << s.id << "q" << s.pmask << "(";
            for (int j = 0; j < n_inputs(s.kind); ++j) o << struct_class(p, s.in[j], memo) << ",";
            o << ")";
        }
        return memo[static_cast<std::size_t>(i)] = o.str();
    }

    /** Number of root-graph nodes a correct wiring must at least produce: one per structural class + one per sink. */
    std::size_t min_nodes(const Program &p)
    {
        std::vector<std::string> memo(p.st.size());
        std::set<std::string> classes;
        std::size_t sinks = 0;
        for (std::size_t i = 0; i < p.st.size(); ++i)
        {
            if (!is_bool_kind(p.st[i].kind)) ++sinks;
            if (p.st[i].kind == INL) continue;  // inlined bodies expand to their own nodes; not counted in the bound
            classes.insert(struct_class(p, static_cast<int>(i), memo));
        }
        return classes.size() + sinks;
    }

    void c06_enumerate(verif::Ctx &ctx)
    {
        const bool th = ctx.thorough();
        Space sp;
        sp.max_nodes = th ? 4 : 3;
        sp.kinds = {SRC, BSRC, F1, F2, ACC, SUML, SUMB, SUM3, ITE, NEST};
        sp.cycles = 3;
        sp.max_sources = 2;
        std::uint64_t programs = 0, orders = 0, shared_seen = 0, unshared_seen = 0;
        for (int n = 2; n <= sp.max_nodes; ++n)
        {
            std::vector<Stmt> cur;
            gen(sp, cur, [&](const std::vector<Stmt> &base) {
                // twin every non-source statement i in three ways, and append a combiner reading both
                for (std::size_t i = 0; i < base.size(); ++i)
                {
                    if (n_inputs(base[i].kind) == 0 || base[i].kind == ITE) continue;
                    for (char mode : {'T', 'K', 'I', 'P'})
                    {
                        std::vector<Stmt> st = base;
                        for (std::size_t j = 0; j < st.size(); ++j) st[j].id = static_cast<int>(j) + 1;
                        Stmt twin = st[i];
                        if (mode == 'K') { if (twin.kind != F1 && twin.kind != F2 && twin.kind != NEST) continue; twin.k = (twin.kind == NEST) ? (twin.k + 1) % static_cast<int>(bodies().size()) : twin.k + 1; }
                        if (mode == 'P')
                        {
                            // same definition, inputs and scalars; one input is wired through passive(): a different node
                            if (twin.kind != F2 && twin.kind != F3) continue;
                            twin.pmask = 2u;
                        }
                        if (mode == 'I')
                        {
                            // replace the first int input by a different earlier int port
                            int repl = -1;
                            const int slot = (twin.kind == ITE) ? 1 : 0;
                            for (int c = 0; c < static_cast<int>(i); ++c) if (!is_bool_kind(st[static_cast<std::size_t>(c)].kind) && c != twin.in[slot]) { repl = c; break; }
                            if (repl < 0) continue;
                            twin.in[slot] = repl;  // same definition and scalars (incl. the logging id): only the input differs
                        }
                        // insert twin right after i; shift later references
                        st.insert(st.begin() + static_cast<long>(i) + 1, twin);
                        for (std::size_t j = i + 2; j < st.size(); ++j)
                            for (int q = 0; q < n_inputs(st[j].kind); ++q) if (st[j].in[q] > static_cast<int>(i)) ++st[j].in[q];
                        Stmt comb; comb.kind = F2; comb.in[0] = static_cast<int>(i); comb.in[1] = static_cast<int>(i) + 1; comb.k = 7; comb.id = 60;
                        st.push_back(comb);
                        if (!ctx.next_is_mine()) continue;
                        ++programs;
                        Program p; p.st = st;
                        const std::size_t need = min_nodes(p);
                        std::vector<int> perm(st.size());
                        for (std::size_t q = 0; q < perm.size(); ++q) perm[q] = static_cast<int>(q);
                        std::vector<int> srcs;
                        for (std::size_t q = 0; q < st.size(); ++q) if (st[q].kind == SRC || st[q].kind == BSRC) srcs.push_back(static_cast<int>(q));
                        const int cyc = 2;
                        const unsigned per = 1u << cyc;
                        std::uint64_t nh = 1;
                        for (std::size_t q = 0; q < srcs.size(); ++q) nh *= per;
                        std::string first_sig;  // differential across orders: sink streams of the first order
                        std::map<std::uint64_t, std::string> sigs_by_history;
                        bool first_order = true;
                        do
                        {
                            ++orders;
                            p.order = perm;
                            const std::string ptxt = to_text(p);
                            Built built;
                            built.dedupe_value_records = true;
                            // ids must survive the text round trip: carry them explicitly
                            build_program(built, p);
                            ctx.count("graphs_built");
                            if (built.build_exc.empty())
                            {
                                if (built.node_count < need)
                                {
                                    std::ostringstream d; d << "c06:" << mode << ":" << ptxt << "#" << cyc << ":";
                                    for (std::size_t q = 0; q < srcs.size(); ++q) d << (q ? "," : "") << 3;
                                    d << ":";
                                    for (std::size_t q = 0; q < srcs.size(); ++q) d << (q ? "," : "") << 1;
                                    ctx.violation(d.str(), "wiring produced " + std::to_string(built.node_count) + " nodes but the program has " + std::to_string(need) +
                                                  " structurally distinct value nodes + sinks (distinct nodes or sinks were merged)", "c06 node count");
                                }
                                // sharing statistic for exact twins (allowed either way)
                                if (mode == 'T') { if (built.node_count == need) ++shared_seen; else ++unshared_seen; }
                            }
                            std::size_t hidx = 0;
                            for (std::uint64_t hi = 0; hi < nh; ++hi)
                            {
                                std::uint64_t x = hi;
                                std::vector<unsigned> masks;
                                bool dull = false;
                                for (std::size_t q = 0; q < srcs.size(); ++q) { masks.push_back(static_cast<unsigned>(x % per)); x /= per; }
                                for (unsigned m : masks) if (m == 0) dull = true;
                                if (dull) continue;
                                std::ostringstream d;
                                d << "c06:" << mode << ":" << ptxt << "#" << cyc << ":";
                                for (std::size_t q = 0; q < masks.size(); ++q) d << (q ? "," : "") << masks[q];
                                d << ":";
                                for (std::size_t q = 0; q < masks.size(); ++q) d << (q ? "," : "") << (st[static_cast<std::size_t>(srcs[q])].kind == BSRC ? 1u : 0u);
                                const std::string desc = d.str();
                                History hh; hh.cycles = cyc; hh.tick = masks;
                                for (std::size_t q = 0; q < masks.size(); ++q) hh.bval.push_back(st[static_cast<std::size_t>(srcs[q])].kind == BSRC ? 1u : 0u);
                                ++ctx.evaluations;
                                CaseResult r = run_history(built, hh);
                                ctx.transitions += r.evals;
                                ++ctx.traces;
                                if (r.unsupported) { ctx.count("unsupported_constructs"); ctx.sample("unsupported", ptxt + " => " + r.sig); break; }
                                ctx.state(r.sig);
                                if (mode != 'T' || true) ctx.nontriv(desc.substr(0, desc.find('@')) + desc.substr(desc.find('#')));
                                if (r.violation) { ctx.violation(desc, *r.violation, r.violation->substr(0, 60)); }
                                else
                                {
                                    // order independence, differential form: identical observation signature for every order
                                    if (first_order) sigs_by_history[hi] = r.sig;
                                    else if (sigs_by_history.count(hi) && sigs_by_history[hi] != r.sig)
                                        ctx.violation(desc, "output streams differ between two insertion orders of the same program", "c06 order dependence");
                                    if (ctx.evaluations % 20011 == 1) ctx.sample("runs", desc);
                                }
                                ++hidx;
                            }
                            first_order = false;
                        } while (std::next_permutation(perm.begin(), perm.end()));
                    }
                }
            }, n);
        }
        ctx.counters["programs"] = programs;
        ctx.counters["program_orders"] = orders;
        ctx.counters["exact_twin_graphs_shared"] = shared_seen;
        ctx.counters["exact_twin_graphs_not_shared"] = unshared_seen;
        if (ctx.shard == 0)
        {
            verif::run_checked(ctx, "c06typed:");
            ctx.count("typed_twin_cases");
        }
    }

    // same definition + same scalars, differing only in the resolved output type: must stay distinct
    std::optional<std::string> run_typed_twins()
    {
        Wiring w;
        auto a = wire<stdlib::replay_impl, TS<Int>>(w, Str{"k"});
        auto b = wire<stdlib::replay_impl, TS<Bool>>(w, Str{"k"});
        auto a2 = wire<stdlib::replay_impl, TS<Int>>(w, Str{"k"});
        if (a.node() == b.node()) return std::string{"replay<TS<Int>>(k) and replay<TS<Bool>>(k) were merged into one node"};
        (void)a2;
        wire<NSink>(w, a, Int{9000001});
        wire<NSink>(w, a2, Int{9000001});
        GraphBuilder gb = std::move(w).finish();
        // 2 distinct sources (a and a2 may share) + 2 sinks
        if (gb.nodes().size() < 3) return "typed twins: " + std::to_string(gb.nodes().size()) + " nodes, expected at least 3";
        std::size_t sinks = 0;
        for (auto &nb : gb.nodes()) { const auto *m = nb.type().schema(); if (m && m->display_name && std::string{m->display_name} == "gx_sink") ++sinks; }
        if (sinks != 2) return "two sinks wired on the same port with the same scalars must stay two nodes; found " + std::to_string(sinks);
        return std::nullopt;
    }
}  // namespace

void verif_init() { stdlib::register_standard_operators(); setup_bodies(); }

std::optional<std::string> verif_run_case(verif::Ctx &ctx, const std::string &desc)
{
    if (desc.rfind("run:", 0) == 0) return run_case_impl(desc, &ctx).violation;
    if (desc.rfind("cyc:", 0) == 0) return run_cycle_case(desc);
    if (desc.rfind("c06typed:", 0) == 0) return run_typed_twins();
    if (desc.rfind("c06:", 0) == 0)
    {
        const std::string body = desc.substr(6);
        const auto h1 = body.find('#');
        Built b;
        b.dedupe_value_records = true;
        Program p = parse_program(body.substr(0, h1));
        build_program(b, p);
        if (b.build_exc.empty() && b.node_count < min_nodes(p))
            return "wiring produced " + std::to_string(b.node_count) + " nodes but the program has " + std::to_string(min_nodes(p)) + " structurally distinct value nodes + sinks";
        return run_history(b, parse_history(body.substr(h1 + 1))).violation;
    }
    throw verif::HarnessError("unknown case " + desc);
}

void verif_enumerate(verif::Ctx &ctx)
{
    if (ctx.sub == "c06") { c06_enumerate(ctx); return; }
    const bool th = ctx.thorough();
    Space sp;
    sp.max_nodes = th ? 5 : 4;
    sp.kinds = {SRC, BSRC, F1, F2, F3, ACC, SUML, SUMB, SUM3, ITE, NEST, INL};
    sp.cycles = 3;
    sp.max_sources = th ? 3 : 2;
    std::uint64_t programs = 0, orders = 0;
    std::map<std::string, std::string> unsupported;  // stable set of constructs the DSL rejects
    for (int n = 2; n <= sp.max_nodes; ++n)
    {
        // thorough: programs of 5 statements over a reduced alphabet (the full one is beyond reach: ~10^9 runs), T=2
        if (th && n == 5) { sp.kinds = {SRC, F1, F2, ACC, SUML, NEST}; sp.max_sources = 2; }
        std::vector<Stmt> cur;
        auto process = [&](const std::vector<Stmt> &st, bool passive_variant) {
            if (!ctx.next_is_mine()) return;
            ++programs;
            if (passive_variant) ctx.count("passive_variant_programs");
            Program p; p.st = st;
            std::vector<int> perm(st.size());
            for (std::size_t i = 0; i < perm.size(); ++i) perm[i] = static_cast<int>(i);
            // histories: every tick pattern of every source over `cycles` (value masks for bool sources: 2 fixed patterns)
            std::vector<int> srcs;
            for (std::size_t i = 0; i < st.size(); ++i) if (st[i].kind == SRC || st[i].kind == BSRC) srcs.push_back(static_cast<int>(i));
            const int cyc = ((!th && n == sp.max_nodes) || (th && n == 5) || passive_variant) ? 2 : sp.cycles;  // quick: the largest programs get T=2, smaller ones T=3
            const unsigned per = 1u << cyc;
            std::uint64_t nh = 1;
            for (std::size_t i = 0; i < srcs.size(); ++i) nh *= per;
            do
            {
                ++orders;
                p.order = perm;
                const std::string ptxt = to_text(p);
                Built built;
                build_program(built, p);
                ctx.count("graphs_built");
                bool order_nontrivial = false;
                for (std::size_t i = 0; i < perm.size(); ++i) if (perm[i] != static_cast<int>(i)) order_nontrivial = true;
                for (std::uint64_t hi = 0; hi < nh; ++hi)
                {
                    // quick tier: with 2+ sources skip histories in which some source never ticks (covered by smaller programs)
                    std::ostringstream d;
                    d << "run:" << ptxt << "#" << cyc << ":";
                    std::uint64_t x = hi;
                    bool dull = false;
                    std::vector<unsigned> masks;
                    for (std::size_t i = 0; i < srcs.size(); ++i) { masks.push_back(static_cast<unsigned>(x % per)); x /= per; }
                    for (unsigned m : masks) if (m == 0 && srcs.size() > 1) dull = true;
                    if (dull) continue;
                    for (std::size_t i = 0; i < masks.size(); ++i) d << (i ? "," : "") << masks[i];
                    d << ":";
                    for (std::size_t i = 0; i < masks.size(); ++i) d << (i ? "," : "") << (st[static_cast<std::size_t>(srcs[i])].kind == BSRC ? 0b0101u : 0u);
                    const std::string desc = d.str();
                    ++ctx.evaluations;
                    History hh;
                    hh.cycles = cyc; hh.tick = masks;
                    for (std::size_t i = 0; i < masks.size(); ++i) hh.bval.push_back(st[static_cast<std::size_t>(srcs[i])].kind == BSRC ? 0b0101u : 0u);
                    CaseResult r = run_history(built, hh);
                    ctx.transitions += r.evals;
                    ++ctx.traces;
                    if (r.unsupported)
                    {
                        // must be deterministic and is reported (not silently dropped)
                        unsupported.emplace(ptxt, r.sig);
                        ctx.count("unsupported_constructs");
                        break;
                    }
                    ctx.state(r.sig);
                    if (r.coincident && order_nontrivial) ctx.nontriv(desc);
                    if (r.nested_evals) ctx.count("runs_with_nested_evaluations");
                    if (r.violation)
                    {
                        CaseResult r2 = run_case_impl(desc, &ctx);
                        if (!r2.violation || *r2.violation != *r.violation) throw verif::HarnessError("case not reproducible: " + desc);
                        ctx.violation(desc, *r.violation, r.violation->substr(0, 60));
                    }
                    else if (ctx.evaluations % 20011 == 1) ctx.sample("runs", desc);
                }
            } while (std::next_permutation(perm.begin(), perm.end()));
        };
        gen(sp, cur, [&](const std::vector<Stmt> &st) {
            process(st, false);
            // the same program with the second input of one two/three-input node marked passive(): the passive producer must still be ranked first
            for (std::size_t i = 0; i < st.size(); ++i)
                if ((st[i].kind == F2 || st[i].kind == F3) && st[i].pmask == 0) { std::vector<Stmt> v = st; v[i].pmask = 2u; process(v, true); }
        }, n);
    }
    ctx.counters["programs"] = programs;
    ctx.counters["program_orders"] = orders;
    for (auto &[k, v] : unsupported) { ctx.sample("unsupported", k + " => " + v); }
    // cyclic programs
    if (ctx.shard == 0)
    {
        for (char v : {'d', 'r', 'f'})
            for (int n = 1; n <= (th ? 5 : 4); ++n)
                for (int entry = 0; entry < (v == 'r' ? 1 : n); ++entry)
                {
                    if (v == 'r' && n < 2) continue;
                    const std::string desc = std::string{"cyc:"} + v + ":" + std::to_string(n) + "," + std::to_string(entry);
                    verif::run_checked(ctx, desc);
                    ctx.count("cycle_cases");
                }
    }
}

VERIF_MAIN()
