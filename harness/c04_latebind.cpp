// C04 (late-binding part) — endpoint level: consumers that JOIN AT RUN TIME, through the plain TSInputView::bind_output, a TS<int>
// output that has already ticked (or not), either as a plain TS<int> slot or as a REF<TS<int>> slot (the shape of every
// reference-taking node argument: the output negotiates ONE reference endpoint for all of them, binding_for). Every sequence of
// <= D operations from {write X, next cycle, bind consumer k (2 REF slots, 2 TS slots, each at most once)}; after EVERY operation
// each bound consumer must read the same valid / modified / last-modified-time / value as the producer endpoint it is bound to,
// consumers of one endpoint must agree with each other, and the TS endpoint must agree with the write log.
#include "vpch.h"
#include "vcommon.h"
using namespace hgraph;

namespace
{
    struct Reading { bool valid{false}, modified{false}; long lmt{-1000}; std::string value; bool operator==(const Reading &) const = default; };
    long rel(DateTime t) { return t <= MIN_DT ? -1000 : static_cast<long>((t - MIN_ST) / MIN_TD); }
    std::string show(const Reading &r) { return "{valid=" + std::to_string(r.valid) + " modified=" + std::to_string(r.modified) + " lmt=" + std::to_string(r.lmt) + " value=" + r.value + "}"; }

    struct World
    {
        const TSValueTypeMetaData *ts_int{nullptr}, *ref_int{nullptr}, *ref_root{nullptr}, *ts_root{nullptr};
        std::optional<TSEndpointSchema> ref_endpoint, ts_endpoint;
        void init()
        {
            auto &registry = TypeRegistry::instance();
            const auto *int_meta = registry.register_scalar<std::int32_t>("int32");
            ts_int = registry.ts(int_meta);
            ref_int = registry.ref(ts_int);
            ref_root = registry.tsb("C04LateRefArgs", {{"arg", ref_int}});
            ts_root = registry.tsb("C04LateTsArgs", {{"arg", ts_int}});
            ref_endpoint = TSEndpointSchema::non_peered(ref_root, {TSEndpointSchema::peered(ref_int)});
            ts_endpoint = TSEndpointSchema::non_peered(ts_root, {TSEndpointSchema::peered(ts_int)});
        }
    };
    World W;

    template <typename View> Reading read(const View &v, bool is_ref, TSOutput &x)
    {
        Reading r; r.valid = v.valid(); r.modified = v.modified(); r.lmt = rel(v.last_modified_time());
        if (r.valid)
        {
            if (is_ref)
            {
                const auto value = v.value();
                const auto &ref = value.template checked_as<TimeSeriesReference>();
                r.value = ref == TimeSeriesReference{x.view(v.evaluation_time())} ? "ref(X)" : ref.is_empty() ? "ref(empty)" : "ref(other)";
            }
            else r.value = std::to_string(v.value().template checked_as<std::int32_t>());
        }
        return r;
    }

    struct Outcome { std::optional<std::string> violation; std::string sig; bool nontrivial{false}; std::uint64_t ops{0}; };

    // desc: ops separated by ',' : w (write), n (next cycle), b0 b1 (REF slots), b2 b3 (TS slots)
    Outcome run_desc(const std::string &desc)
    {
        Outcome out;
        TSOutput X{*W.ts_int};
        struct Consumer { bool is_ref; std::unique_ptr<TSInput> input; bool bound{false}; };
        std::vector<Consumer> cs;
        for (int k = 0; k < 4; ++k)
            cs.push_back(Consumer{k < 2, std::make_unique<TSInput>(k < 2 ? TSInputBuilderFactory::checked_builder_for(*W.ref_root, *W.ref_endpoint) : TSInputBuilderFactory::checked_builder_for(*W.ts_root, *W.ts_endpoint))});
        long cycle = 0, writes = 0, last_write = -1000; bool written_now = false, late_ref = false;
        std::ostringstream sig;
        std::vector<std::string> ops;
        { std::string cur; for (char ch : desc) { if (ch == ',') { ops.push_back(cur); cur.clear(); } else cur += ch; } if (!cur.empty()) ops.push_back(cur); }
        for (auto &op : ops)
        {
            const DateTime now = MIN_ST + TimeDelta{cycle};
            if (op == "w")
            {
                Value v{std::int32_t{static_cast<std::int32_t>(100 + 10 * cycle + (++writes % 10))}};
                auto mutation = X.view(now).begin_mutation(now);
                static_cast<void>(mutation.copy_value_from(v.view()));
                written_now = true; last_write = cycle;
            }
            else if (op == "n") { ++cycle; written_now = false; }
            else
            {
                auto &c = cs.at(static_cast<std::size_t>(op[1] - '0'));
                auto root = c.input->view(nullptr, now);
                auto args = root.as_bundle();
                auto slot = args.field("arg");
                slot.bind_output(X.view(now));
                c.bound = true;
                if (c.is_ref && last_write > -1000 && cs[0].bound && cs[1].bound) late_ref = true;
            }
            ++out.ops;
            // ---- compare after every operation ----
            const DateTime t = MIN_ST + TimeDelta{cycle};
            const Reading prod_ts = read(X.view(t), false, X);
            const Reading model{last_write > -1000, written_now, last_write > -1000 ? last_write : prod_ts.lmt, prod_ts.value};
            if (!out.violation && (prod_ts.valid != model.valid || prod_ts.modified != model.modified || (model.valid && prod_ts.lmt != model.lmt)))
                out.violation = "after '" + op + "' (cycle " + std::to_string(cycle) + "): the output reads " + show(prod_ts) + " but the write log says valid=" + std::to_string(model.valid) + " modified=" + std::to_string(model.modified) + " lmt=" + std::to_string(last_write);
            std::optional<Reading> prod_ref;
            if (cs[0].bound || cs[1].bound) prod_ref = read(X.view(t).binding_for(*W.ref_int).view(t), true, X);
            sig << op << ":" << show(prod_ts) << (prod_ref ? show(*prod_ref) : std::string{"-"}) << ";";
            for (std::size_t k = 0; k < cs.size(); ++k)
            {
                if (!cs[k].bound) continue;
                auto root = cs[k].input->view(nullptr, t);
                auto args = root.as_bundle();
                auto slot = args.field("arg");
                const Reading got = read(slot, cs[k].is_ref, X);
                const Reading &want = cs[k].is_ref ? *prod_ref : prod_ts;
                if (!out.violation && !(got == want))
                    out.violation = "after '" + op + "' (cycle " + std::to_string(cycle) + "): consumer " + std::to_string(k) + (cs[k].is_ref ? " (REF slot)" : " (TS slot)") + " reads " + show(got) +
                                    " but the producer endpoint it is bound to reads " + show(want);
            }
        }
        out.sig = sig.str();
        out.nontrivial = late_ref;
        return out;
    }

    void rec(verif::Ctx &ctx, std::vector<std::string> &seq, unsigned bound_mask, int depth)
    {
        if (!seq.empty() && ctx.next_is_mine())
        {
            std::string desc; for (std::size_t i = 0; i < seq.size(); ++i) desc += (i ? "," : "") + seq[i];
            ++ctx.evaluations; ++ctx.traces;
            Outcome o = run_desc(desc);
            ctx.transitions += o.ops;
            ctx.state(o.sig);
            if (o.nontrivial) ctx.nontriv(desc);
            ctx.count("latebind_cases");
            if (o.violation)
            {
                Outcome o2 = run_desc(desc);
                if (!o2.violation || *o2.violation != *o.violation) throw verif::HarnessError("case not reproducible: " + desc);
                ctx.violation(desc, *o.violation, "latebind: " + o.violation->substr(o.violation->find("consumer") == std::string::npos ? 0 : o.violation->find("consumer"), 40));
            }
            else if (ctx.evaluations % 4999 == 1) ctx.sample("cases", desc);
        }
        if (depth == 0) return;
        for (const char *op : {"w", "n", "b0", "b1", "b2", "b3"})
        {
            if (op[0] == 'b') { const unsigned bit = 1u << (op[1] - '0'); if (bound_mask & bit) continue; if ((op[1] == '1' && !(bound_mask & 1u)) || (op[1] == '3' && !(bound_mask & 4u))) continue; seq.push_back(op); rec(ctx, seq, bound_mask | bit, depth - 1); seq.pop_back(); }
            else { if (op[0] == 'w' && !seq.empty() && seq.back() == "w") continue; seq.push_back(op); rec(ctx, seq, bound_mask, depth - 1); seq.pop_back(); }
        }
    }
}  // namespace

void verif_init() { W.init(); }
std::optional<std::string> verif_run_case(verif::Ctx &, const std::string &desc) { return run_desc(desc).violation; }
void verif_enumerate(verif::Ctx &ctx) { std::vector<std::string> seq; rec(ctx, seq, 0, ctx.thorough() ? 12 : 10); }

VERIF_MAIN()
