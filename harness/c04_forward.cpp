// C04 (write-through part) — a parent is modified whenever one of its children is, also when the child is written THROUGH a
// forwarding (write-through) output bound to an interior position, and every consumer sees what the producer sees.
// Endpoint level: outer = TSB{d: TSD<Int,TS<Int>>, l: TSL<TS<Int>,2>, x: TS<Int>}; fd / fl are forwarding outputs whose
// targets are outer.d / outer.l; consumers: two inputs bound to outer, one bound to fd. Every history of <= 2 operations per
// cycle over T cycles from {write-through set / erase of a key, write-through list element, direct writes, nothing} is applied
// and after every cycle modified / valid / last-modified-time of producer and consumers are compared with a reference.
#include "vpch.h"
#include "vcommon.h"
#include "tsshapes.h"
#include <hgraph/types/time_series/ts_input.h>
#include <hgraph/types/time_series/ts_output.h>
using namespace hgraph;

namespace
{
    using tsshapes::split;
    struct Fixture
    {
        const TSValueTypeMetaData *ts_int, *tsd, *tsl, *tsb;
        Fixture()
        {
            auto &registry = TypeRegistry::instance();
            const auto *int_meta = registry.register_scalar<Int>("int");
            ts_int = registry.ts(int_meta);
            tsd = registry.tsd(int_meta, ts_int);
            tsl = registry.tsl(ts_int, 2);
            tsb = registry.tsb("C04ForwardOuter", {{"d", tsd}, {"l", tsl}, {"x", ts_int}});
        }
    };
    Fixture &fx() { static Fixture f; return f; }

    // ops: "Ts<k>=<v>" set through fd | "Te<k>" erase through fd | "Ds<k>=<v>" direct set on outer.d | "Ls<i>=<v>" element through fl | "Dl<i>=<v>" direct | "X<v>" direct outer.x
    std::optional<std::string> run_case_impl(const std::string &desc, verif::Ctx *ctx)
    {
        const auto cycles = split(desc.substr(3), ';');
        auto &f = fx();
        TSOutput outer{*f.tsb};
        TSOutput fd{TSEndpointSchema::peered(f.tsd)};
        TSOutput fl{TSEndpointSchema::peered(f.tsl)};
        TSInput in1{TSInputBuilderFactory::checked_builder_for(*f.tsb, TSEndpointSchema::peered(f.tsb))};
        TSInput in2{TSInputBuilderFactory::checked_builder_for(*f.tsb, TSEndpointSchema::peered(f.tsb))};
        TSInput ind{TSInputBuilderFactory::checked_builder_for(*f.tsd, TSEndpointSchema::peered(f.tsd))};
        const DateTime t0 = MIN_ST;
        {
            auto root = outer.view(t0);
            auto bundle = root.as_bundle();
            fd.view(t0).bind_forwarding_target(bundle.field("d"));
            fl.view(t0).bind_forwarding_target(bundle.field("l"));
        }
        in1.view(nullptr, t0).bind_output(outer.view(t0));
        in2.view(nullptr, t0).bind_output(outer.view(t0));
        ind.view(nullptr, t0).bind_output(fd.view(t0));
        // reference
        std::map<long, long> dict; long lv[2] = {0, 0}; bool lvalid[2] = {false, false}; bool xvalid = false;
        DateTime lmt_d = MIN_DT, lmt_l = MIN_DT, lmt_x = MIN_DT, lmt_root = MIN_DT;
        bool valid_d = false, valid_l = false;
        bool unknown_d = false, unknown_root = false;   // after erasing an absent key (is that a write?) d's and the parent's time / validity are open until their next real write
        for (std::size_t c = 0; c < cycles.size(); ++c)
        {
            const DateTime t = MIN_ST + MIN_TD * static_cast<long>(c);
            bool wrote_d = false, wrote_l = false, wrote_x = false, fuzzy = false;
            for (auto &op : split(cycles[c], ','))
            {
                if (op.empty()) continue;
                const char where = op[0], what = op[1];
                if (where == 'X') { Value v{Int{std::stol(op.substr(1))}}; auto root = outer.view(t); auto b = root.as_bundle(); auto x = b.field("x"); (void)x.begin_mutation(t).copy_value_from(v.view()); wrote_x = true; xvalid = true; continue; }
                const auto eq = op.find('=');
                const long k = std::stol(op.substr(2, eq == std::string::npos ? std::string::npos : eq - 2));
                const long v = eq == std::string::npos ? 0 : std::stol(op.substr(eq + 1));
                Value kv{Int{k}}, vv{Int{v}};
                if (what == 's' && (where == 'T' || where == 'D'))
                {
                    if (where == 'T') { auto view = fd.view(t); auto dd = view.as_dict(); dd.begin_mutation(t).set(kv.view(), vv.view()); }
                    else { auto root = outer.view(t); auto b = root.as_bundle(); auto d = b.field("d"); auto dd = d.as_dict(); dd.begin_mutation(t).set(kv.view(), vv.view()); }
                    dict[k] = v; wrote_d = true; valid_d = true;
                }
                else if (what == 'e')
                {
                    auto view = fd.view(t); auto dd = view.as_dict(); (void)dd.begin_mutation(t).erase(kv.view());
                    if (dict.erase(k)) { wrote_d = true; } else fuzzy = true;   // erasing an absent key: whether that counts as a write is not stated
                    valid_d = valid_d || true;
                }
                else if (what == 's' && (where == 'L' || where == 'l'))
                {
                    if (where == 'L') { auto view = fl.view(t); auto ll = view.as_list(); (void)ll.at(static_cast<std::size_t>(k)).begin_mutation(t).copy_value_from(vv.view()); }
                    else { auto root = outer.view(t); auto b = root.as_bundle(); auto l = b.field("l"); auto ll = l.as_list(); (void)ll.at(static_cast<std::size_t>(k)).begin_mutation(t).copy_value_from(vv.view()); }
                    lv[k] = v; lvalid[k] = true; wrote_l = true; valid_l = true;
                }
            }
            if (wrote_d) lmt_d = t;
            if (wrote_l) lmt_l = t;
            if (wrote_x) lmt_x = t;
            const bool wrote_any = wrote_d || wrote_l || wrote_x;
            if (wrote_any) lmt_root = t;
            if (ctx) ++ctx->transitions;
            if (fuzzy) { unknown_d = true; unknown_root = true; }
            if (wrote_d && !fuzzy) unknown_d = false;
            if (wrote_any && !fuzzy) unknown_root = false;
            if (fuzzy) continue;
            if (wrote_d) valid_d = true;
            const std::string where = "cycle " + std::to_string(c) + " [" + cycles[c] + "]: ";
            auto cmp = [&](const char *who, bool got_mod, DateTime got_lmt, bool got_valid, bool want_mod, DateTime want_lmt, bool want_valid) -> std::optional<std::string> {
                if (got_mod != want_mod) return where + who + ".modified is " + (got_mod ? "true" : "false") + " but it was " + (want_mod ? "" : "not ") + "written this cycle";
                if (want_valid && got_lmt != want_lmt) return where + who + ".last_modified_time is cycle " + std::to_string((got_lmt - MIN_ST) / MIN_TD) + " but the latest write was in cycle " + std::to_string((want_lmt - MIN_ST) / MIN_TD);
                if (got_valid != want_valid) return where + who + ".valid is " + (got_valid ? "true" : "false");
                return std::nullopt;
            };
            {
                auto root = outer.view(t); auto b = root.as_bundle(); auto d = b.field("d"); auto l = b.field("l"); auto x = b.field("x");
                if (!unknown_d) if (auto v = cmp("producer outer.d", d.modified(), d.last_modified_time(), d.valid(), wrote_d, lmt_d, valid_d)) return v;
                if (unknown_d && d.modified() != wrote_d) return where + "producer outer.d.modified is wrong";
                if (auto v = cmp("producer outer.l", l.modified(), l.last_modified_time(), l.valid(), wrote_l, lmt_l, valid_l)) return v;
                if (auto v = cmp("producer outer.x", x.modified(), x.last_modified_time(), x.valid(), wrote_x, lmt_x, xvalid)) return v;
                if (!unknown_root) if (auto v = cmp("producer outer (parent)", root.modified(), root.last_modified_time(), root.valid(), wrote_any, lmt_root, valid_d || valid_l || xvalid)) return v;
                if (unknown_root && root.modified() != wrote_any) return where + "producer outer (parent).modified is wrong";
                // values
                auto dd = d.as_dict();
                for (auto &[k, val] : dict) { Value kv{Int{k}}; if (!dd.contains(kv.view()) || dd.at(kv.view()).value().checked_as<Int>() != val) return where + "outer.d[" + std::to_string(k) + "] does not hold " + std::to_string(val); }
                if (dd.size() != dict.size()) return where + "outer.d has " + std::to_string(dd.size()) + " keys, expected " + std::to_string(dict.size());
                auto ll = l.as_list();
                for (int i = 0; i < 2; ++i) if (lvalid[i] && (!ll.at(static_cast<std::size_t>(i)).valid() || ll.at(static_cast<std::size_t>(i)).value().checked_as<Int>() != lv[i])) return where + "outer.l[" + std::to_string(i) + "] does not hold " + std::to_string(lv[i]);
            }
            {
                auto v1 = fd.view(t); auto v2 = fl.view(t);
                if (v1.modified() != wrote_d) return where + "forwarding output fd.modified is " + (v1.modified() ? "true" : "false");
                if (v2.modified() != wrote_l) return where + "forwarding output fl.modified is " + (v2.modified() ? "true" : "false");
            }
            int n = 0;
            for (TSInput *input : {&in1, &in2})
            {
                ++n;
                auto root = input->view(nullptr, t); auto b = root.as_bundle(); auto d = b.field("d"); auto l = b.field("l");
                const std::string who = "consumer " + std::to_string(n) + " (bound to outer)";
                if (!unknown_d) if (auto v = cmp((who + " .d").c_str(), d.modified(), d.last_modified_time(), d.valid(), wrote_d, lmt_d, valid_d)) return v;
                if (auto v = cmp((who + " .l").c_str(), l.modified(), l.last_modified_time(), l.valid(), wrote_l, lmt_l, valid_l)) return v;
                if (!unknown_root) if (auto v = cmp((who + " root").c_str(), root.modified(), root.last_modified_time(), root.valid(), wrote_any, lmt_root, valid_d || valid_l || xvalid)) return v;
            }
            {
                auto root = ind.view(nullptr, t);
                if (!unknown_d) if (auto v = cmp("consumer bound to the forwarding output", root.modified(), root.last_modified_time(), root.valid(), wrote_d, lmt_d, valid_d)) return v;
            }
            if (ctx) { std::string st = std::to_string(c) + ":" + (wrote_d ? "d" : "") + (wrote_l ? "l" : "") + (wrote_x ? "x" : "") + "/" + std::to_string(dict.size()); ctx->state(st); }
        }
        return std::nullopt;
    }
}  // namespace

void verif_init() { (void)fx(); }
std::optional<std::string> verif_run_case(verif::Ctx &, const std::string &desc) { return run_case_impl(desc, nullptr); }

void verif_enumerate(verif::Ctx &ctx)
{
    const bool th = ctx.thorough();
    const int T = th ? 4 : 3;
    const std::vector<std::string> alpha = {"Ts1=5", "Ts1=6", "Ts2=7", "Te1", "Ds1=8", "Ls0=3", "Ls1=4", "ls0=9", "X1"};
    std::vector<std::string> lists = {""};
    for (auto &a : alpha) lists.push_back(a);
    // quick: every pair of operations in one cycle (T=3); thorough: T=4 with the pairs that mix a write-through with something else
    for (auto &a : alpha) for (auto &b : alpha) if (!th || ((a[0] == 'T' || a[0] == 'L') && a != b && b[0] != a[0])) lists.push_back(a + "," + b);
    std::vector<int> idx(static_cast<std::size_t>(T), 0);
    while (true)
    {
        if (ctx.next_is_mine())
        {
            std::string desc = "fw:";
            int ops = 0;
            for (int c = 0; c < T; ++c) { const std::string &l = lists[static_cast<std::size_t>(idx[static_cast<std::size_t>(c)])]; desc += (c ? ";" : "") + l; if (!l.empty()) ++ops; }
            ++ctx.evaluations; ++ctx.traces;
            if (ops >= 2) ctx.nontriv(desc);
            if (desc.find('T') != std::string::npos || desc.find('L') != std::string::npos) ctx.count("histories_with_write_through");
            if (auto v = run_case_impl(desc, &ctx)) ctx.violation(desc, *v, v->substr(v->find("]: ") == std::string::npos ? 0 : v->find("]: ") + 3, 50));
        }
        int p = 0;
        while (p < T && ++idx[static_cast<std::size_t>(p)] == static_cast<int>(lists.size())) { idx[static_cast<std::size_t>(p)] = 0; ++p; }
        if (p == T) break;
    }
}

VERIF_MAIN()
