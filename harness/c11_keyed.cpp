// C11 (keyed part) — reduce whose ELEMENTS are themselves collections: TSD<Int, TSS<Int>> folded with a set-union combiner node,
// with no zero, a zero written once, and a LIVE zero that is replaced in every cycle. A collection-valued result is published
// through a different path of reduce_node.cpp (keyed publication snapshot) than scalar results. Element contents are disjoint per
// key ({10k+1, 10k+2}) and the zero lives in 900.., so the result identifies exactly which operands were folded. A passive probe
// samples the result in EVERY cycle: invalid if empty and no zero; the zero if empty with a zero; value ∪ zero for a single live
// element with a zero; otherwise the union of exactly the live elements (never the zero).
#include "tsshapes.h"
using namespace hgraph;
using namespace tsshapes;

namespace
{
    struct Sample { long t; bool valid; bool modified; std::string value; };
    struct Run { std::vector<std::string> script; int cycles{0}; char zero{'-'}; std::vector<Sample> samples; };
    Run *g = nullptr;

    struct DictWriter
    {
        static constexpr auto name = "c11k_dict_writer";
        static constexpr bool schedule_on_start = true;
        static void eval(NodeScheduler sched, DateTime now, Out<DictS> out)
        {
            const long c = rel(now);
            if (c < g->cycles) { const std::string &ops = g->script[static_cast<std::size_t>(c)]; if (!ops.empty()) for (auto &op : split(ops, ',')) ShapeDictS::apply(out, op, now); }
            if (c + 1 < g->cycles) sched.schedule(MIN_TD);
        }
    };
    long zero_at(long c) { return g->zero == 'y' ? 900 + c : 900; }
    struct ZeroWriter   // 'z': {900} written once at start; 'y': {900 + c}, replaced in every cycle
    {
        static constexpr auto name = "c11k_zero_writer";
        static constexpr bool schedule_on_start = true;
        static void eval(NodeScheduler sched, DateTime now, Out<TSS<Int>> out)
        {
            const long c = rel(now);
            if (c == 0) (void)out.add(Int{900});
            else if (g->zero == 'y') { (void)out.remove(Int{900 + c - 1}); (void)out.add(Int{900 + c}); }
            if (g->zero == 'y' && c + 1 < g->cycles + 2) sched.schedule(MIN_TD);
        }
    };
    struct UnionNode   // combiner: the union, rewritten from scratch (a clear followed by re-adding a surviving element cancels within the cycle)
    {
        static constexpr auto name = "c11k_union_node";
        static void eval(In<"lhs", TSS<Int>> lhs, In<"rhs", TSS<Int>> rhs, Out<TSS<Int>> out)
        {
            out.clear();
            for (auto x : lhs.values()) (void)out.add(Int{static_cast<long>(x)});
            for (auto x : rhs.values()) (void)out.add(Int{static_cast<long>(x)});
        }
    };
    struct EveryProbe
    {
        static constexpr auto name = "c11k_every_probe";
        static constexpr bool schedule_on_start = true;
        static void eval(In<"x", TSS<Int>, InputActivity::Passive, InputValidity::Unchecked> x, NodeScheduler sched, DateTime now)
        {
            const long c = rel(now);
            g->samples.push_back(Sample{c, x.valid(), x.modified(), x.valid() ? set_str(x.values()) : std::string{"-"}});
            if (c + 1 < g->cycles + 2) sched.schedule(MIN_TD);
        }
    };

    struct Outcome { std::optional<std::string> violation; std::string sig; bool nontrivial{false}, known_class{false}; std::uint64_t ticks{0}; };

    // desc: <zero>|<ops;ops;...>   zero: - none | z written once | y live
    Outcome run_desc(const std::string &desc)
    {
        Outcome out;
        Run run; run.zero = desc[0]; run.script = split(desc.substr(2), ';'); run.cycles = static_cast<int>(run.script.size());
        const bool zero = run.zero != '-';
        std::string exc;
        g = &run;
        try
        {
            Wiring w;
            auto d = wire<DictWriter>(w);
            Port<TSS<Int>> r = zero ? wire<stdlib::reduce_>(w, fn<UnionNode>(), d, wire<ZeroWriter>(w)).template as<TSS<Int>>()
                                    : wire<stdlib::reduce_>(w, fn<UnionNode>(), d).template as<TSS<Int>>();
            wire<EveryProbe>(w, r);
            GraphBuilder gb = std::move(w).finish();
            GraphExecutorBuilder eb;
            eb.graph_builder(std::move(gb)).start_time(MIN_ST).end_time(MIN_ST + TimeDelta{run.cycles + 3});
            auto ex = eb.make_executor();
            ex.view().run();
        }
        catch (const std::exception &e) { exc = e.what(); }
        if (!exc.empty()) { g = nullptr; out.violation = "run threw: " + exc; return out; }
        const long total = run.cycles + 2;
        if (static_cast<long>(run.samples.size()) != total) { g = nullptr; throw verif::HarnessError("probe did not sample every cycle"); }
        std::map<long, std::set<long>> live;
        std::ostringstream sig;
        std::size_t max_live = 0; bool shrank = false, ever_live = false; std::string known_empty;
        for (long c = 0; c < total; ++c)
        {
            std::set<long> before_keys; for (auto &[k, sset] : live) before_keys.insert(k);
            if (c < run.cycles && !run.script[static_cast<std::size_t>(c)].empty())
            {
                std::map<long, std::set<long>> graveyard;   // a key erased and re-created in one cycle resurrects the same element (C05)
                for (auto &op : split(run.script[static_cast<std::size_t>(c)], ','))
                {
                    auto colon = op.find(':');
                    const long k = std::stol(op.substr(1, colon == std::string::npos ? std::string::npos : colon - 1));
                    if (op[0] == 'a') { if (!live.count(k) && graveyard.count(k)) live[k] = graveyard[k]; live[k].insert(std::stol(op.substr(colon + 1))); }
                    else if (op[0] == 'r') { if (live.count(k)) live[k].erase(std::stol(op.substr(colon + 1))); }
                    else if (op[0] == 'e') { if (live.count(k)) { graveyard[k] = live[k]; live.erase(k); shrank = true; } }
                }
            }
            // a key created in this cycle whose mutations cancelled (ends the cycle with an empty set it never published): whether that element
            // counts as valid is C05's subject and not fixed by C11's statement - the rest of such a run is a don't-care
            bool uncertain = false;
            for (auto &[k, sset] : live) if (sset.empty() && !before_keys.count(k)) uncertain = true;
            if (uncertain) break;
            max_live = std::max(max_live, live.size());
            if (!live.empty()) ever_live = true;
            std::set<long> want; bool want_valid = true;
            for (auto &[k, s] : live) want.insert(s.begin(), s.end());
            if (live.empty()) { want_valid = zero; if (zero) want = {zero_at(c)}; }
            else if (live.size() == 1 && zero) want.insert(zero_at(c));
            const Sample &s = run.samples[static_cast<std::size_t>(c)];
            sig << s.value << ",";
            if (s.modified) ++out.ticks;
            if (out.violation) continue;
            const std::string want_s = set_str(want);
            // known finding (DESIGN 7.3): once a collection-valued reduction without a zero has held an element, emptying the collection
            // leaves a VALID EMPTY result (the keyed publication snapshot is reconciled to empty, never invalidated). Exactly that form is
            // set aside - the rest of the run is still checked - and reported under its own signature when nothing else is wrong.
            if (!want_valid && s.valid && s.value == "{}" && ever_live) { if (known_empty.empty()) known_empty = "cycle " + std::to_string(c) + ": result is valid {} but 0 elements are live and no zero is given"; continue; }
            if (s.valid != want_valid)
                out.violation = "cycle " + std::to_string(c) + ": result is " + (s.valid ? "valid " + s.value : std::string{"invalid"}) + " but " + std::to_string(live.size()) + " elements are live and " +
                                (zero ? "a zero is given" : "no zero is given");
            else if (s.valid && s.value != want_s)
                out.violation = "cycle " + std::to_string(c) + ": result " + s.value + " but the fold over the " + std::to_string(live.size()) + " live elements" + (live.size() <= 1 && zero ? " (with the zero)" : "") + " is " + want_s;
        }
        g = nullptr;
        if (!out.violation && !known_empty.empty()) { out.violation = known_empty; out.known_class = true; }
        out.sig = desc.substr(0, 1) + "#" + sig.str();
        out.nontrivial = max_live >= 2 && shrank;
        return out;
    }

    void gen_lists(const std::vector<std::string> &alphabet, int max_len, std::vector<std::string> &out)
    {
        out.push_back("");
        std::vector<std::string> prev = {""};
        for (int l = 1; l <= max_len; ++l)
        {
            std::vector<std::string> next;
            for (auto &p : prev) for (auto &a : alphabet) next.push_back(p.empty() ? a : p + "," + a);
            for (auto &n : next) out.push_back(n);
            prev.swap(next);
        }
    }
}  // namespace

void verif_init() { stdlib::register_standard_operators(); }
std::optional<std::string> verif_run_case(verif::Ctx &, const std::string &desc) { return run_desc(desc).violation; }

void verif_enumerate(verif::Ctx &ctx)
{
    const bool th = ctx.thorough();
    struct Space { std::vector<std::string> alphabet; int max_len; int cycles; };
    std::vector<Space> spaces = {
        {{"a1:11", "a1:12", "r1:11", "a2:21", "r2:21", "a3:31", "e1", "e2", "e3"}, 1, th ? 5 : 4},
        {{"a1:11", "a2:21", "a3:31", "r1:11", "e1", "e2", "e3"}, 2, th ? 3 : 2},
        {{"a1:11", "a2:21", "e1", "e2"}, 1, th ? 7 : 6},   // long quiet stretches: the live zero keeps moving while the collection is empty again
    };
    for (auto &sp : spaces)
    {
        std::vector<std::string> lists;
        gen_lists(sp.alphabet, sp.max_len, lists);
        std::vector<int> idx(static_cast<std::size_t>(sp.cycles), 0);
        while (true)
        {
            std::string body;
            for (int c = 0; c < sp.cycles; ++c) body += (c ? ";" : "") + lists[static_cast<std::size_t>(idx[static_cast<std::size_t>(c)])];
            for (const char *z : {"-", "z", "y"})
            {
                if (!ctx.next_is_mine()) continue;
                const std::string desc = std::string{z} + "|" + body;
                ++ctx.evaluations; ++ctx.traces;
                Outcome o = run_desc(desc);
                ctx.transitions += o.ticks;
                ctx.state(o.sig);
                if (o.nontrivial) ctx.nontriv(desc);
                ctx.count(std::string{"cases_"} + z);
                if (o.violation)
                {
                    Outcome o2 = run_desc(desc);
                    if (!o2.violation || *o2.violation != *o.violation) throw verif::HarnessError("case not reproducible: " + desc);
                    ctx.violation(desc, *o.violation, o.known_class ? std::string{"keyed reduce without a zero: an emptied collection leaves a valid empty result instead of an invalid one"}
                                                                    : std::string{"keyed "} + z + ": " + o.violation->substr(o.violation->find(':') + 2, 48));
                }
                else if (ctx.evaluations % 9973 == 1) ctx.sample("cases", desc);
            }
            int p = 0;
            while (p < sp.cycles && ++idx[static_cast<std::size_t>(p)] == static_cast<int>(lists.size())) { idx[static_cast<std::size_t>(p)] = 0; ++p; }
            if (p == sp.cycles) break;
        }
    }
}

VERIF_MAIN()
