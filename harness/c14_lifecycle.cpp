// C14 — every started node is stopped exactly once, in reverse order, whatever fails.
// FAULT-X: programs (flat chain, nested_, map_ with key churn, switch_ with a branch change, reduce over 3 keys) built from one
// instrumented node type whose start / eval / stop hooks consult a fault table. Every single fault (node, phase, occurrence)
// and every ordered pair of faults is injected, with cleanup_on_error on and off. A ledger of hook calls (per node INSTANCE)
// and of lifecycle-observer events decides: starts in index order and stops in reverse per graph; every instance whose start
// completed is stopped exactly once by the return of run() (cleanup on) / the release of the executor (cleanup off); nothing
// is evaluated before its start or after its stop; a failed start stops exactly the started prefix; a failing stop does not
// prevent the other stops; the first error reaches the caller naming the failing node.
#include "tsshapes.h"
using namespace hgraph;
using namespace tsshapes;

namespace
{
    enum Phase { START = 0, EVAL = 1, STOP = 2 };
    struct Fault { long id; int phase; int occurrence; };
    struct Ev { char kind; const void *inst; long id; long t; };   // kind: S start-begin s start-ok E eval P stop-begin p stop-ok
    struct ObsEv { char kind; const void *graph; long index; };    // 'S' before start node, 'P' before stop node
    struct Ledger
    {
        std::vector<Fault> faults;
        std::map<std::tuple<long, int>, int> counts;   // (id, phase) -> occurrences so far
        std::vector<Ev> events;
        std::vector<ObsEv> obs;
        std::vector<std::string> fired;                // fault messages in firing order
        std::vector<int> fired_class;                  // per fired fault: 0 ordinary, 1 stop fault of a dynamic child while the run was evaluating, 2 stop fault of a dynamic child at shutdown
        bool after_run{false};
        bool shutdown{false};            // the root graph's stop sweep has begun
        bool midrun_stop_fault{false};   // a stop fault fired while the run was still evaluating (a dynamic child being retired)
        std::vector<std::string> script, kscript, lscript;
        int cycles{0};
    };
    Ledger *L = nullptr;

    void maybe_fault(long id, int phase)
    {
        const int n = ++L->counts[{id, phase}];
        for (auto &f : L->faults)
            if (f.id == id && f.phase == phase && f.occurrence == n)
            {
                const std::string msg = "injected fault id=" + std::to_string(id) + " phase=" + (phase == START ? "start" : phase == EVAL ? "evaluate" : "stop") + " #" + std::to_string(n);
                L->fired.push_back(msg);
                L->fired_class.push_back(phase == STOP && (id == 50 || id == 21 || id == 22) ? (L->shutdown ? 2 : 1) : 0);
                if (phase == STOP && !L->shutdown) L->midrun_stop_fault = true;
                throw std::runtime_error(msg);
            }
    }

    struct FNode   // 1-input compute node
    {
        static constexpr auto name = "c14_fnode";
        static void start(NodeView node, Scalar<"id", Int> id) { L->events.push_back({'S', node.data(), id.value(), 0}); maybe_fault(id.value(), START); L->events.push_back({'s', node.data(), id.value(), 0}); }
        static void stop(NodeView node, Scalar<"id", Int> id) { L->events.push_back({'P', node.data(), id.value(), 0}); maybe_fault(id.value(), STOP); L->events.push_back({'p', node.data(), id.value(), 0}); }
        static void eval(NodeView node, In<"ts", TS<Int>> ts, Scalar<"id", Int> id, DateTime now, Out<TS<Int>> out)
        {
            L->events.push_back({'E', node.data(), id.value(), rel(now)});
            maybe_fault(id.value(), EVAL);
            out.set(ts.value() + 1);
        }
    };
    struct FSrc    // ticking source: 4 cycles
    {
        static constexpr auto name = "c14_fsrc";
        static constexpr bool schedule_on_start = true;
        static void start(NodeView node, Scalar<"id", Int> id, State<Int> n) { L->events.push_back({'S', node.data(), id.value(), 0}); n.set(Int{0}); maybe_fault(id.value(), START); L->events.push_back({'s', node.data(), id.value(), 0}); }
        static void stop(NodeView node, Scalar<"id", Int> id) { L->events.push_back({'P', node.data(), id.value(), 0}); maybe_fault(id.value(), STOP); L->events.push_back({'p', node.data(), id.value(), 0}); }
        static void eval(NodeView node, NodeScheduler sched, Scalar<"id", Int> id, DateTime now, State<Int> n, Out<TS<Int>> out)
        {
            L->events.push_back({'E', node.data(), id.value(), rel(now)});
            maybe_fault(id.value(), EVAL);
            out.set(n.get()); n.set(n.get() + 1);
            if (n.get() < 4) sched.schedule(MIN_TD);
        }
    };
    struct FSum    // 2-input node (reduce combiner)
    {
        static constexpr auto name = "c14_fsum";
        static void start(NodeView node) { L->events.push_back({'S', node.data(), 50, 0}); maybe_fault(50, START); L->events.push_back({'s', node.data(), 50, 0}); }
        static void stop(NodeView node) { L->events.push_back({'P', node.data(), 50, 0}); maybe_fault(50, STOP); L->events.push_back({'p', node.data(), 50, 0}); }
        static void eval(NodeView node, In<"lhs", TS<Int>> lhs, In<"rhs", TS<Int>> rhs, DateTime now, Out<TS<Int>> out)
        {
            L->events.push_back({'E', node.data(), 50, rel(now)});
            maybe_fault(50, EVAL);
            out.set(lhs.value() + rhs.value());
        }
    };
    struct DictWriter
    {
        static constexpr auto name = "c14_dict_writer";
        static constexpr bool schedule_on_start = true;
        static void eval(NodeScheduler sched, DateTime now, Out<DictI> out)
        {
            const long c = rel(now);
            if (c < L->cycles) { const std::string &ops = L->script[static_cast<std::size_t>(c)]; if (!ops.empty()) for (auto &op : split(ops, ',')) ShapeDictI::apply(out, op, now); }
            if (c + 1 < L->cycles) sched.schedule(MIN_TD);
        }
    };
    struct ListWriter   // fixed two-element list: "i=v" ops
    {
        static constexpr auto name = "c14_list_writer";
        static constexpr bool schedule_on_start = true;
        static void eval(NodeScheduler sched, DateTime now, Out<PairL> out)
        {
            const long c = rel(now);
            if (c < static_cast<long>(L->lscript.size())) { const std::string &ops = L->lscript[static_cast<std::size_t>(c)]; if (!ops.empty()) for (auto &op : split(ops, ',')) ShapeTSL::apply(out, op, now); }
            if (c + 1 < static_cast<long>(L->lscript.size())) sched.schedule(MIN_TD);
        }
    };
    using DynL = TSL<TS<Int>>;
    struct DynListWriter   // grow-only dynamic list: "i=v" ops
    {
        static constexpr auto name = "c14_dyn_list_writer";
        static constexpr bool schedule_on_start = true;
        static void eval(NodeScheduler sched, DateTime now, Out<DynL> out)
        {
            const long c = rel(now);
            if (c < static_cast<long>(L->lscript.size()))
            {
                const std::string &ops = L->lscript[static_cast<std::size_t>(c)];
                if (!ops.empty()) for (auto &op : split(ops, ',')) { auto eq = op.find('='); out.set(static_cast<std::size_t>(std::stol(op.substr(0, eq))), Int{std::stol(op.substr(eq + 1))}); }
            }
            if (c + 1 < static_cast<long>(L->lscript.size())) sched.schedule(MIN_TD);
        }
    };
    struct KeyWriter
    {
        static constexpr auto name = "c14_key_writer";
        static constexpr bool schedule_on_start = true;
        static void eval(NodeScheduler sched, DateTime now, Out<TS<Int>> out)
        {
            const long c = rel(now);
            if (c < static_cast<long>(L->kscript.size())) { const std::string &op = L->kscript[static_cast<std::size_t>(c)]; if (!op.empty()) out.set(Int{std::stol(op.substr(1))}); }
            if (c + 1 < static_cast<long>(L->kscript.size())) sched.schedule(MIN_TD);
        }
    };

    struct FSink   // 1-input sink node (inside the sink form of try_except_)
    {
        static constexpr auto name = "c14_fsink";
        static void start(NodeView node, Scalar<"id", Int> id) { L->events.push_back({'S', node.data(), id.value(), 0}); maybe_fault(id.value(), START); L->events.push_back({'s', node.data(), id.value(), 0}); }
        static void stop(NodeView node, Scalar<"id", Int> id) { L->events.push_back({'P', node.data(), id.value(), 0}); maybe_fault(id.value(), STOP); L->events.push_back({'p', node.data(), id.value(), 0}); }
        static void eval(NodeView node, In<"ts", TS<Int>> ts, Scalar<"id", Int> id, DateTime now) { (void)ts; L->events.push_back({'E', node.data(), id.value(), rel(now)}); maybe_fault(id.value(), EVAL); }
    };
    struct ErrSink { static constexpr auto name = "c14_err_sink"; static void eval(In<"e", TS<NodeError>> e) { (void)e; } };
    struct TrySubV { static constexpr auto name = "c14_try_sub_value"; static Port<TS<Int>> compose(Wiring &w, Port<TS<Int>> in) { return wire<FNode>(w, wire<FNode>(w, in, Int{41}), Int{42}); } };
    struct TrySubK { static constexpr auto name = "c14_try_sub_sink"; static void compose(Wiring &w, Port<TS<Int>> in) { wire<FSink>(w, wire<FNode>(w, in, Int{41}), Int{43}); } };
    struct Sub { static constexpr auto name = "c14_sub"; static Port<TS<Int>> compose(Wiring &w, Port<TS<Int>> in) { return wire<FNode>(w, wire<FNode>(w, in, Int{11}), Int{12}); } };
    struct MapF { static constexpr auto name = "c14_mapf"; static Port<TS<Int>> compose(Wiring &w, Port<TS<Int>> ts) { return wire<FNode>(w, wire<FNode>(w, ts, Int{21}), Int{22}); } };
    struct Br1 { static constexpr auto name = "c14_br1"; static Port<TS<Int>> compose(Wiring &w, Port<TS<Int>> ts) { return wire<FNode>(w, wire<FNode>(w, ts, Int{31}), Int{32}); } };
    struct Sub2 { static constexpr auto name = "c14_sub2"; static Port<TS<Int>> compose(Wiring &w, Port<TS<Int>> in) { return wire<FNode>(w, nested_<Sub>(w, in), Int{13}); } };
    struct BrMap
    {
        static constexpr auto name = "c14_br_map";
        static Port<TS<Int>> compose(Wiring &w, Port<TS<Int>> ts, Port<DictI> d)
        {
            (void)ts;
            auto m = wire<stdlib::map_>(w, fn<MapF>(), d).template as<DictI>();
            return wire<stdlib::reduce_>(w, fn<stdlib::add_>(), m, Int{0}).template as<TS<Int>>();
        }
    };
    struct BrPlain { static constexpr auto name = "c14_br_plain"; static Port<TS<Int>> compose(Wiring &w, Port<TS<Int>> ts, Port<DictI> d) { (void)d; return wire<FNode>(w, ts, Int{33}); } };
    struct Br2 { static constexpr auto name = "c14_br2"; static Port<TS<Int>> compose(Wiring &w, Port<TS<Int>> ts) { return wire<FNode>(w, ts, Int{33}); } };

    struct Obs : LifecycleObserver
    {
        void on_before_start_node(const NodeView &n) override { if (L) L->obs.push_back({'S', n.graph().data(), static_cast<long>(n.node_index())}); }
        void on_before_stop_graph(const GraphView &gv) override { if (L && gv.is_root()) L->shutdown = true; }
        void on_start_graph_failed(const GraphView &gv) override { if (L && gv.is_root()) L->shutdown = true; }
        void on_before_stop_node(const NodeView &n) override { if (L) L->obs.push_back({'P', n.graph().data(), static_cast<long>(n.node_index())}); }
    };

    std::vector<long> program_ids(char program)
    {
        switch (program)
        {
            case 'f': return {1, 2, 3, 4};
            case 'n': return {1, 11, 12, 4};
            case 'm': return {21, 22, 4};
            case 's': return {1, 31, 32, 33, 4};
            case 'r': return {50, 4};
            case 't': return {1, 41, 42, 4};   // try_except_ around a value sub-graph
            case 'k': return {1, 41, 43, 4};   // try_except_ around a SINK sub-graph
            case 'M': return {21, 22, 4};      // mesh_ (no cross-instance access) over the churning dictionary
            case 'l': return {21, 22, 4};      // map_ over a fixed list
            case 'd': return {21, 22, 4};      // map_ over a grow-only dynamic list
            case 'o': return {50, 4};          // ordered (non-associative) reduce over a contiguous TSD[int, TS]
            case 'w': return {1, 21, 22, 33, 4};   // switch_ whose first branch holds a map_ (dynamic children inside a dynamic child)
            case 'N': return {1, 11, 12, 13, 4};   // nested_ inside nested_
        }
        return {};
    }

    struct Outcome { std::optional<std::string> violation; std::string sig, sig_class; bool nontrivial{false}; std::uint64_t events{0}; };

    // desc: <program><c|n>|<id>.<phase>.<occ>[,<id>.<phase>.<occ>]
    Outcome run_desc(const std::string &desc)
    {
        Outcome out;
        auto parts = split(desc, '|');
        const char program = parts.at(0)[0];
        const bool cleanup = parts.at(0)[1] == 'c';
        Ledger led;
        if (parts.size() > 1 && !parts[1].empty())
            for (auto &f : split(parts[1], ','))
            {
                auto d1 = f.find('.'), d2 = f.find('.', d1 + 1);
                led.faults.push_back({std::stol(f.substr(0, d1)), std::stoi(f.substr(d1 + 1, d2 - d1 - 1)), std::stoi(f.substr(d2 + 1))});
            }
        led.script = {"s1=5,s2=6", "s3=7", "e1", "s2=8"};
        led.kscript = {"v1", "", "v2", ""};
        led.lscript = {"0=5", "1=6", "0=7,1=8", ""};
        if (program == 'o') led.script = {"s0=5,s1=6", "s2=7", "e2", "s1=8"};   // ordered reduce needs contiguous keys from 0
        if (program == 'w') led.kscript = {"v1", "", "v2", "v1"};               // back to the map-holding branch: a second generation of children
        led.cycles = 4;
        L = &led;
        Obs obs;
        std::string exc;
        bool threw = false;
        {
            std::optional<GraphExecutorValue> ex;
            try
            {
                Wiring w;
                Port<TS<Int>> last;
                if (program == 'f') last = wire<FNode>(w, wire<FNode>(w, wire<FNode>(w, wire<FSrc>(w, Int{1}), Int{2}), Int{3}), Int{4});
                else if (program == 'n') last = wire<FNode>(w, nested_<Sub>(w, wire<FSrc>(w, Int{1})), Int{4});
                else if (program == 'm')
                {
                    auto m = wire<stdlib::map_>(w, fn<MapF>(), wire<DictWriter>(w)).template as<DictI>();
                    last = wire<FNode>(w, wire<stdlib::reduce_>(w, fn<stdlib::add_>(), m, Int{0}).template as<TS<Int>>(), Int{4});
                }
                else if (program == 's')
                {
                    stdlib::SwitchCases cases;
                    cases.cases.push_back({Value{Int{1}}, fn<Br1>()});
                    cases.cases.push_back({Value{Int{2}}, fn<Br2>()});
                    last = wire<FNode>(w, wire<stdlib::switch_>(w, wire<KeyWriter>(w), cases, wire<FSrc>(w, Int{1})).template as<TS<Int>>(), Int{4});
                }
                else if (program == 't' || program == 'k')
                {
                    auto src = wire<FSrc>(w, Int{1});
                    if (program == 't') { auto r = try_except_<TrySubV>(w, src); (void)r; }
                    else wire<ErrSink>(w, try_except_<TrySubK>(w, src).template as<TS<NodeError>>());
                    last = wire<FNode>(w, src, Int{4});
                }
                else if (program == 'M')
                {
                    auto m = wire<stdlib::mesh_>(w, fn<MapF>(), wire<DictWriter>(w)).template as<DictI>();
                    last = wire<FNode>(w, wire<stdlib::reduce_>(w, fn<stdlib::add_>(), m, Int{0}).template as<TS<Int>>(), Int{4});
                }
                else if (program == 'l')
                {
                    auto m = wire<stdlib::map_>(w, fn<MapF>(), wire<ListWriter>(w)).template as<PairL>();
                    last = wire<FNode>(w, wire<stdlib::reduce_>(w, fn<stdlib::add_>(), m, Int{0}).template as<TS<Int>>(), Int{4});
                }
                else if (program == 'd')
                {
                    auto m = wire<stdlib::map_>(w, fn<MapF>(), wire<DynListWriter>(w)).template as<DynL>();
                    last = wire<FNode>(w, wire<stdlib::reduce_>(w, fn<stdlib::add_>(), m, Int{0}).template as<TS<Int>>(), Int{4});
                }
                else if (program == 'o') last = wire<FNode>(w, wire<stdlib::reduce_>(w, fn<FSum>(), wire<DictWriter>(w), wire<stdlib::const_, TS<Int>>(w, Int{0}), Bool{false}).template as<TS<Int>>(), Int{4});
                else if (program == 'w')
                {
                    stdlib::SwitchCases cases;
                    cases.cases.push_back({Value{Int{1}}, fn<BrMap>()});
                    cases.cases.push_back({Value{Int{2}}, fn<BrPlain>()});
                    last = wire<FNode>(w, wire<stdlib::switch_>(w, wire<KeyWriter>(w), cases, wire<FSrc>(w, Int{1}), wire<DictWriter>(w)).template as<TS<Int>>(), Int{4});
                }
                else if (program == 'N') last = wire<FNode>(w, nested_<Sub2>(w, wire<FSrc>(w, Int{1})), Int{4});
                else if (program == 'r') last = wire<FNode>(w, wire<stdlib::reduce_>(w, fn<FSum>(), wire<DictWriter>(w)).template as<TS<Int>>(), Int{4});
                else throw verif::HarnessError("bad program");
                (void)last;
                GraphBuilder gb = std::move(w).finish();
                GraphExecutorBuilder eb;
                eb.graph_builder(std::move(gb)).start_time(MIN_ST).end_time(MIN_ST + TimeDelta{10}).cleanup_on_error(cleanup).add_lifecycle_observer(&obs);
                ex.emplace(eb.make_executor());
                try { ex->view().run(); }
                catch (const std::exception &e) { threw = true; exc = e.what(); }
                led.after_run = true;
                if (cleanup || !threw)
                {
                    // by the return of run() everything must have been stopped
                    led.events.push_back({'R', nullptr, 0, 0});
                }
            }
            catch (const verif::HarnessError &) { L = nullptr; throw; }
            catch (const std::exception &e) { threw = true; exc = std::string{"(outside run) "} + e.what(); }
            // executor released here
        }
        led.events.push_back({'X', nullptr, 0, 0});
        L = nullptr;

        // ---- ledger analysis ------------------------------------------------------------------------------------------
        struct Inst { long id; bool start_begin{false}, start_ok{false}; int stops{0}; bool stop_before_deadline{false}; bool eval_before_start{false}, eval_after_stop{false}; std::size_t stop_pos{0}; };
        std::map<const void *, Inst> insts;
        std::vector<const void *> order;
        bool deadline_passed = false;
        const bool deadline_is_run_return = cleanup || !threw;
        for (auto &e : led.events)
        {
            if (e.kind == 'R') { deadline_passed = true; continue; }
            if (e.kind == 'X') { deadline_passed = true; continue; }
            // node storage can be reused for a NEW instance after the old one was stopped and destroyed (map/switch churn)
            if (e.kind == 'S' && insts.count(e.inst) && insts[e.inst].stops > 0) { static long gen = 0; ++gen; }
            Inst &i = insts[e.inst];
            if (e.kind == 'S')
            {
                if (i.start_begin && i.stops == 0 && i.start_ok && !out.violation) out.violation = "node id=" + std::to_string(e.id) + " was started twice without a stop in between";
                if (i.start_begin && i.stops > 0) i = Inst{};   // storage reused for a fresh instance
                i.id = e.id; i.start_begin = true; order.push_back(e.inst);
            }
            else if (e.kind == 's') i.start_ok = true;
            else if (e.kind == 'E')
            {
                if (!i.start_ok && !out.violation) out.violation = "node id=" + std::to_string(e.id) + " was evaluated before its start completed";
                if (i.stops > 0 && !out.violation) out.violation = "node id=" + std::to_string(e.id) + " was evaluated after its stop";
            }
            else if (e.kind == 'P')
            {
                ++i.stops;
                if (i.stops > 1 && !out.violation) out.violation = "node id=" + std::to_string(e.id) + " was stopped " + std::to_string(i.stops) + " times";
                if (!i.start_ok && !out.violation) out.violation = "node id=" + std::to_string(e.id) + " was stopped although its start did not complete";
                if (!deadline_passed || !deadline_is_run_return) i.stop_before_deadline = true;
                if (deadline_is_run_return && deadline_passed && !out.violation)
                    out.violation = "node id=" + std::to_string(e.id) + " was stopped only when the executor was released, after run() had returned";
            }
        }
        if (!out.violation)
            for (auto &[p, i] : insts)
                if (i.start_ok && i.stops == 0)
                {
                    out.violation = "node id=" + std::to_string(i.id) + " completed its start but was never stopped (faults fired: " + join(led.fired) + ")";
                    // classification of the known rollback defect: a stop fault inside the rollback of a failed start
                    if (led.fired.size() >= 2 && led.fired[0].find("phase=start") != std::string::npos && led.fired[1].find("phase=stop") != std::string::npos)
                        out.sig_class = "start rollback: a failing stop prevents the remaining started nodes from being stopped";
                    break;
                }
        // observer order per graph: starts increasing, stops decreasing (within one start / stop sweep)
        if (!out.violation)
        {
            std::map<const void *, long> last_start, last_stop;
            for (auto &o : led.obs)
            {
                if (o.kind == 'S')
                {
                    if (last_start.count(o.graph) && o.index <= last_start[o.graph] && o.index != 0 && !out.violation) out.violation = "nodes of one graph were not started in index order (" + std::to_string(last_start[o.graph]) + " then " + std::to_string(o.index) + ")";
                    last_start[o.graph] = o.index;
                    last_stop.erase(o.graph);
                }
                else
                {
                    if (last_stop.count(o.graph) && o.index >= last_stop[o.graph] && !out.violation) out.violation = "nodes of one graph were not stopped in reverse index order (" + std::to_string(last_stop[o.graph]) + " then " + std::to_string(o.index) + ")";
                    last_stop[o.graph] = o.index;
                    last_start.erase(o.graph);
                }
            }
        }
        // error reporting
        if (!out.violation)
        {
            if (led.fired.empty() && threw) out.violation = "run() threw although no fault was injected: " + exc;
            else if (!led.fired.empty() && !threw) out.violation = "faults fired (" + join(led.fired) + ") but run() returned normally";
            else if (!led.fired.empty())
            {
                if (exc.find(led.fired[0]) == std::string::npos) out.violation = "the error reaching the caller does not carry the FIRST fault's message '" + led.fired[0] + "': " + exc;
                else if (exc.find("node[") == std::string::npos) out.violation = "the error reaching the caller does not name the failing node: " + exc;
            }
        }
        // Known swallow classes (DESIGN 7.3): reduce_ / ordered reduce swallow a combiner's stop failure while the tree is restructured
        // mid-run; mesh_ swallows an instance's stop failure at any time (slot-store callback). The class applies ONLY when the
        // violation is exactly "that fault's message did not reach the caller": with those faults taken out of the fired list the
        // error-reporting rule must hold, and the violation must be one of the two error-reporting forms.
        if (out.violation && out.sig_class.empty() && (program == 'r' || program == 'o' || program == 'M') &&
            (out.violation->rfind("faults fired", 0) == 0 || out.violation->rfind("the error reaching the caller does not carry the FIRST", 0) == 0))
        {
            std::vector<std::string> rest; bool any = false;
            for (std::size_t i = 0; i < led.fired.size(); ++i)
            {
                const int c = led.fired_class[i];
                const bool swallowed = program == 'M' ? c != 0 : c == 1;
                if (swallowed) any = true; else rest.push_back(led.fired[i]);
            }
            const bool rest_ok = rest.empty() ? !threw : (threw && exc.find(rest[0]) != std::string::npos && exc.find("node[") != std::string::npos);
            if (any && rest_ok)
                out.sig_class = program == 'r' ? "reduce: an exception thrown by a combiner's stop while the reduction tree is restructured mid-run is swallowed"
                              : program == 'o' ? "ordered reduce: an exception thrown by a combiner's stop while a generation is retired mid-run is swallowed"
                                               : "mesh_: an exception thrown by the stop of a node inside an instance graph is swallowed";
        }
        std::ostringstream sig;
        for (auto &e : led.events) if (e.kind != 'E') sig << e.kind << e.id << ",";
        out.sig = desc.substr(0, 2) + "#" + sig.str();
        out.events = led.events.size();
        out.nontrivial = !led.fired.empty();
        return out;
    }
}  // namespace

void verif_init() { stdlib::register_standard_operators(); }
std::optional<std::string> verif_run_case(verif::Ctx &, const std::string &desc) { return run_desc(desc).violation; }

void verif_enumerate(verif::Ctx &ctx)
{
    const bool th = ctx.thorough();
    for (char program : std::string{"fnmsrtkMldowN"})
    {
        std::vector<std::string> singles;
        for (long id : program_ids(program))
            for (int phase = 0; phase < 3; ++phase)
            {
                // an evaluate fault inside a try_except_ child is captured, not propagated: C15's subject, not injected here
                if ((program == 't' || program == 'k') && phase == EVAL && id >= 40) continue;
                for (int occ = 1; occ <= (phase == STOP && (program == 'o' || program == 'r') ? 8 : th ? 5 : 3); ++occ) singles.push_back(std::to_string(id) + "." + std::to_string(phase) + "." + std::to_string(occ));
            }
        std::vector<std::string> cases = {""};
        for (auto &s : singles) cases.push_back(s);
        for (auto &a : singles) for (auto &b : singles) if (a != b) cases.push_back(a + "," + b);
        for (const char *cl : {"c", "n"})
            for (auto &fc : cases)
            {
                if (!ctx.next_is_mine()) continue;
                const std::string desc = std::string(1, program) + cl + "|" + fc;
                ++ctx.evaluations; ++ctx.traces;
                Outcome o = run_desc(desc);
                ctx.transitions += o.events;
                ctx.state(o.sig);
                if (o.nontrivial) ctx.nontriv(desc);
                ctx.count(std::string{"cases_"} + program);
                if (o.violation)
                {
                    Outcome o2 = run_desc(desc);
                    if (!o2.violation || *o2.violation != *o.violation) throw verif::HarnessError("case not reproducible: " + desc + " / " + *o.violation + " / " + (o2.violation ? *o2.violation : std::string{"pass"}));
                    ctx.violation(desc, *o.violation, o.sig_class.empty() ? std::string(1, program) + ": " + o.violation->substr(0, 60) : o.sig_class);
                }
                else if (ctx.evaluations % 997 == 1) ctx.sample("cases", desc);
            }
    }
}

VERIF_MAIN()
