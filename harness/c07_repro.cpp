// C07 — simulation runs are reproducible and isolated from each other.
// Self-contained programs (scripts arrive as scalars, observations are appended to the run's OWN global state, so there is no
// harness global to leak through) are run
//   hist   : after EVERY process history of bounded length over an alphabet of {fresh build+run, reused builder, wire only,
//            two executors from one builder} and compared byte-for-byte with the trace of the same program run alone in a
//            fresh process (self-exec);
//   clock  : under the controlled scheduler with a virtual wall clock that may jump ahead before any clock read (bounded
//            number of jumps, all positions);
//   threads: as two controlled threads that wire, build and run independent graphs, every interleaving at
//            synchronisation operations up to a preemption bound.
#include "vpch.h"
#include "vcommon.h"
#include "vsched.h"
#include "vexplore.h"
#include "tsshapes.h"
#include <hgraph/runtime/global_state.h>
#include <unistd.h>
using namespace hgraph;
using namespace tsshapes;

namespace
{
    // ---- nodes: scripts are scalars, logs go to the graph's own global state -------------------------------------------
    void log_append(const GlobalStateView &gs, const std::string &text)
    {
        std::string cur = gs.contains("log") ? gs.get_as<Str>("log") : std::string{};
        cur += text;
        gs.set("log", Value{Str{cur}});
    }
    struct IntSrc
    {
        static constexpr auto name = "c07_int_src";
        static constexpr bool schedule_on_start = true;
        static void eval(NodeScheduler sched, Scalar<"script", Str> script, DateTime now, Out<TS<Int>> out)
        {
            const auto parts = split(script.value(), ',');
            const long c = rel(now);
            if (c < static_cast<long>(parts.size()) && !parts[static_cast<std::size_t>(c)].empty()) out.set(Int{std::stol(parts[static_cast<std::size_t>(c)])});
            if (c + 1 < static_cast<long>(parts.size())) sched.schedule(MIN_TD);
        }
    };
    struct DictSrc
    {
        static constexpr auto name = "c07_dict_src";
        static constexpr bool schedule_on_start = true;
        static void eval(NodeScheduler sched, Scalar<"script", Str> script, DateTime now, Out<DictI> out)
        {
            const auto cycles = split(script.value(), ';');
            const long c = rel(now);
            if (c < static_cast<long>(cycles.size()) && !cycles[static_cast<std::size_t>(c)].empty())
                for (auto &op : split(cycles[static_cast<std::size_t>(c)], ',')) ShapeDictI::apply(out, op, now);
            if (c + 1 < static_cast<long>(cycles.size())) sched.schedule(MIN_TD);
        }
    };
    struct LogInt
    {
        static constexpr auto name = "c07_log_int";
        static void eval(In<"x", TS<Int>> x, Scalar<"tag", Str> tag, DateTime now, GlobalStateView gs) { log_append(gs, tag.value() + "@" + std::to_string(rel(now)) + "=" + std::to_string(static_cast<long>(x.value())) + ";"); }
    };
    struct LogDict
    {
        static constexpr auto name = "c07_log_dict";
        static void eval(In<"x", DictI> x, Scalar<"tag", Str> tag, DateTime now, GlobalStateView gs)
        {
            Typed t = ShapeDictI::read(x);
            log_append(gs, tag.value() + "@" + std::to_string(rel(now)) + "=" + t.value + "+" + t.added + "-" + t.removed + "~" + t.modified + ";");
        }
    };
    struct Acc
    {
        static constexpr auto name = "c07_acc";
        static void start(State<Int> n) { n.set(Int{0}); }
        static void eval(In<"x", TS<Int>> x, State<Int> n, Out<TS<Int>> out) { n.set(n.get() + x.value()); out.set(n.get()); }
    };
    struct GsCount
    {
        static constexpr auto name = "c07_gs_count";
        static void eval(In<"x", TS<Int>> x, GlobalStateView gs, Out<TS<Int>> out)
        {
            const Int n = gs.contains("n") ? gs.get_as<Int>("n") : Int{0};
            gs.set("n", Value{Int{n + 1}});
            out.set(Int{n * 100 + x.value()});
        }
    };
    struct Counter
    {
        static constexpr auto name = "c07_counter";
        static void start(State<Int> n) { n.set(Int{0}); }
        static void eval(In<"ts", TS<Int>> ts, State<Int> n, Out<TS<Int>> out) { n.set(n.get() + 1); out.set(n.get() * 1000 + ts.value()); }
    };
    struct Triple { static constexpr auto name = "c07_triple"; static void eval(In<"ts", TS<Int>> ts, Out<TS<Int>> out) { out.set(ts.value() * 3 + 1); } };
    struct ClockPeek   // reads the wall clock (allowed) but must not let it reach its output
    {
        static constexpr auto name = "c07_clock_peek";
        static void eval(In<"x", TS<Int>> x, EvaluationClockView clock, Out<TS<Int>> out) { (void)clock.now(); (void)clock.cycle_time(); out.set(x.value() + 1); }
    };
    struct Add2 { static constexpr auto name = "c07_add2"; static void eval(In<"a", TS<Int>> a, In<"b", TS<Int>, InputActivity::Passive, InputValidity::Unchecked> b, Out<TS<Int>> out) { out.set(a.value() + (b.valid() ? b.value() : Int{0})); } };
    // a long immediate chain: one evaluation per smallest time step, `limit` of them; the last count is kept in the run's global state
    struct Pulse
    {
        static constexpr auto name = "c07_pulse";
        static constexpr bool schedule_on_start = true;
        static void start(State<Int> n) { n.set(Int{0}); }
        static void eval(NodeScheduler sched, Scalar<"limit", Int> limit, State<Int> n, Out<TS<Int>> out) { n.set(n.get() + 1); out.set(n.get()); if (n.get() < limit.value()) sched.schedule(MIN_TD); }
    };
    struct LastGs { static constexpr auto name = "c07_last_gs"; static void eval(In<"x", TS<Int>> x, GlobalStateView gs) { gs.set("n", Value{Int{x.value()}}); } };
    struct FCounter { static constexpr auto name = "c07_g_counter"; static Port<TS<Int>> compose(Wiring &w, Port<TS<Int>> ts) { return wire<Counter>(w, ts); } };
    struct FTriple { static constexpr auto name = "c07_g_triple"; static Port<TS<Int>> compose(Wiring &w, Port<TS<Int>> ts) { return wire<Triple>(w, ts); } };
    struct FNested { static constexpr auto name = "c07_g_nested"; static Port<TS<Int>> compose(Wiring &w, Port<TS<Int>> ts) { return wire<Acc>(w, wire<Triple>(w, ts)); } };

    // ---- programs ------------------------------------------------------------------------------------------------------
    constexpr int N_PROGRAMS = 10;
    constexpr int LONG_P = 11;                        // the long-chain program: only in the clock part (and its fresh-process reference)
    constexpr long LONG_LIMIT[2] = {1100, 1500};
    char penc(int p) { return p < 10 ? static_cast<char>('0' + p) : static_cast<char>('A' + p - 10); }
    int pdec(char c) { return c >= 'A' ? 10 + (c - 'A') : c - '0'; }
    const char *INT_IN[2] = {"1,2,,4,5", "7,,7,1"};
    const char *DICT_IN[2] = {"s1=5,s2=6;s1=7;e1;s1=8,s3=1;", "s2=1;;s2=2,s4=4;e2,e4;s2=9"};

    void wire_program(Wiring &w, int p, int h)
    {
        switch (p)
        {
            case 0: { auto a = wire<Acc>(w, wire<IntSrc>(w, Str{INT_IN[h]})); wire<LogInt>(w, a, Str{"acc"}); wire<stdlib::dense_record_impl>(w, a, std::string{"rec"}); break; }
            case 1: { auto a = wire<GsCount>(w, wire<IntSrc>(w, Str{INT_IN[h]})); wire<LogInt>(w, a, Str{"gs"}); break; }
            case 2: { auto m = wire<stdlib::map_>(w, fn<FCounter>(), wire<DictSrc>(w, Str{DICT_IN[h]})).template as<DictI>(); wire<LogDict>(w, m, Str{"map"}); break; }
            case 3:
            {
                auto key = wire<IntSrc>(w, Str{h == 0 ? "1,,2,,1" : "2,1,,2"});
                auto in = wire<IntSrc>(w, Str{INT_IN[h]});
                std::vector<stdlib::SwitchCase> cs;
                cs.push_back({Value{Int{1}}, fn<FCounter>()});
                cs.push_back({Value{Int{2}}, fn<FTriple>()});
                stdlib::SwitchCases cases; cases.cases = cs;
                auto so = wire<stdlib::switch_>(w, key, cases, in).template as<TS<Int>>();
                wire<LogInt>(w, so, Str{"sw"});
                break;
            }
            case 4: { auto r = wire<stdlib::reduce_>(w, fn<stdlib::add_>(), wire<DictSrc>(w, Str{DICT_IN[h]}), Int{0}).template as<TS<Int>>(); wire<LogInt>(w, r, Str{"red"}); break; }
            case 5:
            {
                auto src = wire<IntSrc>(w, Str{INT_IN[h]});
                auto fb = stdlib::feedback<TS<Int>>(w);
                auto s = wire<Add2>(w, src, passive(fb()));
                fb(s);
                wire<LogInt>(w, s, Str{"fb"});
                break;
            }
            case 6: { auto n = wire<FNested>(w, wire<ClockPeek>(w, wire<IntSrc>(w, Str{INT_IN[h]}))); wire<LogInt>(w, nested_<FNested>(w, n), Str{"nest"}); break; }
            case 7:
            {
                auto src = wire<stdlib::replay_impl, TS<Int>>(w, std::string{"in"});
                auto a = wire<Acc>(w, src);
                wire<stdlib::dense_record_impl>(w, a, std::string{"out"});
                wire<LogInt>(w, a, Str{"rp"});
                break;
            }
            // two programs that differ ONLY in a parameter of an interned type (duration window, same range, different warm-up):
            // whichever was built first in the process must not decide the other's behaviour
            case 8: { auto s2 = wire<stdlib::sum_>(w, wire<stdlib::to_window>(w, wire<IntSrc>(w, Str{h == 0 ? "1,2,3,4,5,6,7,8" : "2,,4,4,,1,1,1"}), MIN_TD * 10, MIN_TD * 5)).template as<TS<Int>>(); wire<LogInt>(w, s2, Str{"w5"}); break; }
            case 9: { auto s2 = wire<stdlib::sum_>(w, wire<stdlib::to_window>(w, wire<IntSrc>(w, Str{h == 0 ? "1,2,3,4,5,6,7,8" : "2,,4,4,,1,1,1"}), MIN_TD * 10, MIN_TD * 2)).template as<TS<Int>>(); wire<LogInt>(w, s2, Str{"w2"}); break; }
            case LONG_P: { wire<LastGs>(w, wire<Pulse>(w, Int{LONG_LIMIT[h]})); break; }
            default: throw std::logic_error("no such program");
        }
    }
    void seed_builder(GraphBuilder &gb, int p, int h)
    {
        if (p == 7)
        {
            std::vector<std::optional<Int>> seq;
            for (auto &t : split(INT_IN[h], ',')) seq.push_back(t.empty() ? std::nullopt : std::optional<Int>{Int{std::stol(t)}});
            testing::set_replay_values<Int>(gb.global_state(), "in", seq);
        }
    }
    GraphBuilder build_program(int p, int h)
    {
        Wiring w;
        wire_program(w, p, h);
        GraphBuilder gb = std::move(w).finish();
        seed_builder(gb, p, h);
        return gb;
    }
    std::string dump_state(const GlobalStateView &gs)
    {
        // the whole store in a fixed key order: log, counters, recorded / replayed buffers (lists keep their order)
        std::string out = "size=" + std::to_string(gs.size());
        for (const char *key : {"log", "n", "rec", "out", "in"})
            if (gs.contains(key)) out += std::string{" | "} + key + "=" + Value{gs.get(key)}.to_string();
        return out;
    }
    std::string run_builder(const GraphBuilder &gb_in, long end_cycles = 12)
    {
        GraphBuilder gb = gb_in;
        GraphExecutorBuilder eb;
        eb.graph_builder(std::move(gb)).start_time(MIN_ST).end_time(MIN_ST + TimeDelta{end_cycles});
        auto ex = eb.make_executor();
        ex.view().run();
        return dump_state(ex.view().graph().global_state());
    }
    /** Program 8 ("ctx"): the same as program 1 but wired and run under a GlobalContext selecting a caller-owned state seeded with n=5. */
    std::string run_ctx(int h)
    {
        GlobalState st;
        st.view().set("n", Value{Int{5}});
        std::string in_graph;
        {
            GlobalContext ctx{st};
            Wiring w;
            wire_program(w, 1, h);
            GraphBuilder gb = std::move(w).finish();
            GraphExecutorBuilder eb;
            eb.graph_builder(std::move(gb)).start_time(MIN_ST).end_time(MIN_ST + TimeDelta{12});
            auto ex = eb.make_executor();
            ex.view().run();
            in_graph = dump_state(ex.view().graph().global_state());
        }
        return in_graph + " || selected=" + dump_state(st.view());
    }
    std::string solo(int p, int h) { return p == N_PROGRAMS ? run_ctx(h) : p == LONG_P ? run_builder(build_program(p, h), 4000) : run_builder(build_program(p, h)); }

    // ---- references: each (program, input) alone in a FRESH process -------------------------------------------------------
    std::map<std::pair<int, int>, std::string> &references() { static std::map<std::pair<int, int>, std::string> r; return r; }
    std::string self_path() { char buf[4096]; ssize_t n = readlink("/proc/self/exe", buf, sizeof(buf) - 1); buf[n > 0 ? n : 0] = 0; return buf; }
    const std::string &reference(int p, int h)
    {
        auto &refs = references();
        auto it = refs.find({p, h});
        if (it != refs.end()) return it->second;
        // shards of one check run share the references through the run directory (keyed by the executable's content key)
        std::string cache;
        if (const char *dir = getenv("VERIF_RUNDIR")) if (const char *key = getenv("VERIF_EXE_KEY")) if (*key) cache = std::string{dir} + "/c07ref." + key + "." + std::to_string(p) + "." + std::to_string(h);
        if (!cache.empty())
            if (FILE *cf = fopen(cache.c_str(), "r"))
            {
                std::string t; char b2[4096]; std::size_t n2;
                while ((n2 = fread(b2, 1, sizeof(b2), cf)) > 0) t.append(b2, n2);
                fclose(cf);
                if (t.size() > 4 && t.compare(t.size() - 4, 4, "#END") == 0) return refs[{p, h}] = t.substr(0, t.size() - 4);
            }
        const std::string cmd = "C07_SOLO=" + std::to_string(p) + ":" + std::to_string(h) + " '" + self_path() + "' --tier quick --case solo";
        FILE *f = popen(cmd.c_str(), "r");
        if (!f) throw verif::HarnessError("cannot spawn the fresh-process reference run");
        std::string out; char buf[4096]; std::size_t n;
        while ((n = fread(buf, 1, sizeof(buf), f)) > 0) out.append(buf, n);
        const int rc = pclose(f);
        const auto b = out.find("TRACE<<"), e = out.find(">>TRACE");
        if (rc != 0 || b == std::string::npos || e == std::string::npos) throw verif::HarnessError("fresh-process reference run failed for program " + std::to_string(p) + ": " + out.substr(0, 400));
        const std::string trace = out.substr(b + 7, e - b - 7);
        if (!cache.empty())
        {
            const std::string tmp = cache + ".tmp" + std::to_string(getpid());
            if (FILE *cf = fopen(tmp.c_str(), "w")) { fputs((trace + "#END").c_str(), cf); fclose(cf); rename(tmp.c_str(), cache.c_str()); }
        }
        return refs[{p, h}] = trace;
    }

    // ---- part hist -----------------------------------------------------------------------------------------------------
    // op text: R<p><h> fresh build + run | B<p><h> run on the builder cached for this history | W<p><h> wire+finish only |
    //          X<p><h> two executors from one builder, both run | C<h> GlobalContext program
    struct HistState { std::map<std::pair<int, int>, GraphBuilder> builders; std::map<std::pair<int, int>, std::string> seed_dump; };
    std::optional<std::string> do_op(HistState &hs, const std::string &op, verif::Ctx *ctx)
    {
        const char k = op[0];
        const int p = k == 'C' ? N_PROGRAMS : pdec(op[1]);
        const int h = k == 'C' ? op[1] - '0' : op[2] - '0';
        auto check = [&](const std::string &got, const char *what) -> std::optional<std::string> {
            if (ctx) { ++ctx->evaluations; ctx->state(std::to_string(p) + ":" + std::to_string(h) + ":" + got); }
            const std::string &want = reference(p, h);
            if (got != want) return std::string{what} + " of program " + std::to_string(p) + " input " + std::to_string(h) + " differs from its fresh-process run\n   got : " + got + "\n   want: " + want;
            return std::nullopt;
        };
        if (k == 'R' || k == 'C') return check(solo(p, h), "trace");
        if (k == 'W') { (void)build_program(p, h); return std::nullopt; }
        if (k == 'B' || k == 'X')
        {
            auto key = std::make_pair(p, h);
            if (!hs.builders.count(key)) { hs.builders.emplace(key, build_program(p, h)); hs.seed_dump[key] = dump_state(hs.builders.at(key).global_state()); }
            GraphBuilder &gb = hs.builders.at(key);
            if (k == 'B') { if (auto v = check(run_builder(gb), "trace (reused builder)")) return v; }
            else
            {
                GraphExecutorBuilder e1, e2;
                GraphBuilder c1 = gb, c2 = gb;
                e1.graph_builder(std::move(c1)).start_time(MIN_ST).end_time(MIN_ST + TimeDelta{12});
                e2.graph_builder(std::move(c2)).start_time(MIN_ST).end_time(MIN_ST + TimeDelta{12});
                auto x1 = e1.make_executor();
                auto x2 = e2.make_executor();       // both alive at the same time
                x1.view().run();
                x2.view().run();
                if (auto v = check(dump_state(x2.view().graph().global_state()), "trace (second of two live executors)")) return v;
                if (auto v = check(dump_state(x1.view().graph().global_state()), "trace (first of two live executors, read after the second ran)")) return v;
            }
            const std::string after = dump_state(gb.global_state());
            if (after != hs.seed_dump[key]) return "the builder's seed global state was changed by a run of program " + std::to_string(p) + ": " + hs.seed_dump[key] + " -> " + after;
            return std::nullopt;
        }
        return "bad op " + op;
    }
    std::vector<std::string> alphabet(bool thorough)
    {
        std::vector<std::string> a;
        for (int p = 0; p < N_PROGRAMS; ++p) for (int h = 0; h < 2; ++h)
        {
            const std::string ph = std::string(1, penc(p)) + std::to_string(h);
            a.push_back("R" + ph); a.push_back("B" + ph);
            if (h == 0) a.push_back("W" + ph);
            if (thorough || h == 0) a.push_back("X" + ph);
        }
        a.push_back("C0"); a.push_back("C1");
        return a;
    }
    std::optional<std::string> run_history(const std::string &desc, verif::Ctx *ctx)
    {
        HistState hs;
        for (auto &op : split(desc.substr(5), ','))
            if (auto v = do_op(hs, op, ctx)) return "after history [" + desc.substr(5) + "], at " + op + ": " + *v;
        return std::nullopt;
    }

    // ---- part sess -----------------------------------------------------------------------------------------------------
    // A SESSION selects one caller-owned GlobalState with a GlobalContext and runs several independent graphs in it, one after
    // the other, the way the testing harness (eval_node) does: wire (live-seeded from the session), finish, seed the replay
    // buffer on the builder, run, copy the completed state back into the session, read the recording. Every run records its
    // output under the same key with the harness recorder ("testing" backend), cycle-aligned (d) or as (time, delta) entries (s).
    // What a run records is a function of (graph, inputs) only - not of what ran earlier in the session.
    struct PlusSeven { static constexpr auto name = "c07_plus_seven"; static void eval(In<"x", TS<Int>> x, Out<TS<Int>> out) { out.set(x.value() + 7); } };
    struct TimesTen { static constexpr auto name = "c07_times_ten"; static void eval(In<"x", TS<Int>> x, Out<TS<Int>> out) { out.set(x.value() * 10); } };
    const std::vector<std::optional<Int>> SESS_IN[2] = {{Int{1}, std::nullopt, Int{3}}, {Int{5}, Int{6}, std::nullopt, Int{8}, Int{2}}};
    std::string sess_run(const std::string &op)
    {
        const char g = op[0], layout = op[1]; const int h = op[2] - '0';
        Wiring w;
        record_replay::set_config(w.global_state(), record_replay::RecordReplayConfig{.backend = std::string{record_replay::TESTING}});
        auto src = wire<stdlib::replay, TS<Int>>(w, Str{"in"});
        auto out = g == 'P' ? wire<PlusSeven>(w, src) : wire<TimesTen>(w, src);
        wire<stdlib::record>(w, out, Str{"out"}, arg<"sparse">(Bool{layout == 's'}));
        GraphBuilder gb = std::move(w).finish();
        testing::set_replay_values<Int>(gb.global_state(), "in", SESS_IN[h]);
        GraphExecutorBuilder eb;
        eb.graph_builder(std::move(gb)).start_time(MIN_ST).end_time(MIN_ST + TimeDelta{100});
        GraphExecutorValue executor = eb.make_executor();
        auto view = executor.view();
        view.run();
        if (GlobalState *selected = GlobalContext::active_state()) selected->view().copy_from(view.graph().global_state());
        std::string r;
        if (layout == 's')
            for (const auto &[cycle, delta] : testing::get_recorded_sparse(view.graph().global_state(), "out")) r += "@" + std::to_string(cycle) + ":" + delta.view().to_string() + " ";
        else
        {
            std::size_t c = 0;
            for (const auto &d : testing::get_recorded_deltas(view.graph().global_state(), "out")) { if (d) r += "@" + std::to_string(c) + ":" + d->view().to_string() + " "; ++c; }
        }
        return r;
    }
    const std::string &sess_reference(const std::string &op)
    {
        static std::map<std::string, std::string> refs;
        auto it = refs.find(op);
        if (it != refs.end()) return it->second;
        std::string a, b;
        { GlobalContext session; a = sess_run(op); }
        { GlobalContext session; b = sess_run(op); }
        if (a != b || a.empty()) throw verif::HarnessError("session reference for " + op + " is empty or not deterministic: '" + a + "' vs '" + b + "'");
        return refs[op] = a;
    }
    std::optional<std::string> run_session(const std::string &desc, verif::Ctx *ctx)
    {
        const auto ops = split(desc.substr(5), ',');
        for (auto &op : ops) (void)sess_reference(op);
        GlobalContext session;
        for (std::size_t i = 0; i < ops.size(); ++i)
        {
            std::string got;
            try { got = sess_run(ops[i]); }
            catch (const std::exception &e) { got = std::string{"run threw: "} + std::string{e.what()}.substr(0, 120); }
            if (ctx) { ++ctx->evaluations; ctx->state(ops[i] + "=" + got); }
            const std::string &want = sess_reference(ops[i]);
            if (got != want)
                return "run " + std::to_string(i) + " (" + ops[i] + ") of session [" + desc.substr(5) + "]: the recording differs from the same graph run alone\n   got : " + got + "\n   want: " + want;
        }
        return std::nullopt;
    }

    // ---- parts clock / threads (controlled scheduler) -----------------------------------------------------------------------
    struct SchedWorld { std::vector<std::pair<int, int>> progs; std::vector<std::string> traces; std::string error; };
    vs::ExecResult execute_sched(const std::vector<std::pair<int, int>> &progs, std::int64_t clock_jump_ns, const std::vector<int> &prefix, std::vector<vs::ChoicePoint> &trace_out)
    {
        SchedWorld world; world.progs = progs; world.traces.resize(progs.size());
        std::vector<std::function<void()>> bodies;
        for (std::size_t i = 0; i < progs.size(); ++i)
            bodies.push_back([&world, i] {
                try { world.traces[i] = solo(world.progs[i].first, world.progs[i].second); }
                catch (const std::exception &e) { if (world.error.empty()) world.error = std::string{"thread "} + std::to_string(i) + " threw: " + e.what(); }
            });
        vs::S().clock_jump_ns = clock_jump_ns;
        vs::S().spurious = false;
        trace_out = vs::run_controlled(std::move(bodies), prefix, 1'700'000'000'000'000'000LL);
        vs::S().clock_jump_ns = 0;
        vs::ExecResult r;
        auto &s = vs::S();
        for (auto &t : world.traces) r.outcome += std::to_string(verif::fnv1a(t)) + ",";
        // the schedule itself is the observable that varies; outcomes are expected to be identical
        if (s.failure.rfind("replay divergence", 0) == 0) throw verif::HarnessError(s.failure + " (the harness does not control some source of nondeterminism)");
        if (!s.failure.empty()) { r.violation = s.failure; return r; }
        if (!world.error.empty()) { r.violation = world.error; return r; }
        // absolute oracle for the long chain: simulation runs to the end of its schedule whatever the wall clock reads
        for (std::size_t i = 0; i < progs.size(); ++i)
            if (progs[i].first == LONG_P && world.traces[i].find("n=" + std::to_string(LONG_LIMIT[progs[i].second])) == std::string::npos)
            {
                r.violation = "the simulation run of the " + std::to_string(LONG_LIMIT[progs[i].second]) + "-cycle chain ended early: " + world.traces[i];
                return r;
            }
        for (std::size_t i = 0; i < progs.size(); ++i)
        {
            const std::string &want = reference(progs[i].first, progs[i].second);
            if (world.traces[i] != want)
            {
                r.violation = std::string{clock_jump_ns ? "with the wall clock jumping" : "run concurrently with another graph"} + ", the trace of program " + std::to_string(progs[i].first) + " input " + std::to_string(progs[i].second) +
                              " differs from its fresh-process run\n   got : " + world.traces[i] + "\n   want: " + want;
                return r;
            }
        }
        return r;
    }
    // desc: clock:<p><h>;bound=<b>[;prefix=..]   threads:<p><h>+<p><h>;bound=<b>[;prefix=..]
    struct SchedCase { std::vector<std::pair<int, int>> progs; std::int64_t jump{0}; int bound{1}; std::vector<int> prefix; bool has_prefix{false}; };
    SchedCase parse_sched(const std::string &desc)
    {
        SchedCase c;
        auto fields = split(desc, ';');
        const std::string head = fields[0];
        const bool clock = head.rfind("clock:", 0) == 0;
        c.jump = clock ? 7'000'000'000LL : 0;
        for (auto &ph : split(head.substr(head.find(':') + 1), '+')) c.progs.emplace_back(pdec(ph[0]), ph[1] - '0');
        for (std::size_t i = 1; i < fields.size(); ++i)
        {
            auto eq = fields[i].find('=');
            const std::string k = fields[i].substr(0, eq), v = fields[i].substr(eq + 1);
            if (k == "bound") c.bound = std::stoi(v);
            else if (k == "prefix") { c.has_prefix = true; for (auto &t : split(v, ',')) if (!t.empty()) c.prefix.push_back(std::stoi(t)); }
        }
        return c;
    }
    void warm_up()
    {
        std::vector<vs::ChoicePoint> trace;
        for (int p = 0; p <= LONG_P; ++p) (void)execute_sched({{p, 0}, {p, 1}}, 0, {}, trace);
    }
}  // namespace

void verif_init()
{
    stdlib::register_standard_operators();
    if (const char *s = getenv("C07_SOLO"))
    {
        const std::string spec = s;
        const int p = std::stoi(spec.substr(0, spec.find(':'))), h = std::stoi(spec.substr(spec.find(':') + 1));
        std::string t;
        try { t = solo(p, h); } catch (const std::exception &e) { printf("solo run threw: %s\n", e.what()); fflush(stdout); _exit(3); }
        printf("TRACE<<%s>>TRACE\n", t.c_str());
        fflush(stdout);
        _exit(0);
    }
}

std::optional<std::string> verif_run_case(verif::Ctx &, const std::string &desc)
{
    if (desc.rfind("hist:", 0) == 0) return run_history(desc, nullptr);
    if (desc.rfind("sess:", 0) == 0) return run_session(desc, nullptr);
    SchedCase c = parse_sched(desc);
    vs::S().warmup = [] { warm_up(); };
    static bool warmed = false;
    if (!warmed) { warmed = true; warm_up(); }
    if (c.has_prefix) { std::vector<vs::ChoicePoint> trace; return execute_sched(c.progs, c.jump, c.prefix, trace).violation; }
    vs::Explorer ex; ex.bound = c.bound;
    ex.exec = [&](const std::vector<int> &p, std::vector<vs::ChoicePoint> &t) { return execute_sched(c.progs, c.jump, p, t); };
    ex.explore({});
    if (getenv("VERIF_STATS")) fprintf(stderr, "executions=%llu max_cp=%llu\n", (unsigned long long)ex.executions, (unsigned long long)ex.max_choice_points);
    return ex.violation;
}

void verif_enumerate(verif::Ctx &ctx)
{
    const bool th = ctx.thorough();
    if (ctx.sub == "sess")
    {
        std::vector<std::string> alpha;
        for (char g : {'P', 'T'}) for (char l : {'s', 'd'}) for (char h : {'0', '1'}) alpha.push_back(std::string{g} + l + h);
        const int L = th ? 5 : 4;
        std::vector<std::size_t> idx;
        std::function<void(int)> rec = [&](int depth) {
            if (depth >= 1 && ctx.next_is_mine())
            {
                std::string desc = "sess:";
                for (std::size_t i = 0; i < idx.size(); ++i) desc += (i ? "," : "") + alpha[idx[i]];
                ++ctx.traces; ctx.transitions += idx.size();
                if (idx.size() >= 2) ctx.nontriv(desc);
                ctx.count("sessions_len" + std::to_string(idx.size()));
                if (auto v = run_session(desc, &ctx))
                {
                    auto v2 = run_session(desc, nullptr);
                    if (!v2 || *v2 != *v) throw verif::HarnessError("case not reproducible: " + desc);
                    ctx.violation(desc, *v, "session: the recording of a run depends on earlier runs (" + desc.substr(desc.rfind(',') == std::string::npos ? 5 : desc.rfind(',') + 1, 2) + ")");
                }
            }
            if (depth == L) return;
            for (std::size_t i = 0; i < alpha.size(); ++i) { idx.push_back(i); rec(depth + 1); idx.pop_back(); }
        };
        rec(0);
        return;
    }
    if (ctx.sub == "hist")
    {
        // every history of length <= 3 over the full alphabet; thorough adds length 4 over the letters R<p>0, B<p>0, X<p>0, C0, C1
        // (nested-graph contexts are program-lifetime by design, so a worker's memory grows with the number of builds: many short-lived shards)
        const auto full = alphabet(th);
        std::vector<std::string> reduced;
        for (auto &a : full) if ((a[0] == 'C') || (a.size() == 3 && a[2] == '0' && a[0] != 'W')) reduced.push_back(a);
        const int full_len = 3;
        for (int pass = 0; pass < (th ? 2 : 1); ++pass)
        {
        const auto &alpha = pass == 0 ? full : reduced;
        const int L = pass == 0 ? full_len : full_len + 1;
        const int min_len = pass == 0 ? 1 : full_len + 1;
        if (ctx.shard == 0) ctx.counters[pass == 0 ? "alphabet_full" : "alphabet_reduced"] = alpha.size();
        std::vector<std::size_t> idx;
        std::function<void(int)> rec = [&](int depth) {
            if (depth >= min_len && ctx.next_is_mine())
            {
                std::string desc = "hist:";
                for (std::size_t i = 0; i < idx.size(); ++i) desc += (i ? "," : "") + alpha[idx[i]];
                ++ctx.traces;
                ctx.transitions += idx.size();
                if (idx.size() >= 2) ctx.nontriv(desc);
                ctx.count("histories_len" + std::to_string(idx.size()));
                if (auto v = run_history(desc, &ctx)) ctx.violation(desc, *v, v->substr(v->find(": ") == std::string::npos ? 0 : v->find(": ") + 2, 60));
            }
            if (depth == L) return;
            for (std::size_t i = 0; i < alpha.size(); ++i) { idx.push_back(i); rec(depth + 1); idx.pop_back(); }
        };
        rec(0);
        }
        return;
    }
    vs::S().warmup = [] { warm_up(); };
    warm_up();
    ctx.max_samples = 200;
    if (ctx.sub == "clock")
    {
        for (int p = 0; p <= LONG_P; ++p) for (int h = 0; h < 2; ++h)
        {
            const std::string desc = std::string{"clock:"} + penc(p) + std::to_string(h) + ";bound=" + std::to_string(p == LONG_P ? 1 : th ? 5 : 3);   // the long chain reads the clock > 1000 times: one jump, every position
            SchedCase c = parse_sched(desc);
            vs::explore_config(ctx, desc, c.bound, th ? 30000000 : 3000000, [&](const std::vector<int> &pf, std::vector<vs::ChoicePoint> &t) { return execute_sched(c.progs, c.jump, pf, t); });
        }
        return;
    }
    // threads: every ordered pair of programs (the two inputs differ so that a leak is visible)
    for (int p = 0; p <= N_PROGRAMS; ++p) for (int q = th ? 0 : p; q <= N_PROGRAMS; ++q)
    {
        const bool deep = th || (p == 1 && q == N_PROGRAMS) || (p == 8 && q == 9) || (p == 2 && q == 3) || (p == 0 && q == 7);
        const std::string desc = std::string{"threads:"} + penc(p) + "0+" + penc(q) + "1;bound=" + std::to_string(deep ? 2 : 1);
        SchedCase c = parse_sched(desc);
        vs::explore_config(ctx, desc, c.bound, th ? 30000000 : 3000000, [&](const std::vector<int> &pf, std::vector<vs::ChoicePoint> &t) { return execute_sched(c.progs, c.jump, pf, t); });
    }
}

VERIF_MAIN()
