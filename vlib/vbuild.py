"""Build layer: compiles /repo's current working tree (non-Python TUs listed in
src/CMakeLists.txt) plus the /verif harness sources into /verif/.build/<cfg>/.

Staleness is decided by a content hash over each TU's dependency closure (from -MMD), never by
mtimes, so a check always rebuilds exactly what an edit to /repo invalidated.
"""
from __future__ import annotations

import concurrent.futures as cf
import fcntl
import hashlib
import json
import os
import re
import shlex
import subprocess
import sys
import time
from pathlib import Path

REPO = Path(os.environ.get("VERIF_REPO", "/repo"))
VERIF = Path(__file__).resolve().parent.parent
BUILD_ROOT = Path(os.environ.get("VERIF_BUILD_ROOT", VERIF / ".build"))
SITE = Path("/venv/lib/python3.12/site-packages")
PYARROW = SITE / "pyarrow"
CXX = os.environ.get("VERIF_CXX", "g++")
JOBS = int(os.environ.get("VERIF_JOBS", str(os.cpu_count() or 4)))

# TUs that need third-party libraries not present in the image; replaced by harness/stubs.cpp
SKIP_TUS = {
    "hgraph/lib/std/operators/json_impl.cpp",
    "hgraph/types/value/json_codec.cpp",
    "hgraph/types/time_zone_provider.cpp",
}

CFG_FLAGS = {
    "plain": ["-O1"],
    "tsan": ["-O1", "-g", "-fsanitize=thread"],
    "asan": ["-O1", "-g", "-fsanitize=address,undefined", "-fno-sanitize-recover=undefined"],
}


class BuildError(Exception):
    pass


def _sha(b: bytes) -> str:
    return hashlib.sha256(b).hexdigest()


_file_hash_cache: dict[str, str] = {}


def file_hash(p: str) -> str | None:
    h = _file_hash_cache.get(p)
    if h is None:
        try:
            with open(p, "rb") as f:
                h = _sha(f.read())
        except OSError:
            return None
        _file_hash_cache[p] = h
    return h


def tu_list() -> list[str]:
    text = (REPO / "src" / "CMakeLists.txt").read_text()
    out: list[str] = []
    for name in ("HGRAPH_RUNTIME_SOURCES", "HGRAPH_WIRING_SOURCES", "HGRAPH_STDLIB_SOURCES"):
        m = re.search(r"set\(" + name + r"\s+(.*?)\)", text, re.S)
        if not m:
            raise BuildError(f"cannot find {name} in src/CMakeLists.txt")
        for tok in m.group(1).split():
            if tok.endswith(".cpp") and "/python/" not in tok and tok not in SKIP_TUS:
                out.append(tok)
    return out


def gen_dir(cfg: str) -> Path:
    return BUILD_ROOT / cfg / "gen"


def write_if_changed(p: Path, content: str) -> None:
    p.parent.mkdir(parents=True, exist_ok=True)
    if p.exists() and p.read_text() == content:
        return
    p.write_text(content)


def prepare_gen(cfg: str) -> None:
    g = gen_dir(cfg)
    vin = (REPO / "include/hgraph/version.h.in").read_text()
    subs = {
        "PROJECT_VERSION_MAJOR": "0", "PROJECT_VERSION_MINOR": "8", "PROJECT_VERSION_PATCH": "0",
        "PROJECT_VERSION": "0.8.0", "HGRAPH_GIT_BRANCH": "verif", "HGRAPH_GIT_COMMIT_HASH": "tree",
        "HGRAPH_GIT_COMMIT_DATE": "n/a",
    }
    for k, v in subs.items():
        vin = vin.replace("@" + k + "@", v)
    write_if_changed(g / "hgraph" / "version.h", vin)


def base_flags(cfg: str) -> list[str]:
    return [
        "-std=c++23", "-w", "-pthread",
        "-DHGRAPH_STATIC_DEFINE", "-DFMT_HEADER_ONLY", "-DSPDLOG_FMT_EXTERNAL",
        "-DHGRAPH_TIME_ZONE_BACKEND_DATE=1", "-DHGRAPH_VERIF=1",
        *CFG_FLAGS[cfg],
        "-include", str(VERIF / "shims" / "chrono_io_shim.h"),
        "-I", str(gen_dir(cfg)),
        "-I", str(VERIF / "shims"),
        "-I", str(REPO / "include"),
        "-I", str(REPO / "include" / "third_party"),
        "-I", str(REPO / "src"),
        "-I", str(SITE / "include"),
        "-I", str(PYARROW / "include"),
    ]


def parse_depfile(path: Path) -> list[str] | None:
    try:
        txt = path.read_text()
    except OSError:
        return None
    txt = txt.replace("\\\n", " ")
    if ":" not in txt:
        return None
    deps = shlex.split(txt.split(":", 1)[1])
    return [d for d in deps if d]


def _norm(p: str) -> str:
    """Path-independent spelling, so a build directory seeded from another checkout stays valid. /tmp/seedkit is the copy of the build
    layer handed to seeding sub-agents (DESIGN 7.4): both roots spell alike, so the two tools do not invalidate each other's objects."""
    return p.replace(str(BUILD_ROOT), "$BUILD").replace(str(REPO), "$REPO").replace(str(VERIF), "$VERIF").replace("/tmp/seedkit", "$VERIF")


def closure_key(flags: list[str], src: str, deps: list[str]) -> str | None:
    h = hashlib.sha256()
    h.update(("\0".join(_norm(f) for f in flags)).encode())
    for d in sorted(set(deps + [src]), key=_norm):
        if d.startswith("/usr/") or d.startswith("/opt/"):
            continue  # toolchain headers are fixed in this image
        fh = file_hash(d)
        if fh is None:
            return None
        h.update(_norm(d).encode()); h.update(fh.encode())
    return h.hexdigest()


def compile_one(src: str, obj: Path, flags: list[str], extra: list[str] = ()) -> tuple[bool, str, float]:
    """Returns (rebuilt, log, seconds)."""
    dep = obj.with_suffix(obj.suffix + ".d")
    keyf = obj.with_suffix(obj.suffix + ".key")
    allflags = list(flags) + list(extra)
    deps = parse_depfile(dep)
    if deps is not None and obj.exists() and keyf.exists():
        k = closure_key(allflags, src, deps)
        if k is not None and keyf.read_text() == k:
            return (False, "", 0.0)
    obj.parent.mkdir(parents=True, exist_ok=True)
    t0 = time.time()
    cmd = [CXX, *allflags, "-MMD", "-MF", str(dep), "-c", src, "-o", str(obj)]
    r = subprocess.run(cmd, capture_output=True, text=True)
    dt = time.time() - t0
    if r.returncode != 0:
        for f in (keyf,):
            try: f.unlink()
            except OSError: pass
        raise BuildError(f"compile failed: {src}\n{' '.join(cmd)}\n{r.stderr[-6000:]}")
    deps = parse_depfile(dep) or []
    # hashes of files may have been cached before compile; they cannot have changed meanwhile in our use
    k = closure_key(allflags, src, deps)
    keyf.write_text(k or "")
    return (True, r.stderr, dt)


class Lock:
    def __init__(self, cfg: str):
        d = BUILD_ROOT / cfg
        d.mkdir(parents=True, exist_ok=True)
        self.path = d / ".lock"
        self.fd = None

    def __enter__(self):
        self.fd = open(self.path, "w")
        fcntl.flock(self.fd, fcntl.LOCK_EX)
        return self

    def __exit__(self, *a):
        fcntl.flock(self.fd, fcntl.LOCK_UN)
        self.fd.close()


def build_tree(cfg: str = "plain", verbose: bool = True) -> Path:
    """Compile the repo TUs + stubs into a static archive. Returns archive path."""
    prepare_gen(cfg)
    flags = base_flags(cfg)
    objdir = BUILD_ROOT / cfg / "obj"
    jobs: list[tuple[str, Path]] = []
    for tu in tu_list():
        jobs.append((str(REPO / "src" / tu), objdir / (tu.replace("/", "__") + ".o")))
    jobs.append((str(VERIF / "harness" / "stubs.cpp"), objdir / "verif__stubs.o"))
    rebuilt = 0
    t0 = time.time()
    errors: list[str] = []
    with cf.ThreadPoolExecutor(max_workers=JOBS) as ex:
        futs = {ex.submit(compile_one, s, o, flags): s for s, o in jobs}
        for f in cf.as_completed(futs):
            try:
                rb, _, _ = f.result()
                rebuilt += 1 if rb else 0
            except BuildError as e:
                errors.append(str(e))
    if errors:
        raise BuildError("\n".join(errors[:3]))
    # remove stale objects of TUs no longer listed
    want = {str(o) for _, o in jobs}
    for p in objdir.glob("*.o"):
        if str(p) not in want:
            p.unlink()
    lib = BUILD_ROOT / cfg / "libhgraph_tree.a"
    if rebuilt or not lib.exists():
        if lib.exists():
            lib.unlink()
        objs = sorted(str(o) for _, o in jobs)
        r = subprocess.run(["ar", "crs", str(lib), *objs], capture_output=True, text=True)
        if r.returncode != 0:
            raise BuildError("ar failed: " + r.stderr)
    if verbose:
        print(f"[build] tree cfg={cfg}: {len(jobs)} TUs, {rebuilt} rebuilt, {time.time()-t0:.1f}s", file=sys.stderr)
    return lib


def link_flags(cfg: str) -> list[str]:
    libs = [str(PYARROW / n) for n in ("libarrow.so.2500", "libarrow_compute.so.2500", "libarrow_acero.so.2500")]
    return [*CFG_FLAGS[cfg], "-pthread", *libs, f"-Wl,-rpath,{PYARROW}", "-ldl", "-lpthread"]


PCH_HEADER = VERIF / "harness" / "vpch.h"


def build_pch(cfg: str) -> list[str]:
    """Precompile harness/vpch.h; returns extra flags to use it."""
    pdir = BUILD_ROOT / cfg / "pch"
    pdir.mkdir(parents=True, exist_ok=True)
    # gcc looks for <dir>/vpch.h.gch when including "<dir>/vpch.h"
    hdr_copy = pdir / "vpch.h"
    write_if_changed(hdr_copy, PCH_HEADER.read_text())
    gch = pdir / "vpch.h.gch"
    flags = base_flags(cfg) + ["-I", str(VERIF / "harness")]
    dep = pdir / "vpch.h.gch.d"
    keyf = pdir / "vpch.h.gch.key"
    deps = parse_depfile(dep)
    src = str(hdr_copy)
    if deps is not None and gch.exists() and keyf.exists():
        k = closure_key(flags, src, deps)
        if k is not None and keyf.read_text() == k:
            return ["-include", str(hdr_copy), "-Winvalid-pch"]
    cmd = [CXX, *flags, "-x", "c++-header", "-MMD", "-MF", str(dep), src, "-o", str(gch)]
    r = subprocess.run(cmd, capture_output=True, text=True)
    if r.returncode != 0:
        raise BuildError(f"pch failed\n{r.stderr[-6000:]}")
    k = closure_key(flags, src, parse_depfile(dep) or [])
    keyf.write_text(k or "")
    return ["-include", str(hdr_copy), "-Winvalid-pch"]


def build_harness(name: str, sources: list[str], cfg: str = "plain", verbose: bool = True,
                  use_pch: bool = True, extra_flags: list[str] = ()) -> Path:
    """Compile harness sources (relative to /verif/harness) and link against the tree archive."""
    with Lock(cfg):
        lib = build_tree(cfg, verbose)
        t0 = time.time()
        flags = base_flags(cfg) + ["-I", str(VERIF / "harness")] + list(extra_flags)
        pch_flags = build_pch(cfg) if use_pch else []
        objdir = BUILD_ROOT / cfg / "hobj"
        objs: list[Path] = []
        jobs = []
        for s in sources:
            src = str(VERIF / "harness" / s)
            obj = objdir / (s.replace("/", "__") + ".o")
            objs.append(obj)
            jobs.append((src, obj))
        rebuilt = 0
        errors: list[str] = []
        with cf.ThreadPoolExecutor(max_workers=JOBS) as ex:
            futs = [ex.submit(compile_one, s, o, flags, pch_flags) for s, o in jobs]
            for f in futs:
                try:
                    rb, _, _ = f.result()
                    rebuilt += 1 if rb else 0
                except BuildError as e:
                    errors.append(str(e))
        if errors:
            raise BuildError("\n".join(errors[:3]))
        exe = BUILD_ROOT / cfg / "bin" / name
        exe.parent.mkdir(parents=True, exist_ok=True)
        stamp = exe.with_suffix(".key")
        key = _sha(("\0".join([file_hash_nocache(str(o)) for o in objs] + [file_hash_nocache(str(lib))])).encode())
        if not exe.exists() or not stamp.exists() or stamp.read_text() != key:
            cmd = [CXX, "-o", str(exe), *[str(o) for o in objs], "-Wl,--start-group", str(lib), "-Wl,--end-group",
                   *link_flags(cfg)]
            r = subprocess.run(cmd, capture_output=True, text=True)
            if r.returncode != 0:
                raise BuildError(f"link failed: {name}\n{r.stderr[-6000:]}")
            stamp.write_text(key)
        if verbose:
            print(f"[build] harness {name}: {rebuilt}/{len(jobs)} rebuilt, {time.time()-t0:.1f}s", file=sys.stderr)
        return exe


def build_harnesses(items: list[tuple[str, list[str]]], cfg: str = "plain", verbose: bool = True) -> None:
    """Compile the sources of many harnesses in ONE parallel pool (setup), then link each through build_harness
    (which finds every object up to date)."""
    with Lock(cfg):
        build_tree(cfg, verbose)
        flags = base_flags(cfg) + ["-I", str(VERIF / "harness")]
        pch_flags = build_pch(cfg)
        objdir = BUILD_ROOT / cfg / "hobj"
        srcs = sorted({s for _, ss in items for s in ss})
        t0 = time.time()
        errors: list[str] = []
        with cf.ThreadPoolExecutor(max_workers=JOBS) as ex:
            futs = [ex.submit(compile_one, str(VERIF / "harness" / s), objdir / (s.replace("/", "__") + ".o"), flags, pch_flags) for s in srcs]
            for f in futs:
                try:
                    f.result()
                except BuildError as e:
                    errors.append(str(e))
        if errors:
            raise BuildError("\n".join(errors[:3]))
        if verbose:
            print(f"[build] {len(srcs)} harness sources compiled in {time.time()-t0:.1f}s", file=sys.stderr)
    for name, ss in items:
        build_harness(name, ss, cfg=cfg, verbose=verbose)


def file_hash_nocache(p: str) -> str:
    with open(p, "rb") as f:
        return _sha(f.read())


if __name__ == "__main__":
    import argparse
    ap = argparse.ArgumentParser()
    ap.add_argument("--cfg", default="plain")
    a = ap.parse_args()
    try:
        with Lock(a.cfg):
            build_tree(a.cfg)
    except BuildError as e:
        print(str(e), file=sys.stderr)
        sys.exit(2)
