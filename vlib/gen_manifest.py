#!/usr/bin/env python3
"""Regenerates /verif/MANIFEST.json from vlib/registry.py (single source of truth)."""
import json
import sys
from pathlib import Path
VERIF = Path(__file__).resolve().parent.parent
sys.path.insert(0, str(VERIF / "vlib"))
from registry import CHECKS, NOT_APPLICABLE  # noqa: E402

BASELINE = ("cd /repo && /venv/bin/python -m pytest -ra -q -p no:cacheprovider --timeout=900 "
            "--continue-on-collection-errors --junitxml=/tmp/hgraph_baseline.junit.xml")

def main():
    props = [json.loads(l)["id"] for l in (VERIF / "properties.jsonl").read_text().splitlines() if l.strip()]
    checks = []
    for pid in props:
        if pid not in CHECKS:
            continue
        s = CHECKS[pid]
        checks.append({
            "property_id": pid,
            "quick_cmd": f"./check {pid} --tier quick",
            "thorough_cmd": f"./check {pid} --tier thorough",
            "evidence_file": f"/verif/evidence/{pid}.json",
            "replay_cmd_template": f"./check {pid} --replay {{path}}",
            "engine": s.get("engine", s["parts"][0]["exe"]),
            "level_claimed": {"category": s["level"], "text": s["level_text"], "design_ref": s.get("design_ref", "DESIGN.md")},
            "level_note": s["level_note"],
            "technique": s["technique"],
        })
    na = [{"property_id": pid, "reason": NOT_APPLICABLE.get(pid, "check not built yet (work in progress; see DESIGN.md section 6)")}
          for pid in props if pid not in CHECKS]
    engines = {}
    for pid, s in CHECKS.items():
        for part in s["parts"]:
            e = engines.setdefault(part["exe"], {"name": part["exe"], "path": "/verif/harness/" + part["sources"][0],
                                                 "serves_properties": [], "kind_free_text": s.get("engine_kind", "C++ explorer linked against the tree rebuilt from /repo")})
            if pid not in e["serves_properties"]:
                e["serves_properties"].append(pid)
    m = {
        "version": 1,
        "setup_cmd": "./build --cfg plain",
        "hooks": {
            "guard": "HGRAPH_VERIF",
            "enable": "compile definition -DHGRAPH_VERIF=1 passed by /verif/vlib/vbuild.py to every TU. It guards one hook: the real-time "
                      "executor's lock-free stop flag (src/hgraph/runtime/executor.cpp) yields to hgraph_verif_point() after each load and "
                      "store; only the controlled-scheduler harnesses (C16, C17, C07) define that function, elsewhere the weak symbol is null. "
                      "All other observation goes through public API, lifecycle observers and symbol interposition.",
            "baseline_off_cmd": BASELINE,
            "source_commits": ["a8ec784"],
            "add_only": True,
        },
        "engines": list(engines.values()),
        "checks": checks,
        "not_applicable": na,
        "notes": "All checks compile /repo's working tree themselves (the pinned pytest suite runs the installed wheel and cannot see "
                 "the tree). Exit 2 = build/harness error, never a verdict. See DESIGN.md.",
    }
    (VERIF / "MANIFEST.json").write_text(json.dumps(m, indent=1) + "\n")

if __name__ == "__main__":
    main()
