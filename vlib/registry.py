"""Registry of checks: property id -> harness parts, evidence metadata and MANIFEST text."""

COMMON_ASSUMPTIONS = [
    "The decision is taken on executables compiled from /repo's current working tree (119 of 122 non-Python TUs + "
    "3 stubbed TUs that need simdjson/date-tz, see DESIGN.md section 0); the Python bridge is not built.",
    "g++ 12 -O1, libstdc++; behaviours that differ only under other compilers/optimisation levels are not covered.",
]

CHECKS = {
    "C18": {
        "title": "Node scheduler wakes the node at every pending time and its queries agree",
        "level": "model_checking",
        "technique": "explicit-state BFS to fixpoint over the real NodeScheduler/NodeSchedulerState against a reference "
                     "pending-set model, plus BFS over evaluation-boundary states of a scripted node in a real simulation graph",
        "design_ref": "DESIGN.md 2/C18",
        "parts": [
            {"name": "comp", "exe": "c18_sched", "sources": ["c18_sched.cpp"], "sub": "comp", "shards": 1},
            {"name": "integ", "exe": "c18_sched", "sources": ["c18_sched.cpp"], "sub": "integ", "shards": {"quick": 7, "thorough": 9}},
        ],
        "rule": "comp: every reachable canonical state (pending events and tag index relative to now, start/eval phase, "
                "engine scheduled_now snapshot) x every op of the alphabet {schedule(delta 0..3 | absolute now-1/now+2, tag -|x|y), "
                "un_schedule(tag), un_schedule(), pop_tag, reset, end-of-evaluation + next evaluation at now+k}; "
                "integ: BFS over (pending set, external drivers) at evaluation boundaries x every op list (<=2 ops quick, +<=3 ops "
                "thorough) executed by a scripted static node on a freshly built real simulation graph (alone / beside a "
                "self-scheduling node / driven by replay inputs); non-trivial = the node was evaluated at least twice.",
        "bounds": {"quick": "relative times <= 3, tags {x,y}, op lists <= 2 per evaluation, BFS to fixpoint",
                   "thorough": "as quick + op lists of length 3 over one tag, two more input patterns"},
        "min_counters": {"quick": {"states": 500, "comp.comp_fixpoint": 1, "nontrivial": 1000}},
        "assumptions": COMMON_ASSUMPTIONS + [
            "Evaluations at times that were requested and later cancelled are a don't-care (the statement requires wake-ups at "
            "pending times, not their absence elsewhere).",
            "integ dedup key excludes the node's graph slot because it equals the evaluation time at every evaluation start.",
        ],
        "level_text": "Exhaustive explicit-state search (fixpoint reached, no cap) of the scheduler component and of the "
                      "scheduler/graph-slot protocol inside real simulation runs, each transition compared with a reference model.",
        "level_note": "Trusted: the reference pending-set model in harness/c18_sched.cpp; the engine evaluates a node only via its "
                      "graph slot. Wall-clock alarms (on_wall_clock) are covered under C17, not here.",
    },
}

CHECKS["C01"] = {
    "title": "Nodes evaluate at most once per cycle and only after their producers",
    "level": "exploration",
    "technique": "exhaustive bounded enumeration of wiring programs x insertion orders x tick histories on the real engine, "
                 "checked by a static rank check, a lifecycle-observer monitor and a per-cycle reference interpreter",
    "design_ref": "DESIGN.md 2/C01",
    "parts": [{"name": "graphx", "exe": "c01_order", "sources": ["c01_order.cpp"], "shards": {"quick": 16, "thorough": 256}},
              {"name": "pause", "exe": "c01_pause", "sources": ["c01_pause.cpp"], "shards": 8},
              {"name": "mesh", "exe": "c01_mesh", "sources": ["c01_mesh.cpp"], "shards": {"quick": 16, "thorough": 64}}],
    "rule": "every canonical DAG program of <= N statements over {int source, bool source, 1/2/3-input compute, stateful accumulator, "
            "to_tsl/to_tsb structural source + collection reader, if_then_else (REF), nested_<G> and inlined wire<G> of 4 bodies up to "
            "nesting depth 2} in which every statement but the last is consumed; x EVERY insertion order of the statements (inputs not yet "
            "wired go through delayed_binding); x every tick pattern of every source over T cycles (cycle-unique values); plus rings of 1..4 "
            "nodes closed by delayed binding / rank dependency (must be rejected) or feedback (must run). non-trivial = a non-identity "
            "insertion order together with >= 2 sources ticking in the same cycle. "
            "Every program also with the second input of one two/three-input node marked passive(). pause part: Before -> Gate -> After, flat, inside "
            "nested_ and inside try_except_, driven cycle by cycle through MockGraphExecutor; the gate may throw, or PAUSE once or twice (evaluate "
            "returns false, the cycle is evaluated again at the same time); every history over T cycles of {none, value, throwing value, pause-once, "
            "pause-twice}: Before and After run exactly once per ticking cycle, the gate is entered once per resume and completes once, nothing runs "
            "after a throw, a captured throw (try_except_) does not disturb later cycles. mesh part: result[k] = val[k] + default(mesh_(f)[link[k]], 0) over two "
            "dictionaries; every history of <= L ops per cycle over T cycles from {set val[k] (cycle-stamped digit), point link[k] at j, j possibly a key created "
            "on demand that never has a value}; at the end of EVERY cycle the mesh output must equal the stateless recomputation of all instances from the "
            "current tables (a lagging digit = an instance ran before the sibling it reads through the reference). Histories that close a link cycle (also "
            "transiently, through an edge replaced in the same cycle) or re-point a link from a target with a result to one without are not run.",
    "bounds": {"quick": "N<=4 statements, <=2 sources, T=3 (T=2 for N=4), all 4!/3!/2! orders; mesh: 3 keys + 1 on-demand key, L<=1 x T=5, L<=2 x T=3, L<=3 x T=2",
               "thorough": "N<=4 statements over the full alphabet, <=3 sources, T=3, all orders; N=5 over {source, 1/2-input compute, accumulator, list reader, nested_} with <=2 sources, T=2, all 5! orders"},
    "min_counters": {"quick": {"nontrivial": 10000, "graphx.cycle_cases": 20, "graphx.runs_with_nested_evaluations": 1000, "mesh.mesh_cases": 100000}},
    "assumptions": COMMON_ASSUMPTIONS + [
        "Programs larger than the bound, service/adaptor rank anchors and mesh are not explored.",
        "The modified flag of an input that holds no value is not compared (outside C01's statement).",
    ],
    "level_text": "Complete enumeration of the bounded program x order x history space on the real wiring + runtime; each execution is "
                  "compared with an independent per-cycle reference, and every compiled graph (incl. child graphs) is checked statically.",
    "level_note": "Trusted: the reference interpreter in harness/gx.h (topological per-cycle evaluation) and the lifecycle observer callbacks "
                  "as faithful reports of evaluation order.",
}

CHECKS["C06"] = {
    "title": "Behaviour depends on the dataflow, not on wiring order or node sharing",
    "level": "exploration",
    "technique": "exhaustive bounded enumeration of programs with duplicated / near-duplicated statements x every insertion order x tick "
                 "histories on the real engine; differential across orders + reference interpreter + node-count lower bound",
    "design_ref": "DESIGN.md 2/C06",
    "parts": [{"name": "twins", "exe": "c01_order", "sources": ["c01_order.cpp"], "sub": "c06", "shards": {"quick": 16, "thorough": 256}},
              {"name": "ports", "exe": "c06_ports", "sources": ["c06_ports.cpp"], "shards": 16},
              {"name": "errcap", "exe": "c06_errcap", "sources": ["c06_errcap.cpp"], "shards": 8},
              {"name": "swap", "exe": "c06_swap", "sources": ["c06_swap.cpp"], "shards": 16}],
    "rule_keyed": "swap part: op(x,y), op(y,x), a duplicate op(x,y) and identical sinks on all three, for op in {lifted add_ on strings, lifted sub_ and add_ on "
                  "ints, a static non-commutative node}; all 90 admissible orders of the six statements x every tick pattern of both sources over T=3 (4): every sink "
                  "records the function of its own operands in its own order, both identical sinks run.",
    "rule": "errcap part: x -> Mid -> Risky (throws on negative input) and 2..3 independent blocks, each asking for the error time-series of Risky with its own capture options (trace depth 0/1/2, with / without input values), through equal sub-expressions (one shared instance) or one common port; every permutation of the block statements x every history with a throw: every block sees the same (message, back trace without node ids) stream in all orders, an error tick exactly in the throwing cycles. every base DAG program of <= N statements (vocabulary of C01 without inlining) with one statement duplicated in each of four "
            "ways — exact twin (same definition, inputs, scalars: may be shared), scalar variant, input variant, passive() marker on one "
            "input (each must stay a distinct node) — plus a combiner reading both and a sink on every port (twin sinks have equal keys and "
            "must stay distinct); x EVERY insertion order via delayed_binding; x every tick pattern (T=2) of every source. Oracle: every order "
            "gives the same observation signature (differential) equal to the reference interpreter; nodes().size() >= structurally distinct "
            "value nodes + sinks; typed twins (replay<TS<Int>>(k) vs replay<TS<Bool>>(k)) stay distinct. non-trivial = distinct (program, history). "
            "ports part: src -> Tracker (ordinary output and recordable state of the same fixed shape {a,b}, bundle and 2-element list, different "
            "contents) -> two consumers each reading the ordinary output or the recordable state, whole, one leaf, or BOTH leaves inside a nested child graph, passed as arguments or captured through contexts (two same-typed projections of one node must stay two captures); ALL 24 permutations of the four "
            "wiring statements (a consumer or the producer wired before its source exists goes through delayed_binding<S> and is bound when the source "
            "appears) x every history of {no tick, odd, even} over T cycles; every permutation must give the streams of the reference model.",
    "bounds": {"quick": "base programs <= 3 statements (+ twin + combiner = 5), all 5! orders, T=2; ports: T=4",
               "thorough": "base programs <= 4 statements (+ twin + combiner = 6), all 6! orders, T=2"},
    "min_counters": {"quick": {"nontrivial": 1000, "twins.exact_twin_graphs_shared": 100, "twins.typed_twin_cases": 1, "ports.consumer_first_cases": 50000}},
    "assumptions": COMMON_ASSUMPTIONS + ["Sharing of exact twins is allowed but not required; value-node records of twins are compared as sets, sink records as multisets."],
    "level_text": "Complete enumeration of the bounded twin-program x order x history space; order independence is decided differentially "
                  "between all orders of the same program and against an independent reference.",
    "level_note": "Trusted: reference interpreter (harness/gx.h), structural-class computation in harness/c01_order.cpp (what may legitimately be merged).",
}

CHECKS["C09"] = {
    "title": "A sub-graph behaves the same inlined or nested, at any depth",
    "level": "exploration",
    "technique": "exhaustive bounded enumeration of sub-graph bodies x input histories, each wired inlined / nested / nested-in-nested / "
                 "depth 3 on the real engine; differential between variants + reference interpreter + lifecycle monitor",
    "design_ref": "DESIGN.md 2/C09",
    "parts": [{"name": "nested", "exe": "c09_nested", "sources": ["c09_nested.cpp"], "sub": "c09", "shards": {"quick": 16, "thorough": 256}}],
    "rule": "every sub-graph body of <= N statements over {self-scheduling ticker with period 1|2|3 (2 emissions), stateful accumulator, "
            "1- and 2-input compute, pass-through of a boundary input}, inputs from the two boundary ports or earlier statements, no dead "
            "statement; wired through wire<G> (inlined), nested_<G>, nested_ in nested_, and depth 3; x every tick pattern of the two outer "
            "sources over T=4 cycles (incl. never-ticking = idle parent driven only by the child's own schedule). Oracle: outer sink stream "
            "identical across the four variants and equal to the reference; every internal evaluation equals the reference's (no wake-up "
            "lost or moved); a child graph is never evaluated before its parent's current time. non-trivial = nested variant, body with an "
            "internal timer, at least one outer tick. "
            "Late-created enclosing graph: the same bodies (<= 2 statements, 3 thorough) as the single branch of a switch_ that is selected in cycle "
            "0, 1 or 2, once as nested_<G> and once inlined, over every input history: when the branch starts its boundary inputs may already hold "
            "values, and both variants must give the same output stream.",
    "bounds": {"quick": "bodies <= 3 statements, T=4 (256 histories), depth 0..3", "thorough": "bodies <= 4 statements, T=4, depth 0..3"},
    "min_counters": {"quick": {"nontrivial": 20000, "nested.bodies": 1000}},
    "assumptions": COMMON_ASSUMPTIONS + ["Bodies larger than the bound, REF-shaped boundaries (C13) and captured outer ports are not explored here."],
    "level_text": "Complete enumeration of the bounded body x history space, decided differentially between inlined and nested wirings of the same definition.",
    "level_note": "Trusted: the reference interpreter (harness/gx.h) and the observer events of nested graphs.",
}

CHECKS["C02"] = {
    "title": "Simulation honours every scheduled wake-up at exactly its time, in order",
    "level": "model_checking",
    "technique": "exhaustive enumeration of wake-up-requesting programs x tick histories x run windows on the real simulation executor, each "
                 "run compared step by step with a discrete-event reference model (cycle-time set, per-node evaluation times, next_scheduled_time)",
    "design_ref": "DESIGN.md 2/C02",
    "parts": [{"name": "wakeups", "exe": "c09_nested", "sources": ["c09_nested.cpp"], "sub": "c02", "shards": {"quick": 16, "thorough": 256}},
              {"name": "singleshot", "exe": "c02_singleshot", "sources": ["c02_singleshot.cpp"], "shards": 4}],
    "rule_keyed": "singleshot part: a node asking through the stateless SingleShotScheduler - start hook: every sequence of <= 2 requests from {now, +1, +2, +4}; first "
                  "evaluation: none, +1 or +3 - next to an input ticking in every subset of 6 cycles; evaluated at every requested time and every input tick and at no other "
                  "time (two forms in which the single graph slot loses a request are listed known findings, verified exactly).",
    "rule": "every program of 1-2 scripted self-scheduling sources (tick exactly at their history cycles through NodeScheduler) followed by <= K "
            "statements over {ticker (period,count) in {(1,3),(2,2),(3,2),(5,2)}, 1/2-input compute, stateful accumulator, nested_ of five bodies "
            "holding tickers at depth 1 and 2, far timers and consecutive-step timers}; x every tick pattern of the sources over T cycles; x run "
            "windows start in {MIN_ST, MIN_ST+7} x end in {start+1,+3,+6,+40}. Oracle: the observed set of root cycle times EQUALS the reference's "
            "requested times inside [start,end) (nothing dropped, coalesced, early, late or extra), strictly increasing; every node evaluation "
            "(time, inputs, output) equals the reference; after every cycle next_scheduled_time() equals the earliest pending request. "
            "states = distinct observed traces (cycle times + per-node evaluation times and values); transitions = engine cycles executed; non-trivial = a nested child was evaluated "
            "and the run had >= 3 cycles.",
    "bounds": {"quick": "K<=2, T=4, 8 windows", "thorough": "K<=3, T=5, 8 windows"},
    "min_counters": {"quick": {"nontrivial": 20000, "states": 5000}},
    "assumptions": COMMON_ASSUMPTIONS + ["Requests through the raw GraphView::schedule_node on an already-scanned node are not a documented wake-up surface and are not driven.",
                                           "stdlib replay sources wake every buffered cycle by design; the exact cycle-set oracle therefore uses scripted sources."],
    "level_text": "Every execution in the bounded space is a trace of the real executor validated against the discrete-event model; the cycle-time set must match exactly.",
    "level_note": "Trusted: the discrete-event reference in harness/gx.h (ref_run) and LifecycleObserver::on_before/after_graph_evaluation as the report of cycle times.",
}

CHECKS["C08"] = {
    "title": "Feedback delivers each value exactly one smallest time step later",
    "level": "exploration",
    "technique": "exhaustive bounded enumeration of writer histories (with repeated values) over feedback topologies on the real engine; "
                 "differential oracle: reader probe == writer probe shifted by exactly one step",
    "design_ref": "DESIGN.md 2/C08",
    "parts": [{"name": "feedback", "exe": "c08_feedback", "sources": ["c08_feedback.cpp"], "shards": {"quick": 16, "thorough": 256}}],
    "rule": "topologies: open loop TS (with and without declared initial value), TSS, TSD, a fixed TSL<TS<Int>,2> and a TSB{a,b} whose elements get their first values in different cycles or never; self loop out=ts+fb with an active reader (window of 14 "
            "steps) and with a passive reader (must go quiescent); the same two inside nested_; two independent loops ticking together; a "
            "mutual loop (active / passive); a TSS feedback bound to an if_then_else-selected writer. Histories: every sequence over T cycles of "
            "{no write, write 1, write 2} (equal values on consecutive steps included); for sets {none,+1,+2,-1,-2,+1+2,clear,+1-1}^T, for dicts "
            "{none,set/erase of two keys}^T. Oracle: the probe on the feedback reader port logs exactly the writer probe's ticks (canonical delta + "
            "value) one step later, prefixed by the initial value at start; the loop body never reads a value written in its own cycle; passive "
            "loops stop cycling one step after the last input. non-trivial = a writer ticked on two consecutive steps.",
    "bounds": {"quick": "T=5 (TS), T=4 (collections, two-writer templates)", "thorough": "T=6 (TS), T=5 (collections, two-writer templates)"},
    "min_counters": {"quick": {"nontrivial": 20000, "feedback.cases_selfp": 200, "feedback.cases_tsd": 1000}},
    "assumptions": COMMON_ASSUMPTIONS + [
        "Ticks whose net delta is empty (e.g. removing an absent element) write no value and are not required to be delivered.",
        "For the reference-selected writer only value changes and their times are compared (the delta seen on a retarget is C13's subject).",
    ],
    "level_text": "Complete enumeration of the bounded history space per topology on the real engine with a differential (writer vs reader) oracle.",
    "level_note": "Trusted: capture_delta/Value::to_string as the rendering of what a probe node sees; the writer-side probe as ground truth of what was written.",
}

CHECKS["C03"] = {
    "title": "User code runs exactly when an active input ticked and required inputs are valid",
    "level": "exploration",
    "technique": "exhaustive enumeration of input-policy combinations x passive-marker masks x tick histories on real static nodes; "
                 "complete evaluation log compared with the activation/validity reference rule",
    "design_ref": "DESIGN.md 2/C03",
    "parts": [{"name": "gate", "exe": "c03_gate", "sources": ["c03_gate.cpp"], "shards": {"quick": 16, "thorough": 256}}],
    "rule": "probe node types: all 36 combinations of InputActivity {Active,Passive} x InputValidity {Valid,Unchecked,AllValid} on two TS inputs; "
            "the 8 activity combinations on three inputs (validities Valid,Unchecked,Valid); parameter-order variants with State / Scalar / "
            "NodeScheduler listed before the inputs; one structural TSL input under Valid/AllValid/Unchecked; a self-scheduling probe; each under "
            "every wiring-time passive(port) marker mask (a mask removing the last active input must be rejected at wiring); each followed by a "
            "second stage reading the probe output; x every tick pattern of every source over T cycles (never-valid, late-valid, simultaneous). "
            "Oracle: the probe runs in cycle t iff (an active input modified at t or its own wake-up due) and every required input valid; every "
            "logged read (value/modified/valid) and every output equals the reference. non-trivial = histories where the gate had to suppress at "
            "least one candidate evaluation.",
    "bounds": {"quick": "T=5 (2 inputs), T=4 (3 inputs)", "thorough": "T=6 (2 inputs), T=5 (3 inputs)"},
    "min_counters": {"quick": {"nontrivial": 10000, "gate.probe_types": 50, "gate.all_passive_rejections": 10}},
    "assumptions": COMMON_ASSUMPTIONS + ["Dynamic make_active/make_passive at run time and the documented start-up sampling of nodes without any validity "
                                           "requirement inside nested graphs (nested_bindings.h) are not part of the alphabet."],
    "level_text": "Complete enumeration of the policy x marker x history space on real static nodes against the reference gate rule.",
    "level_note": "Trusted: the reference rule in harness/c03_gate.cpp (reference()).",
}

_COLL_RULE = 'a scripted writer applies every list of <= L mutations per cycle over T cycles to a real output of each shape through the typed Out<> API: TS<Int> {set 1, set 2, invalidate}, TSS<Int> {+1,+2,-1,-2,clear, bulk add/remove of 9 keys (crosses slot-capacity boundaries)}, TSD<Int,TS<Int>> {set/erase of two keys, clear, bulk}, TSD<Int,TSS<Int>> {add/remove inside a keyed set, erase key}, TSL<TS<Int>,2>, TSB{a,b}, TSW<Int,3,2> (one push per cycle); same-cycle add+remove, remove+re-add and erase+re-add included. Observers in the same graph: the producer view every cycle, two passive consumers woken every cycle by their own scheduler, an active typed mirror, a consumer bound to child 0 of TSL/TSB. '

CHECKS["C05"] = {
    "title": "Collection deltas are coherent with collection values at every tick",
    "level": "model_checking",
    "technique": "exhaustive enumeration of mutation histories on real collection outputs; every tick's typed value/added/removed/modified view "
                 "compared with a reference container (std::set/map/deque) and its net per-cycle change",
    "design_ref": "DESIGN.md 2/C05",
    "parts": [{"name": "coll", "exe": "c05_coll", "sources": ["c05_coll.cpp"], "sub": "c05", "shards": {"quick": 16, "thorough": 256}},
              {"name": "window", "exe": "c05_window", "sources": ["c05_window.cpp"], "shards": 16}],
    "rule": _COLL_RULE + "Oracle (C05): at every tick the typed value equals the reference container; added/removed are exactly the NET change of the "
            "cycle (so added and removed are disjoint, added are present, removed are absent and were present, cancelling mutations leave no trace); "
            "a removed dictionary entry's value is readable during the removing cycle; the window equals the last 3 pushes in order, valid from the "
            "first push and all_valid from the minimum count. states = distinct observed per-cycle (flags,value) traces; transitions = consumer ticks "
            "checked; non-trivial = histories with several mutations in one cycle or a tick that both adds and removes. "
            "window part: a real TSOutput holding a DURATION window (registry.tsw_duration, ranges 1,2,3,5,9) under every push/no-push pattern over T "
            "cycles, plus copy-then-push and move-then-push variants; after each push the value is the previous value minus an evicted PREFIX plus "
            "the pushed element at the back (order, times and values kept; strictly older than now-range gone, strictly younger kept), and "
            "delta_value is the pushed element.",
    "bounds": {"quick": "L<=2 x T=3 (collections), T=5 (TS), T=4 (TSL/TSB), T=6 (TSW); plus L<=3 x T=2; duration windows T=18", "thorough": "L<=2 x T=4 (collections), T=6 (TS), T=5 (TSL/TSB), T=8 (TSW); plus L<=3 x T=2; duration windows T=22"},
    "min_counters": {"quick": {"nontrivial": 100000, "states": 5000, "coll.cases_tsds": 10000, "window.histories_growing_past_4_or_8_after_an_eviction": 10000}},
    "assumptions": COMMON_ASSUMPTIONS + [
        "A key erased and added again in the same cycle is the same element (it keeps its contents): the cancelling pair leaves no trace, as the statement says.",
        "For TSW, valid() holds from the first push and the minimum count gates all_valid() — pinned by the repository's own Python suite "
        "(test_to_window_validity_and_absent_removed_value); the check reads 'valid only once its minimum count is reached' as all_valid.",
        "Capacity growth beyond 12 keys is not explored; for duration windows the behaviour of an element aged exactly now-range is left open (either is accepted).",
    ],
    "level_text": "Every execution of the bounded mutation-history space is a trace of the real containers validated tick by tick against a reference container.",
    "level_note": "Trusted: the reference containers in harness/c05_coll.cpp (model_cycle).",
}

CHECKS["C04"] = {
    "title": "modified / valid / last-modified-time tell the truth for producers and consumers",
    "level": "model_checking",
    "technique": "exhaustive enumeration of write histories on real outputs with producer and consumer views sampled in EVERY cycle; flags compared "
                 "with a reference write log and consumers compared with the producer",
    "design_ref": "DESIGN.md 2/C04",
    "parts": [{"name": "flags", "exe": "c05_coll", "sources": ["c05_coll.cpp"], "sub": "c04", "shards": {"quick": 16, "thorough": 256}},
              {"name": "forward", "exe": "c04_forward", "sources": ["c04_forward.cpp"], "shards": 16},
              {"name": "activity", "exe": "c04_activity", "sources": ["c04_activity.cpp"], "shards": {"quick": 16, "thorough": 64}},
              {"name": "latebind", "exe": "c04_latebind", "sources": ["c04_latebind.cpp"], "shards": {"quick": 16, "thorough": 64}}],
    "rule_keyed": "latebind part (endpoint level): a TS<int> output and four consumers that join at run time through the plain bind_output - two REF<TS<int>> "
                  "argument slots (one negotiated reference endpoint) and two TS<int> slots; every sequence of <= 10 (12) operations from {write, next cycle, bind k}; after "
                  "every operation each bound consumer equals the producer endpoint it is bound to on valid / modified / last-modified-time / value and the TS endpoint "
                  "equals the write log.",
    "rule": _COLL_RULE + "Oracle (C04), evaluated in every cycle (written or not): modified is true iff the reference performed an effective write in "
            "that cycle (false when nothing was written); valid from the first write until an explicit invalidation; last_modified_time equals the "
            "latest cycle in which modified was true; both passive consumers equal the producer on value, modified, valid, all_valid and "
            "last_modified_time; the active consumer is evaluated iff modified; a non-empty delta is readable only in the producing cycle; for "
            "TSL/TSB the parent is modified iff some child is, children agree between producer, consumer and a consumer bound to the child. "
            "states = distinct observed per-cycle (flags,value) traces; transitions = consumer ticks checked. "
            "forward part (endpoint level): outer = TSB{d: TSD, l: TSL<2>, x: TS}; two write-through (forwarding) outputs whose targets are the interior "
            "positions outer.d and outer.l; two inputs bound to outer and one bound to the forwarding output; every history of <= 2 operations per cycle "
            "from {set / erase a key through the forwarding output, set a list element through it, direct writes to d, l, x, nothing}; after every "
            "cycle modified / valid / last-modified-time of d, l, x, of their PARENT and of every consumer must equal the reference (a child written "
            "through the link marks the target's ancestors). Erasing an absent key leaves the dictionary's and the parent's time open until their next write. "
            "activity part (graph level): a NON-PEERED list / bundle input assembled on the consumer side ({a, b}, to_tsl, to_tsb) from two independent "
            "producers; the consumer runs a script of subscription operations (make_active / make_passive of element 0, element 1 or the whole input, "
            "at most K per script) and, woken every cycle by a step input, compares each element with what its producer wrote and the parent's "
            "modified / valid / last-modified-time with what its elements report; every tick pattern of both producers over T cycles x every script.",
    "bounds": {"quick": "as C05 quick", "thorough": "as C05 thorough"},
    "min_counters": {"quick": {"nontrivial": 100000, "states": 5000, "flags.cases_ts": 10000}},
    "assumptions": COMMON_ASSUMPTIONS + [
        "Cycles whose only operations are ineffective (removing an absent key) are a don't-care for modified/valid: whether opening a mutation scope is a write is not stated.",
        "In the cycle of an explicit invalidation only validity and value are compared between producer and consumer (the consumer is notified of the invalidation).",
        "REF-shaped endpoints are C13's subject.",
    ],
    "level_text": "Every execution of the bounded write-history space is validated cycle by cycle (including idle cycles) against the reference write log, and every consumer view against the producer view.",
    "level_note": "Trusted: the reference model in harness/c05_coll.cpp; TSOutputView/TSInputView accessors as the observation points.",
}

CHECKS["C20"] = {
    "title": "Recording a time-series and replaying it reproduces the same ticks",
    "level": "model_checking",
    "technique": "exhaustive enumeration of mutation histories per shape; the real record node's buffer is replayed by the real replay node into a "
                 "second graph and re-recorded; buffers and tick streams of the two runs are compared cycle by cycle",
    "design_ref": "DESIGN.md 2/C20",
    "parts": [{"name": "roundtrip", "exe": "c20_replay", "sources": ["c20_replay.cpp"], "shards": {"quick": 16, "thorough": 256}}],
    "rule": "For every start cycle s the memory recording is also folded back into STATE (recorded_seed_resolver, what a recovering component does): the result equals the value the original held at s; shapes here include dictionaries of sets and of bundles whose keys leave and return. memory part of the harness (M<s>: cases): the public record(ts, key) under the default memory backend ((time, delta) entries under :memory:<recordable_id>.<key>) and replay(key, recordable_id) reading them back by absolute time in a run that starts at cycle s, for EVERY s in 0..T: the replayed stream is exactly the original ticks with cycle >= s (scalars: cycles, deltas, values; lists: cycles and deltas; sets / dictionaries started mid-recording: no tick where the original had none). shapes: TS<Int>, TS<Str>, SIGNAL, TSS<Int>, TSD<Int,TS<Int>>, TSD<Int,TSS<Int>>, TSD<Int,TSB{a,b}>, TSL<TS<Int>,2>, TSL<TSS<Int>,2>, TSL<TSB{a,b},2> and TSL<TSL<TS<Int>,2>,2> (elements completed one member at a time), "
            "TSB{a,b}, TSB{d:TSD<Int,TS<Int>>, x:TS<Int>}, TSW<Int,3,2>; histories: every sequence over T cycles of lists of <= L mutations from the "
            "shape's alphabet (gaps, removals, child-only ticks, same-cycle cancellations, bulk growth). Graph 1: scripted writer -> record + probe. "
            "Graph 2: replay(buffer of graph 1) -> record + probe. Oracle: both recordings hold the same delta in the same cycle (canonical text "
            "of the captured Values, empty sub-deltas pruned) and both probes log the same (cycle, delta, value) stream. Because replay applies "
            "each delta to an output that received all earlier deltas and record captures again, this is also the equivalent form of the statement. "
            "states = distinct original tick traces; transitions = ticks compared; non-trivial = histories with several mutations in one cycle.",
    "bounds": {"quick": "L<=2 x T=3 (collections), L=1 x T=6..7 (scalar/signal/window), L<=3 x T=2", "thorough": "L<=2 x T=4 (collections), T=7..8 (scalar shapes), L<=3 x T=2"},
    "min_counters": {"quick": {"nontrivial": 100000, "states": 5000, "roundtrip.cases_tsdb": 10000}},
    "assumptions": COMMON_ASSUMPTIONS + ["A tick whose net delta is empty is treated as no tick on both sides unless it changes the value (first validating empty tick).",
                                           "Table/frame recorders and duration windows are not explored."],
    "level_text": "Every execution is a pair of traces of the real record and replay nodes validated against each other cycle by cycle.",
    "level_note": "Trusted: Value::to_string as a faithful rendering of a captured delta; the scripted writer as the source of truth for what was written.",
}

CHECKS["C10"] = {
    "title": "map_ runs one isolated instance per key and mirrors the key set",
    "level": "model_checking",
    "technique": "exhaustive enumeration of key histories x mapped-function vocabulary on the real map_ node; differential oracle: every key life "
                 "is re-run ALONE on the real engine and the map output must equal the per-key alone runs",
    "design_ref": "DESIGN.md 2/C10",
    "parts": [{"name": "map", "exe": "c10_map", "sources": ["c10_map.cpp"], "shards": {"quick": 16, "thorough": 256}}],
    "rule": "input: scripted TSD<Int,TS<Int>> writer, every sequence over T cycles of lists of <= L operations from {set k=v for 2-3 keys, erase k, "
            "clear, bulk add of 9 keys (slot-store growth)}; functions: stateless node, stateful counter, key-consuming (key*100+ts), late-valid "
            "(output only from its 2nd tick), 2-node chain, self-scheduling debounce (each input re-arms one tagged deadline 2-4 steps ahead), "
            "broadcast second argument (every valid history of a second source). Oracle: the input's net per-cycle history defines key lives "
            "(appearance..observed removal); each life's element stream is fed to the same function wired ALONE (real engine, window cut at the "
            "removal); the map output's value / modified items / added keys / removed keys in every cycle must equal the union of the alone runs "
            "shifted to their appearance cycles (=> key set follows valid child outputs, isolation, fresh state on re-appearance, pending timers "
            "of removed keys never fire, timers of live keys all fire); child graph starts == stops == number of key lives. states = distinct "
            "output traces; transitions = output ticks compared; non-trivial = >= 2 key lives with a timer firing or >= 3 lives. "
            "Two multiplexed dictionaries with differing key sets (functions pair / stateful pair / self-scheduling delayed echo): every pair of per-dictionary histories; a child "
            "lives for every key of the UNION, each of its two inputs is the key's element of one dictionary and is absent while the key is not in that "
            "dictionary; per key life the map's ticks must equal the function run alone on the two element streams (an element leaving one dictionary "
            "makes that input invalid from the leaving cycle or from the next one - both accepted), the key is in the output from its first tick until "
            "it left both dictionaries, one child start/stop per union-key life.",
    "bounds": {"quick": "L<=2 x T=3 (7-op alphabet), timer: L=1 x T=5 and L<=2 x T=3, broadcast: L=1 x T=4 x 54 broadcast histories; two dictionaries: 216 x 216 history pairs (T=3)",
               "thorough": "L<=2 x T=4, timer: L=1 x T=6 and L<=2 x T=4, broadcast: L=1 x T=5"},
    "min_counters": {"quick": {"nontrivial": 50000, "states": 3000, "map.cases_timer": 10000, "map.cases_two": 40000, "map.cases_twocount": 40000, "map.cases_twotimer": 40000}},
    "assumptions": COMMON_ASSUMPTIONS + ["A key erased and re-added within one cycle is not an observed removal (the input delta shows no removal): its child continues.",
                                           "Nested maps, key-set source re-pointing, tsl_map and mesh are not explored."],
    "level_text": "Every execution of the bounded key-history x function space is validated against executions of the same function alone on the real engine.",
    "level_note": "Trusted: the life segmentation of the input history in harness/c10_map.cpp; the alone run as the meaning of 'the function run alone'.",
}

CHECKS["C11"] = {
    "title": "reduce equals the fold over exactly the currently valid elements",
    "level": "model_checking",
    "technique": "exhaustive enumeration of add/remove/update/growth histories on the real reduce_ node, result sampled in every cycle and compared "
                 "with the fold of a reference container (bit-disjoint operands identify exactly which elements were folded)",
    "design_ref": "DESIGN.md 2/C11",
    "parts": [{"name": "reduce", "exe": "c11_reduce", "sources": ["c11_reduce.cpp"], "shards": {"quick": 32, "thorough": 256}},
              {"name": "keyed", "exe": "c11_keyed", "sources": ["c11_keyed.cpp"], "shards": {"quick": 16, "thorough": 64}}],
    "rule_keyed": "keyed part: reduce over TSD<Int, TSS<Int>> (collection-valued elements and result: the keyed publication path of reduce_node.cpp) with a "
                  "set-union combiner node, no zero / a zero written once / a live zero replaced in every cycle; ops add or remove an element of key k's set, erase key k; "
                  "all op lists of length <=1 over T=4 (5), <=2 over T=2 (3), and 4 ops over T=6 (7) cycles; the probe samples the result in every cycle. "
                  "dynamic lists: grow-only TSL<TS<Int>> (writing index i grows the list, skipped slots stay unset) with the same combiners and zeros.",
    "rule": "inputs: scripted TSD<Int,TS<Int>> (set key to one of two bit-disjoint powers of two, erase, clear, bulk add of 6 keys crossing leaf "
            "capacities 1->2->4->8->16; thorough: 70 more keys => > 64 live elements) and fixed TSL<TS<Int>,4> (unset slots are not live); "
            "combiners: add_ operator, a static node, a sub-graph; zero = 2^20 or none; every sequence over T cycles of lists of <= L operations "
            "(so every permutation of the same event multiset across cycles is included). Oracle, evaluated on a passive probe in EVERY cycle: "
            "result invalid iff no live element and no zero; == zero if empty with zero; == value + zero for one live element with zero; otherwise "
            "== sum of exactly the live elements with the zero bit clear. states = distinct result traces; transitions = result ticks; "
            "non-trivial = >= 3 live elements and a cycle containing both a structural change and a value update. "
            "Pending keys: keys created without a value (live but not valid) are not elements of the fold, whenever they appear. Live zero: the same with a zero that is a time-series ticking with a new value in every cycle; the empty result is the current zero and a "
            "singleton is combine(value, current zero), also after the tree was wider and shrank back.",
    "bounds": {"quick": "add_: L<=2 x T=3 over 8 ops (+zero/-zero), L<=3 x T=2; node/sub-graph: L=1 x T=4 over 11 ops; TSL: L<=2 x T=3",
               "thorough": "add_: L<=2 x T=3 over 11 ops, L=1 x T=5; node/sub-graph: L<=2 x T=3 and L=1 x T=5; > 64 live elements: L=1 x T=4"},
    "min_counters": {"quick": {"nontrivial": 50000, "states": 3000, "reduce.cases_dgz": 5000}},
    "assumptions": COMMON_ASSUMPTIONS + ["Non-associative (ordered) reduce, dynamic TSL and TSS inputs are not explored.", "Addition stands for 'an associative combiner'."],
    "level_text": "Every execution of the bounded event-history space is validated cycle by cycle against the fold over a reference container.",
    "level_note": "Trusted: the reference fold in harness/c11_reduce.cpp.",
}

CHECKS["C12"] = {
    "title": "switch_ output follows only the selected branch, which starts fresh",
    "level": "model_checking",
    "technique": "exhaustive enumeration of key/input histories x branch tables x default/reload options on the real switch_ node; differential "
                 "oracle: every branch life is re-run ALONE on the real engine and the switch output sampled every cycle must equal it",
    "design_ref": "DESIGN.md 2/C12",
    "parts": [{"name": "switch", "exe": "c12_switch", "sources": ["c12_switch.cpp"], "shards": {"quick": 16, "thorough": 256}}],
    "rule": "table o: both keys select a terminal that keeps its running total in its OWN OUTPUT (reads it back before writing) - a fresh instance starts from nothing (known finding: the shared scalar switch output is not reset, the new branch continues from the previous branch's value; only that exact form is listed). per cycle: key tick in {-,1,2,8,9} (8 and 9 match no case) x input tick or not, all 5^T x 2^T histories; tables: {1: stateful counter, "
            "2: doubler, default: counter after doubler}, {1: self-scheduling debounce (+2), 2: counter}, {1: key-consuming, 2: counter}, TSS-output "
            "table {1: accumulate into the set, 2: single-element set}; each with/without default branch and with/without reload(). Oracle: lives "
            "start on a key CHANGE (any key tick under reload; two different unmatched keys are two lives of the default branch); a life's branch "
            "is wired alone and fed 'held input sampled at the switch cycle, then the input ticks' until the next switch; in every cycle the "
            "switch output (valid, value, ticked) equals the current life's alone run (nothing of an earlier branch is visible, pending timers of a "
            "stopped branch never fire, same key without reload keeps the instance, returning to a key gives fresh state); an unmatched key without "
            "default makes run() throw. states = distinct output traces; transitions = output ticks; non-trivial = >= 3 branch lives. "
            "Collection input: switch_ over a TSS<Int> input with a branch that folds added()/removed() into a running total and a branch that reads "
            "the size, every key history over {none,1,2}^4 x every set history over {none,+1,+2,-1,+1+2,+3}^4, with and without reload_on_ticked; the "
            "output must equal the selected branches run alone, each handed the WHOLE current set as its first delta when it is selected (also when the "
            "flip coincides with a partial tick of the set). "
            "Two-input branches: a branch whose first input is not required to be valid and one whose first input is passive, second input required; "
            "every key x first-input x second-input history (T=4): a newly selected branch is evaluated at once when its second input holds a value, "
            "whatever the state of the first; the same two inputs packed into one structural argument (to_tsl) for a branch that reads the list and a branch that returns one of its leaves directly.",
    "bounds": {"quick": "T=5 (3125 key histories x 32 input histories x 14 configurations)", "thorough": "T=6"},
    "min_counters": {"quick": {"nontrivial": 100000, "states": 3000, "switch.cases_sdr": 50000}},
    "assumptions": COMMON_ASSUMPTIONS + ["A collection output reset to the EMPTY collection at a switch counts as 'no output of the new branch yet'.",
                                           "Source-style branches, several time-series arguments and REF-shaped outputs (C13) are not explored."],
    "level_text": "Every execution of the bounded history space is validated cycle by cycle against executions of the selected branch alone on the real engine.",
    "level_note": "Trusted: the life segmentation rule in harness/c12_switch.cpp.",
}

CHECKS["C13"] = {
    "title": "Reading through a reference equals reading its current target",
    "level": "exploration",
    "technique": "exhaustive bounded enumeration of selector x target-operation histories over reference-producing programs on the real engine; "
                 "oracle = reference selection model + a checker-side copy maintained from the deltas the consumer sees",
    "design_ref": "DESIGN.md 2/C13",
    "parts": [{"name": "ref", "exe": "c13_ref", "sources": ["c13_ref.cpp"], "shards": {"quick": 16, "thorough": 256}},
              {"name": "composite", "exe": "c13_composite", "sources": ["c13_composite.cpp"], "shards": {"quick": 16, "thorough": 64}},
              {"name": "getitem", "exe": "c13_getitem", "sources": ["c13_getitem.cpp"], "shards": {"quick": 16, "thorough": 64}}],
    "rule_keyed": "lookup part: probe(getitem_(if_then_else(c, A, B), 1)) - an element lookup hanging off the reference as a structural observer; A and B hold key 1 "
                  "from cycle 0 and agree or differ in holding key 2; every history of selector {-,T,F} x op on A {-, write [1], write [2], erase [2]} x op on B over "
                  "T=3 (4) cycles after 6 initial configurations: evaluated exactly when the selected dictionary's entry is written or the selection changes, reads "
                  "the selected entry; non-trivial = a retarget between dictionaries holding the same keys.",
    "rule": "composite part: if_then_else(sel, CA, CB) over COMPOSITES assembled on the consumer side (to_tsb / to_tsl of independent producers: non-peered references) that share no producer, their first leg, or their last leg; every history of {selector -, T, F} x ticks of the three producers over T cycles: the consumer is evaluated exactly when a leg of the selected composite ticks or the selection moves to the other composite, and reads the selected legs. programs: if_then_else(cond,A,B) with one consumer / two consumers / passed through nested_<pass-through> / switch_ with pass-through "
            "branches; target shapes TS<Int>, TSS<Int>, TSD<Int,TS<Int>>; per cycle selector tick in {-,T,F} x one operation of a 3-4 symbol alphabet "
            "on A x one on B (ticks, removals, no-ops), every history over T cycles. Oracle: consumer evaluated iff the current target ticks or the "
            "reference is re-pointed to a valid different target; never on re-publication of the same reference or on ticks of the unselected target; "
            "value read == the selected target's value; for TS the delta equals the value; for TSS/TSD the canonical delta (capture_delta) applied to the "
            "checker's copy of what the consumer held must give the value read, nothing is reported removed that was not held and nothing added that "
            "was held. While the reference designates a target that holds no value everything is a don't-care and the next evaluation re-bases the "
            "copy. non-trivial = >= 2 retargets or a retarget coinciding with a tick. "
            "Gate program: a consumer that requires the reference-read TS input to be valid and has a second, directly wired active input; every "
            "selector x target x second-input history (T=4): while the designated target holds no value the consumer does not run on the other input's "
            "tick (or still reads the previous valid target's value), and whenever it runs it reads a value some target really holds.",
    "bounds": {"quick": "T=4 (TS), T=3 with 4-symbol alphabets and T=4 with 3-symbol alphabets (TSS/TSD)", "thorough": "T=5 / T=4 / T=5"},
    "min_counters": {"quick": {"nontrivial": 500000, "ref.cases_nd": 20000}},
    "assumptions": COMMON_ASSUMPTIONS + ["Retarget to a target that holds no value and scalar unbind are don't-cares (the statement covers valid targets).",
                                           "The typed accessors (added()/removed_items()) are not the oracle's delta; the canonical delta is."],
    "level_text": "Complete enumeration of the bounded history space per program and shape against a selection model and a delta-maintained copy.",
    "level_note": "Trusted: the selection/unknown-mode model in harness/c13_ref.cpp. Four defect classes found on the unchanged tree are recorded in known_findings.jsonl.",
}

CHECKS["C14"] = {
    "title": "Every started node is stopped exactly once, in reverse order, whatever fails",
    "level": "fault_enumeration",
    "technique": "exhaustive fault injection: every single (node, phase, occurrence) fault and every ordered pair, x cleanup_on_error on/off, on "
                 "thirteen program shapes (flat, nested, map_/mesh_/switch_/reduce/ordered reduce/try_except_ children); a ledger of hook calls per node instance and of lifecycle-observer events decides the discipline",
    "design_ref": "DESIGN.md 2/C14",
    "parts": [{"name": "faults", "exe": "c14_lifecycle", "sources": ["c14_lifecycle.cpp"], "shards": {"quick": 16, "thorough": 256}}],
    "rule": "programs: flat chain of 4; nested_ with two inner nodes; map_ over a dictionary with key churn (add 2, add 1, erase 1, update) feeding a "
            "reduce; switch_ with a branch change; reduce with an instrumented combiner node; try_except_ around a value sub-graph and around a SINK sub-graph "
            "(evaluate faults inside the try_except_ child are captured, C15's subject, and are not injected); mesh_ (no cross-instance access) over the churning "
            "dictionary; map_ over a fixed two-element list and over a grow-only dynamic list; ordered (non-associative) reduce over a contiguous "
            "TSD[int, TS] (a new combiner generation per structural change); switch_ whose first branch holds a map_ + reduce and is selected twice "
            "(dynamic children inside a dynamic child); nested_ inside nested_. Faults: phase in {start, evaluate, stop} x occurrence "
            "1..3 (1..5 thorough) of every instrumented node id, all singles and all ordered pairs (evaluate then stop, start then stop-in-rollback, two "
            "stops, ...), cleanup_on_error in {on, off}. Oracle from the ledger: per graph starts in increasing and stops in decreasing index order; "
            "every instance whose start completed has exactly one stop hook call, before run() returns (cleanup on, or no error) or before the "
            "executor is released (cleanup off); no evaluate before start completed or after stop; an instance whose start failed is not stopped; a "
            "throwing stop does not prevent the others; run() throws iff a fault fired, carrying the FIRST fault's message and a node[...] identity. "
            "non-trivial = at least one fault fired.",
    "bounds": {"quick": "occurrences 1..3 (stop occurrences 1..8 for the reduce programs, so the shutdown stops behind the mid-run generations are reached), singles + ordered pairs, 13 programs x 2 cleanup settings", "thorough": "occurrences 1..5"},
    "min_counters": {"quick": {"nontrivial": 5000, "faults.cases_m": 500, "faults.cases_M": 500, "faults.cases_d": 500, "faults.cases_o": 100, "faults.cases_w": 500}},
    "assumptions": COMMON_ASSUMPTIONS + ["request_stop from another thread is C17's subject.", "Instances are identified by node storage address within one executor; storage reuse after a stop is treated as a new instance."],
    "level_text": "Complete enumeration of single and double faults over the instrumented node set of each program.",
    "level_note": "Trusted: the ledger analysis in harness/c14_lifecycle.cpp; the instrumented hooks as the definition of 'started' / 'stopped'.",
}

CHECKS["C15"] = {
    "title": "Captured errors tick once, where they happen, and do not disturb the rest",
    "level": "fault_enumeration",
    "technique": "exhaustive enumeration of throw sets x input histories over error-capturing programs; differential oracle against the fault-free "
                 "run of the same program and inputs",
    "design_ref": "DESIGN.md 2/C15",
    "parts": [{"name": "capture", "exe": "c15_errors", "sources": ["c15_errors.cpp"], "shards": {"quick": 16, "thorough": 256}}],
    "rule": "programs: a throwing node under exception_time_series capture; the same with a self-scheduling (timer) node; try_except_ around a "
            "one-node child, a two-node child (failing node at index 1) and a three-node child; map_ with keyed capture over a 3-key dictionary with "
            "a two-node child. Every non-empty input tick pattern over 5 cycles x every subset of cycles in which the node throws (map: every "
            "per-key subset). Oracle vs the fault-free run: run() does not throw; exactly one error tick per throwing evaluation, in that cycle, "
            "with the exception's message; the failing node's ordinary output in non-throwing cycles equals the fault-free output (scheduled "
            "evaluations continue); the independent sibling stream is identical; map: errors under the failing key only, other keys identical. "
            "Program x: try_except_ around a NON-capturing map_ (3 dictionary scripts x throw masks, one thrower per cycle): the failure surfaces once on "
            "the try_except_ error output in the throwing cycle, and in every other cycle each key's child ticks exactly as in the fault-free run "
            "(found and fixed 29d0ffc: a sibling key due in the failing cycle lost its next tick). "
            "Programs y / z: try_except_ around a sub-graph with two INDEPENDENT parts, a self-scheduling node (re-emits y two steps later) and a failing "
            "sink on x, the timer node ranked before (y) or after (z) the sink; every tick pattern of x and y x every subset of x's ticks throwing (z: only "
            "cycles in which the timer node is not itself due): outside the throwing cycles the timer node's stream is the fault-free one "
            "(found and fixed 46a0926: with the timer node ranked behind the failing one its pending wake-up was dropped). "
            "non-trivial = at least one throwing evaluation.",
    "bounds": {"quick": "T=5; try_except programs with inputs ticking in cycle 0; map: key 1 all 32 subsets, keys 2-3 8 subsets", "thorough": "all input patterns; map: 32^3 subsets"},
    "min_counters": {"quick": {"nontrivial": 4000, "capture.cases_m": 1000, "capture.cases_2": 200}},
    "assumptions": COMMON_ASSUMPTIONS + ["The failing node's ordinary output in the error cycle is a don't-care."],
    "level_text": "Complete enumeration of throw sets over 5 cycles for each program, decided differentially against the fault-free run.",
    "level_note": "Trusted: the fault-free run of the same program as the reference.",
}

CHECKS["C19"] = {
    "title": "Operator resolution picks the unique most specific match, consistently",
    "level": "exploration",
    "technique": "exhaustive enumeration of overload families x every registration order x every argument tuple against the real OperatorRegistry, "
                 "with an independent reference unifier; differential across registration orders",
    "design_ref": "DESIGN.md 2/C19",
    "parts": [{"name": "resolve", "exe": "c19_resolve", "sources": ["c19_resolve.cpp"], "shards": 16}],
    "rule": "Depth pool: candidates in which one variable occurs at two nesting depths ((V, TSL<V,N>), (TS<T>, TSL<TS<T>,N>)) next to flat competitors ((SIGNAL, L), (TS<Int>, L), (S, R), (TS<T>, TSL<TS<U>,N>)); every family of <= 3 x 36 argument pairs is resolved twice, as written and with the two parameters of every candidate (and the arguments) exchanged: both must select the corresponding candidate or fail alike (specificity does not depend on the order in which parameters are listed). Variadic pool: 10 candidates whose last parameter is a tail pattern ((TS<T>, *TS<T>), (TS<T>, *TS<U>), (S, *S), (S, *R), (TSL<T,N>, *TSL<T,N>), (TSL<T,N>, *TSL<U,M>), (TS<Int>, *TS<Int>), (*TS<T>)) next to fixed two-parameter ones, every argument tuple of length 1..3 over 6 types: each tail argument must agree with the bindings of the fixed parameters, does not bind its siblings, and ranks once per consumed argument. Bundle-inheritance pool: scalar bundles Animal <- Dog <- Puppy, Animal <- Cat; 9 candidates ((TS<T>,TS<T>), (TS<T>,TS<U>), (S,S), (S,R), (TSL<T,N>,TS<T>), (TSS<T>,TS<T>), (TS<T>,TSS<T>), (TS<Animal>,TS<U>), (TS<Dog>,TS<U>)) x 81 argument pairs: a derived bundle is accepted for a variable already bound to its base and for a concrete base parameter (ranked by inheritance distance), never the reverse, never below TSS. candidates are built at run time as erased OperatorImpl records from a mini-AST: 14 one-parameter patterns (TS<Int>, TS<Float>, TS<T>, "
            "TS<U>, two whole-time-series variables, TSL<TS<Int>,2>, TSL<TS<T>,N>, TSL<S,N>, TSS<T>, TSD<K,V>, TSD<Int,V>, SIGNAL) and 9 two-parameter "
            "ones ((Int,Int), (T,T), (T,U), (S,S), (S,R), (Int,T), (TSL<T,N>,TSL<T,N>), (TSL<T,N>,TSL<T,M>), (Int,Float)), each with an output pattern; "
            "arguments from 15 concrete types (TS<Int|Float|Str>, TSL of sizes 2/3/dynamic, TSS, two TSDs, SIGNAL, three bundle types of one shape - two named, one structural - and a list of one of them). Families with a size-variable candidate are also resolved with a caller-pinned SIZE hint (2, 3), which binds the candidate's first size variable before matching; one candidate spells its size variable differently from the others. Every family of 1..K candidates "
            "x EVERY registration order x every argument tuple (registry reset between). Oracle: identical outcome for all orders; no candidate "
            "matches (reference unifier) <=> resolution error; winner matches; every variable of the winner bound to the one type the arguments "
            "require; resolved output type == substitution of the bindings; winner has the strictly lowest rank among matching candidates and a "
            "tie at the best rank is an ambiguity error; the winner is never strictly behind another matching candidate in the documented order "
            "(concrete < scalar variable < time-series variable, recursively). non-trivial = family of >= 2 candidates of which at least one matches.",
    "bounds": {"quick": "K=4", "thorough": "K=5"},
    "min_counters": {"quick": {"nontrivial": 20000, "resolve.families_arity2": 10000}},
    "assumptions": COMMON_ASSUMPTIONS + ["Scalar parameters, defaults, requires_ predicates, bundle inheritance and REF patterns are not explored."],
    "level_text": "Complete enumeration of the bounded family x order x argument space against a reference unifier.",
    "level_note": "Trusted: the reference unifier and documented-order predicate in harness/c19_resolve.cpp; operator_rank() is used only for the tie / uniqueness clause.",
}

CHECKS["C16"] = {
    "title": "Push queue: accepted values are delivered once, in order, within capacity",
    "level": "model_checking",
    "technique": "stateless model checking of the real real-time executor + push source under a controlled thread scheduler and virtual clock "
                 "(pthread mutex/condvar/clock symbols interposed, no source hooks): every interleaving at synchronisation operations up to a "
                 "preemption bound (iterative context bounding with prefix replay), every complete execution checked against the send/deliver history",
    "design_ref": "DESIGN.md 2/C16",
    "parts": [{"name": "sched", "exe": "c16_push", "sources": ["c16_push.cpp"], "shards": 32, "pin": True}],
    "rule": "threads: E = GraphExecutor::run() of a real-time graph (push source -> recording sink), producers P1/P2 running scripts of try_send / "
            "send_blocking, optional stopper calling request_stop(). Exactly one thread runs at a time; every pthread_mutex_lock/trylock, "
            "cond wait/signal/broadcast of the runtime and of libstdc++ is a scheduling point; a timed wait expires only by an explicit scheduler "
            "choice that advances the virtual clock; a spurious wake-up of any condition waiter is a further deviation (cost 1). Configurations: policy {queue, burst, conflating} x capacity {1, 2, unbounded} x 9 producer "
            "scripts (1-2 producers, 1-4 sends) x {stopper, none}; plus a conflating TSD<Int,TS<Int>> source with 6 scripts mixing key writes and "
            "no-op removals of absent keys (every accepted key write must appear in the merged state); and 5 scripts over a graph with TWO queue push sources (a backlog on one must survive the other's turn in the push phase). Each complete execution is checked: no value twice; nothing delivered that was "
            "refused or never sent; one value per cycle (burst: one tuple) at strictly increasing times; delivery order respects per-producer order "
            "and returned-before-called order, and is a prefix of it; pending_items <= capacity at every cycle boundary and after every send; a "
            "try_send refusal only if the queue can have been full or stop had begun; send_blocking fails only after stop began; nothing accepted "
            "after the graph stopped; no deadlock / livelock; the loop never sleeps to a forced slice expiry with an accepted value pending (lost "
            "wake-up); without stop or end-time expiry every accepted value is delivered (conflating: the latest). A failing schedule is replayed "
            "from its recorded choice list and must fail identically. non-trivial = a schedule whose observable history differs from the default one.",
    "bounds": {"quick": "deviation bound 2 for scripts with <= 2 sends (or 3 sends without stopper), else 1; a deviation = preemption of a runnable thread (also at the hooked stop-flag accesses), a timer firing while a thread could run, or a spurious wake-up",
               "thorough": "deviation bound 3 for the small scripts, 2 for the others"},
    "min_counters": {"quick": {"nontrivial": 200, "sched.executions": 20000}},
    "assumptions": COMMON_ASSUMPTIONS + [
        "Sequentially consistent interleavings at synchronisation operations only: data races between unsynchronised accesses and weak-memory "
        "effects of the two atomics (stop_requested) are outside the explored space.",
        "Worker threads persist across executions (per-thread type caches are warm); a cold producer thread's first registry lookups are not interleaved.",
    ],
    "level_text": "Every schedule of the bounded thread programs with at most the stated number of preemptions is executed on the real code and "
                  "checked; that is the CHESS-style coverage statement, not a sample.",
    "level_note": "Trusted: harness/vsched.h (scheduler, virtual clock) and the history oracle in harness/c16_push.cpp. Determinism is re-checked on "
                  "every run (the enumeration is executed twice for a failing case; replay divergence is a harness error).",
}

CHECKS["C17"] = {
    "title": "Real-time loop never runs early, never drops a wake-up, always stops",
    "level": "model_checking",
    "technique": "stateless model checking of the real real-time executor under a controlled thread scheduler and a virtual wall clock "
                 "(pthread/clock symbols interposed): every order of timer expiries, pushes and stop requests relative to the loop's wait/evaluate "
                 "phases up to a preemption bound; each execution's evaluation log is checked against the expectations recorded at every schedule() call",
    "design_ref": "DESIGN.md 2/C17",
    "parts": [{"name": "sched", "exe": "c17_realtime", "sources": ["c17_realtime.cpp"], "shards": 32, "pin": True}],
    "rule": "graph: a scripted timer node (start script + per-evaluation scripts of r<d> relative, a<d> absolute, w<d> absolute and v<d> relative wall-clock alarm incl. already-due "
            "d<=0, L<d> burn d us of wall time, S request_stop from inside the node) feeding a sink, optionally a queue push source feeding a second sink. Threads: E = run(), optional "
            "producer (1-2 try_send), optional stopper (request_stop; gated either on the end of the graph's start or on its beginning, so that a stop can land DURING start). The wall clock is virtual: it advances only when the scheduler expires a timed "
            "wait (jump to its deadline), when a node burns time, and by 1 us at the end of the start and of every cycle (nodes can observe a wall clock exactly equal to their evaluation time). Configurations: 13 start scripts x 13 evaluation "
            "scripts x pushes {0,1,2} x stopper x wall clock at start {on time, 250 us late} x end_time {1 s, 250 us}. Per execution: evaluation "
            "times strictly increase and stay below end_time; no cycle and no timer evaluation runs before the wall clock reached its logical time; "
            "the timer node is evaluated only at expected times; every expected time before end_time is evaluated at exactly that time (also when "
            "the wall clock is already past it or past end_time) unless a stop request ended the run first; pushed values are delivered once, in "
            "order, and the loop never sleeps to a forced slice expiry with one pending; without stop and before the clock reaches end_time run() "
            "does not return and every accepted push is delivered; at most one cycle begins after request_stop() returned (none when the node itself requested it); no deadlock / livelock. "
            "non-trivial = a schedule whose observable log differs from the default schedule's.",
    "bounds": {"quick": "preemption bound 3 (timer only), 2 (one extra thread), 1 (two extra threads)", "thorough": "bound 4 / 4 / 3 / 2 (for 0 / 1 / 2 / 3 extra thread-operations), all configuration combinations"},
    "min_counters": {"quick": {"nontrivial": 200, "sched.executions": 20000}},
    "assumptions": COMMON_ASSUMPTIONS + [
        "Environment model: starting the graph and every evaluation cycle take at least MIN_TD (1 us) of wall time; without this a burst of pushes "
        "inside one virtual microsecond legitimately moves evaluation time ahead of a clock that never moves (evaluation_time >= previous + MIN_TD).",
        "The 1024-cycle MIN_TD drain cut-off past end_time (the property's stated exemption) is not exercised.",
        "Sequentially consistent interleavings at synchronisation operations only.",
    ],
    "level_text": "Every schedule of the bounded thread programs with at most the stated number of preemptions / early timer firings is executed on "
                  "the real executor and checked.",
    "level_note": "Trusted: harness/vsched.h and the expectation rule in harness/c17_realtime.cpp (for already-due wall-clock alarms it mirrors the "
                  "documented max(now + MIN_TD, wall) rule of node_scheduler.h).",
}

CHECKS["C07"] = {
    "title": "Simulation runs are reproducible and isolated from each other",
    "level": "model_checking",
    "technique": "exhaustive enumeration of process histories (operation sequences over builds, runs, builder reuse, co-existing executors) with a "
                 "fresh-process differential oracle; plus stateless model checking under a controlled scheduler: every position of wall-clock jumps, "
                 "and every interleaving of two threads that wire, build and run independent graphs, up to a deviation bound",
    "design_ref": "DESIGN.md 2/C07",
    "parts": [
        {"name": "hist", "exe": "c07_repro", "sources": ["c07_repro.cpp"], "sub": "hist", "shards": {"quick": 32, "thorough": 256}},
        {"name": "clock", "exe": "c07_repro", "sources": ["c07_repro.cpp"], "sub": "clock", "shards": 8, "pin": True},
        {"name": "threads", "exe": "c07_repro", "sources": ["c07_repro.cpp"], "sub": "threads", "shards": 32, "pin": True},
        {"name": "sess", "exe": "c07_repro", "sources": ["c07_repro.cpp"], "sub": "sess", "shards": 8},
        {"name": "notify", "exe": "c07_notify", "sources": ["c07_notify.cpp"], "shards": 4},
    ],
    "rule_keyed": "notify part: graphs that register before/after-evaluation notifications (G, H), a graph whose notification callback throws (F) and one whose node "
                  "throws after registering a callback (E), x 2 inputs; every history of <= 4 (5) runs in one process and thread: each run's outputs, executed callbacks and "
                  "error text equal the same graph run alone at start-up - a failing run leaves nothing behind.",
    "rule": "clock part also runs a long immediate chain (1100 / 1500 consecutive smallest-step cycles, explicit end time, virtual wall clock far past it, one clock jump at every position) with an absolute oracle: the run reaches the end of its schedule. sess part: one GlobalContext session (caller-owned GlobalState, copy-back after each run, as the testing harness does) in which every sequence of <= L runs over {PlusSeven, TimesTen} x {cycle-aligned, (time, delta)} harness recorder x 2 inputs is executed under one recording key; each run must record exactly what the same graph records alone in a fresh session. 11 self-contained programs x 2 inputs (two programs that differ only in a parameter of an interned type - a duration window with the same range and different warm-up; node State accumulator + dense record; a node counting in GlobalState; map_ with stateful "
            "children; switch_; reduce_; feedback loop; nested graph with a clock-reading node; replay -> record; the GlobalState program wired and "
            "run under a GlobalContext with a seeded caller-owned state). Scripts are scalars and observations are appended to the run's own global "
            "state, so the harness has no global through which runs could couple. The trace of a run = its log + counters + recorded/replayed "
            "buffers + (context program) the caller-owned state. Reference = the same program run alone in a FRESH process (self-exec). "
            "hist: every sequence of <= L operations over a 62-letter alphabet {R fresh build+run, B run on the builder cached in this history "
            "(reuse count grows), W wire+finish only, X two executors made from one builder and both alive, C context program}; every run must "
            "reproduce its reference byte for byte and a builder's seed state must be unchanged by runs. clock: each program under the controlled "
            "scheduler where the wall clock may jump 7 s ahead before any clock read. threads: each pair of programs wired, built and run on two "
            "controlled threads, every interleaving at mutex/condvar operations (type registries, plan factories, intern tables). "
            "non-trivial = history of length >= 2 / schedule differing from the default.",
    "bounds": {"quick": "histories: L<=3 over 62 letters; clock: <= 3 jumps; threads: 1 preemption for all 66 unordered pairs, 2 for three pairs (GlobalState/GlobalContext, map_/switch_, record/replay)",
               "thorough": "histories: L<=3 over 72 letters, L=4 over 32 letters; <= 5 jumps; 2 preemptions for all 121 ordered pairs"},
    "min_counters": {"quick": {"nontrivial": 100000, "threads.executions": 5000, "clock.executions": 500}},
    "assumptions": COMMON_ASSUMPTIONS + [
        "Unsynchronised data races are outside a scheduler that switches at synchronisation operations (no ThreadSanitizer build of the tree in this image's budget).",
        "Concurrent executors are explored as whole wire+build+run threads; evaluation itself takes no lock, so two runs' cycles are not interleaved below lock granularity.",
    ],
    "level_text": "Complete enumeration of bounded process histories against fresh-process references, and CHESS-style bounded-preemption coverage of two-thread build+run.",
    "level_note": "Trusted: the fresh-process run as the reference (a defect that also shows in a fresh process alone is invisible here and is the "
                  "subject of the other properties); harness/vsched.h for the controlled parts.",
}

NOT_APPLICABLE = {}
