#!/bin/bash
# seedpipe.sh <wave> <PID> [extra checks comma-separated]
W=$1; P=$2; X=${3:-$P}
echo "##### $P confirm"; /tmp/seedcheck.sh $P $W 2>&1 | tail -12
echo "##### $P checks: $X"; python3 /verif/tools/seed_test.py $X /tmp/out${W}_$P/patch.diff 2>&1 | cut -c1-300 | grep -v "^KNOWN-FINDING" | head -40
