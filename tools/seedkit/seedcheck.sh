#!/bin/bash
# seedcheck.sh <PID> <wave-prefix>   e.g. C01 5  — confirm a seeded change both ways in its scratch worktree
P=$1; W=$2; WT=/tmp/wt${W}_$P; OUT=/tmp/out${W}_$P; RES=/tmp/seedcheck_$P.res
cd $WT || exit 9
git checkout -q -- . ; git apply $OUT/patch.diff || { echo "patch does not apply"; exit 9; }
EXE=$(python3 /tmp/seedkit/demo_build.py $WT $OUT/demo.cpp 2>/tmp/seedcheck_$P.blog | tail -1)
[ -x "$EXE" ] || { echo "build (patched) failed"; tail -20 /tmp/seedcheck_$P.blog; exit 9; }
timeout 300 $EXE > /tmp/seedcheck_$P.patched 2>&1; RP=$?
git checkout -q -- .
EXE=$(python3 /tmp/seedkit/demo_build.py $WT $OUT/demo.cpp 2>/tmp/seedcheck_$P.blog | tail -1)
[ -x "$EXE" ] || { echo "build (clean) failed"; tail -20 /tmp/seedcheck_$P.blog; exit 9; }
timeout 300 $EXE > /tmp/seedcheck_$P.clean 2>&1; RC=$?
{ echo "patched rc=$RP (want !=0)  clean rc=$RC (want 0)"; tail -8 /tmp/seedcheck_$P.patched; echo ---; tail -3 /tmp/seedcheck_$P.clean; } > $RES
cat $RES
[ $RP -ne 0 ] && [ $RC -eq 0 ]
