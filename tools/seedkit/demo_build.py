#!/usr/bin/env python3
"""demo_build.py <worktree> <demo.cpp> [more.cpp ...]
Compiles the hgraph C++ runtime from <worktree>/src (incrementally; first call seeds the object cache from a
pre-built copy of the unmodified tree, so only the TUs your edit invalidates are recompiled) and links
<demo.cpp> against it.  Prints the path of the executable.  The demo may `#include "vpch.h"` (a precompiled
header pulling in <hgraph/hgraph.h>, the stdlib, and hgraph/lib/testing/eval_node.h)."""
import os, shutil, sys, hashlib
from pathlib import Path
wt = Path(sys.argv[1]).resolve(); srcs = [Path(s).resolve() for s in sys.argv[2:]]
os.environ["VERIF_REPO"] = str(wt); broot = wt / ".vbuild"; os.environ["VERIF_BUILD_ROOT"] = str(broot)
KIT = Path(__file__).resolve().parent
sys.path.insert(0, str(KIT / "vlib"))
dst = broot / "plain"
if not dst.exists():
    seed = Path("/verif/.build/plain"); dst.mkdir(parents=True)
    for sub in ("obj", "gen", "pch"):
        if (seed / sub).exists(): shutil.copytree(seed / sub, dst / sub)
    if (seed / "libhgraph_tree.a").exists(): shutil.copy2(seed / "libhgraph_tree.a", dst / "libhgraph_tree.a")
    for d in list(dst.rglob("*.d")):
        t = d.read_text().replace("/verif/.build", str(broot)).replace("/repo/", str(wt) + "/").replace("/verif/", str(KIT) + "/")
        d.write_text(t)
import vbuild
names = []
tag = hashlib.sha1(str(wt).encode()).hexdigest()[:8]
for s in srcs:
    n = f"demo_{tag}_{s.name}"; shutil.copy2(s, KIT / "harness" / n); names.append(n)
try:
    exe = vbuild.build_harness(f"demo_{srcs[0].stem}", names)
    print(exe)
except vbuild.BuildError as e:
    print("BUILD-ERROR\n" + str(e), file=sys.stderr); sys.exit(2)
finally:
    for n in names: (KIT / "harness" / n).unlink(missing_ok=True)
