#!/usr/bin/env python3
"""seed_test.py <prop[,prop..]> <patch.diff> [tier]  — run checks against a scratch worktree of /repo with the patch applied.
Leaves /repo, /verif/evidence and /verif/.build untouched (own build root seeded from /verif/.build)."""
import os, shutil, subprocess, sys, tempfile
from pathlib import Path
props = sys.argv[1].split(","); patch = Path(sys.argv[2]).resolve(); tier = sys.argv[3] if len(sys.argv) > 3 else "quick"
wt = Path(tempfile.mkdtemp(prefix="st_", dir="/tmp"))
wt.rmdir()
subprocess.run(["git", "-C", "/repo", "worktree", "add", "-q", "--detach", str(wt), "HEAD"], check=True)
rc_all = 0
try:
    r = subprocess.run(["git", "-C", str(wt), "apply", str(patch)])
    if r.returncode != 0:
        # the patch was written against the original snapshot; fall back to a 3-way merge onto the repaired tree
        r = subprocess.run(["git", "-C", str(wt), "apply", "-3", str(patch)])
        if r.returncode != 0:
            print("PATCH DOES NOT APPLY"); sys.exit(9)
        print("(patch applied with 3-way merge)")
    broot = wt / ".vbuild"
    seed = Path("/verif/.build/plain")
    dst = broot / "plain"; dst.mkdir(parents=True)
    for sub in ("obj", "gen", "pch", "hobj", "bin"):
        if (seed / sub).exists(): shutil.copytree(seed / sub, dst / sub)
    if (seed / "libhgraph_tree.a").exists(): shutil.copy2(seed / "libhgraph_tree.a", dst / "libhgraph_tree.a")
    for d in list(dst.rglob("*.d")):
        t = d.read_text().replace("/verif/.build", str(broot)).replace("/repo/", str(wt) + "/")
        d.write_text(t)
    env = dict(os.environ, VERIF_REPO=str(wt), VERIF_BUILD_ROOT=str(broot), VERIF_SCRATCH="1")
    for p in props:
        r = subprocess.run(["/verif/check", p, "--tier", tier], env=env, capture_output=True, text=True, cwd="/verif")
        lines = [l for l in (r.stdout + r.stderr).splitlines() if not l.startswith("[build]")]
        print(f"=== {p} rc={r.returncode}")
        print("\n".join(lines[:14]))
        rc_all = max(rc_all, r.returncode)
finally:
    subprocess.run(["git", "-C", "/repo", "worktree", "remove", "--force", str(wt)])
    shutil.rmtree(wt, ignore_errors=True)
sys.exit(rc_all)
