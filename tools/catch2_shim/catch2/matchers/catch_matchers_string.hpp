#pragma once
#include <string>
namespace Catch { namespace Matchers {
    struct ContainsSubstringMatcher { std::string s; bool match(const std::string &x) const { return x.find(s) != std::string::npos; } };
    inline ContainsSubstringMatcher ContainsSubstring(std::string s) { return {std::move(s)}; }
    struct EqualsMatcher { std::string s; bool match(const std::string &x) const { return x == s; } };
    inline EqualsMatcher Equals(std::string s) { return {std::move(s)}; }
    struct StartsWithMatcher { std::string s; bool match(const std::string &x) const { return x.rfind(s, 0) == 0; } };
    inline StartsWithMatcher StartsWith(std::string s) { return {std::move(s)}; }
}}
