// Minimal stand-in for Catch2 (not installed in this sandbox): enough to compile and run the in-tree tests/cpp files as a
// regression aid when judging a repair. Not used by any check.
#pragma once
#include <cstdio>
#include <exception>
#include <functional>
#include <string>
#include <vector>
namespace catch_shim
{
    struct Case { const char *name; std::function<void()> fn; };
    inline std::vector<Case> &cases() { static std::vector<Case> c; return c; }
    inline int &failures() { static int f = 0; return f; }
    inline int &assertions() { static int a = 0; return a; }
    struct Reg { Reg(const char *n, void (*f)()) { cases().push_back({n, f}); } };
    struct Abort {};
    inline void report(bool ok, const char *expr, const char *file, int line, bool fatal)
    {
        ++assertions();
        if (ok) return;
        ++failures();
        std::printf("  FAILED %s:%d: %s\n", file, line, expr);
        if (fatal) throw Abort{};
    }
    inline int run_all()
    {
        int failed_cases = 0;
        for (auto &c : cases())
        {
            const int before = failures();
            try { c.fn(); }
            catch (const Abort &) {}
            catch (const std::exception &e) { ++failures(); std::printf("  EXCEPTION in '%s': %s\n", c.name, e.what()); }
            if (failures() != before) { ++failed_cases; std::printf("CASE FAILED: %s\n", c.name); }
        }
        std::printf("%zu cases, %d failed; %d assertions, %d failed\n", cases().size(), failed_cases, assertions(), failures());
        return failures() ? 1 : 0;
    }
}
#define CS_CAT2(a, b) a##b
#define CS_CAT(a, b) CS_CAT2(a, b)
#define TEST_CASE(...) static void CS_CAT(cs_case_, __LINE__)(); static catch_shim::Reg CS_CAT(cs_reg_, __LINE__){CS_FIRST(__VA_ARGS__, ""), &CS_CAT(cs_case_, __LINE__)}; static void CS_CAT(cs_case_, __LINE__)()
#define CS_FIRST(a, ...) a
#define CHECK(...) catch_shim::report(static_cast<bool>(__VA_ARGS__), #__VA_ARGS__, __FILE__, __LINE__, false)
#define REQUIRE(...) catch_shim::report(static_cast<bool>(__VA_ARGS__), #__VA_ARGS__, __FILE__, __LINE__, true)
#define CHECK_FALSE(...) catch_shim::report(!static_cast<bool>(__VA_ARGS__), "!(" #__VA_ARGS__ ")", __FILE__, __LINE__, false)
#define REQUIRE_FALSE(...) catch_shim::report(!static_cast<bool>(__VA_ARGS__), "!(" #__VA_ARGS__ ")", __FILE__, __LINE__, true)
#define FAIL(...) do { std::string cs_m; { cs_m = (std::string{} + __VA_ARGS__); } catch_shim::report(false, cs_m.c_str(), __FILE__, __LINE__, true); } while (0)
#define INFO(...) do {} while (0)
#define CAPTURE(...) do {} while (0)
#define SECTION(...) if (true)
#define CS_THROWS(fatal, ...) do { bool cs_t = false; try { (void)(__VA_ARGS__); } catch (...) { cs_t = true; } catch_shim::report(cs_t, "throws: " #__VA_ARGS__, __FILE__, __LINE__, fatal); } while (0)
#define CHECK_THROWS(...) CS_THROWS(false, __VA_ARGS__)
#define REQUIRE_THROWS(...) CS_THROWS(true, __VA_ARGS__)
#define CHECK_THROWS_AS(expr, ...) CS_THROWS(false, expr)
#define REQUIRE_THROWS_AS(expr, ...) CS_THROWS(true, expr)
#define CS_NOTHROW(fatal, ...) do { bool cs_t = false; try { (void)(__VA_ARGS__); } catch (...) { cs_t = true; } catch_shim::report(!cs_t, "does not throw: " #__VA_ARGS__, __FILE__, __LINE__, fatal); } while (0)
#define CHECK_NOTHROW(...) CS_NOTHROW(false, __VA_ARGS__)
#define REQUIRE_NOTHROW(...) CS_NOTHROW(true, __VA_ARGS__)
#define CS_THROWS_WITH(fatal, expr, matcher) do { bool cs_ok = false; std::string cs_w; try { (void)(expr); } catch (const std::exception &e) { cs_w = e.what(); cs_ok = (matcher).match(cs_w); } catch (...) {} catch_shim::report(cs_ok, ("throws with: " #expr " / got: " + cs_w).c_str(), __FILE__, __LINE__, fatal); } while (0)
#define CHECK_THROWS_WITH(expr, matcher) CS_THROWS_WITH(false, expr, matcher)
#define REQUIRE_THROWS_WITH(expr, matcher) CS_THROWS_WITH(true, expr, matcher)
#define CHECK_THAT(value, matcher) catch_shim::report((matcher).match(value), #value " " #matcher, __FILE__, __LINE__, false)
#define REQUIRE_THAT(value, matcher) catch_shim::report((matcher).match(value), #value " " #matcher, __FILE__, __LINE__, true)
#ifdef CATCH_SHIM_MAIN
int main() { return catch_shim::run_all(); }
#endif
#define SUCCEED(...) catch_shim::report(true, "", __FILE__, __LINE__, false)
#define FAIL_CHECK(...) do { std::string cs_m; { cs_m = (std::string{} + __VA_ARGS__); } catch_shim::report(false, cs_m.c_str(), __FILE__, __LINE__, false); } while (0)
#define WARN(...) do {} while (0)
#define UNSCOPED_INFO(...) do {} while (0)
