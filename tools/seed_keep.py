#!/usr/bin/env python3
"""seed_keep.py <prop> <name> <srcdir> <detected_by> <needs...>  — file a confirmed seeded change under /verif/seeded/."""
import json, shutil, sys, time
from pathlib import Path
prop, name, src, detected = sys.argv[1:5]
needs = " ".join(sys.argv[5:])
dst = Path("/verif/seeded") / prop / name
dst.mkdir(parents=True, exist_ok=True)
for f in ("patch.diff", "demo.cpp", "notes.md"):
    if (Path(src) / f).exists():
        shutil.copy2(Path(src) / f, dst / f)
res = Path(f"/tmp/seedcheck_{prop}.res")
meta = {
    "property": prop, "name": name, "needs_to_manifest": needs,
    "confirmed": {"how": "/tmp/seedcheck.sh: git apply in a scratch worktree, demo built against the patched tree fails; "
                         "reverted, rebuilt, demo passes; pinned pytest suite unaffected (imports the installed wheel)",
                  "output": res.read_text() if res.exists() else ""},
    "detected_by": detected, "filed": time.strftime("%Y-%m-%d %H:%M"),
}
(dst / "meta.json").write_text(json.dumps(meta, indent=1) + "\n")
print(dst)
