#!/usr/bin/env python3
"""run_intree_test.py <worktree> <tests/cpp/test_x.cpp>...  — compile in-tree Catch2 test files against a worktree with the
Catch2 stand-in (tools/catch2_shim) and run them. A regression aid for judging repairs; no check depends on it."""
import os, subprocess, sys, shutil, tempfile
from pathlib import Path
wt = Path(sys.argv[1]).resolve()
os.environ["VERIF_REPO"] = str(wt); broot = wt / ".vbuild"; os.environ["VERIF_BUILD_ROOT"] = str(broot)
VERIF = Path(__file__).resolve().parent.parent
sys.path.insert(0, str(VERIF / "vlib"))
dst = broot / "plain"
if not dst.exists():
    seed = VERIF / ".build" / "plain"; dst.mkdir(parents=True)
    for sub in ("obj", "gen", "pch"):
        if (seed / sub).exists(): shutil.copytree(seed / sub, dst / sub)
    if (seed / "libhgraph_tree.a").exists(): shutil.copy2(seed / "libhgraph_tree.a", dst / "libhgraph_tree.a")
    for d in list(dst.rglob("*.d")):
        d.write_text(d.read_text().replace(str(VERIF / ".build"), str(broot)).replace("/repo/", str(wt) + "/"))
import vbuild
rc = 0
for t in sys.argv[2:]:
    src = wt / t
    with vbuild.Lock("plain"):
        lib = vbuild.build_tree("plain", verbose=False)
    exe = broot / "plain" / "bin" / ("intree_" + src.stem)
    exe.parent.mkdir(parents=True, exist_ok=True)
    cmd = [vbuild.CXX, *vbuild.base_flags("plain"), "-DCATCH_SHIM_MAIN", "-I", str(VERIF / "tools" / "catch2_shim"), "-I", str(wt / "tests" / "cpp"),
           str(src), "-o", str(exe), "-Wl,--start-group", str(lib), "-Wl,--end-group", *vbuild.link_flags("plain")]
    r = subprocess.run(cmd, capture_output=True, text=True)
    if r.returncode != 0:
        print(f"== {t}: DOES NOT COMPILE under the shim\n{r.stderr[-1500:]}"); rc = 2; continue
    r = subprocess.run([str(exe)], capture_output=True, text=True, timeout=1800)
    print(f"== {t}: rc={r.returncode}\n" + "\n".join((r.stdout + r.stderr).splitlines()[-12:]))
    rc = max(rc, r.returncode)
sys.exit(rc)
