#!/usr/bin/env python3
"""seed_file.py <prop> <m> <name> <detected_by> <needs> [--patch <rebased patch>] [--st <seed_test output>] [--src <agent dir>] [--res <seedcheck result>]
File a self-confirmed seeded change (agent deliverable in /tmp/seed_out/<prop>/<m>, seedcheck result in /tmp/seedcheck_<prop>_<m>.res)."""
import json, shutil, sys, time
from pathlib import Path
args = sys.argv[1:]
prop, m, name, det, needs = args[:5]
opt = dict(zip(args[5::2], args[6::2]))
src = Path(opt["--src"]) if "--src" in opt else Path(f"/tmp/seed_out/{prop}/{m}")
dst = Path("/verif/seeded") / prop / name
dst.mkdir(parents=True, exist_ok=True)
for f in ("demo.cpp", "notes.md"):
    if (src / f).exists():
        shutil.copy2(src / f, dst / f)
if "--patch" in opt:
    shutil.copy2(opt["--patch"], dst / "patch.diff")
    shutil.copy2(src / "patch.diff", dst / "patch.original.diff")
else:
    shutil.copy2(src / "patch.diff", dst / "patch.diff")
res = Path(opt["--res"]) if "--res" in opt else Path(f"/tmp/seedcheck_{prop}_{m}.res")
st = Path(opt.get("--st", f"/tmp/st_{prop}_{m}.out"))
meta = {"property": prop, "name": name, "needs_to_manifest": needs,
        "confirmed": {"how": "/tmp/seedcheck.sh: git apply in a scratch worktree, demo built against the patched tree fails; reverted, rebuilt, "
                             "demo passes; pinned pytest suite unaffected (imports the installed wheel)",
                      "output": res.read_text()[:3000] if res.exists() else ""},
        "detected_by": det,
        "check_output": "\n".join(st.read_text().splitlines()[:12])[:3000] if st.exists() else "",
        "filed": time.strftime("%Y-%m-%d %H:%M")}
if "--patch" in opt:
    meta["note"] = "patch.diff is the agent's patch.original.diff rebased onto the tree after the fix commits"
(dst / "meta.json").write_text(json.dumps(meta, indent=1) + "\n")
print(dst)
