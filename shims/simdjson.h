// Minimal stand-in: conversion_impl.cpp only needs simdjson::validate_utf8. simdjson >= 4.5 is not in this image.
#pragma once
#include <cstddef>
#include <string_view>
namespace simdjson {
    inline bool validate_utf8(const char *buf, std::size_t len) noexcept {
        const unsigned char *s = reinterpret_cast<const unsigned char *>(buf);
        std::size_t i = 0;
        while (i < len) {
            unsigned char c = s[i];
            std::size_t n = 0; unsigned cp = 0;
            if (c < 0x80) { ++i; continue; }
            else if ((c & 0xE0) == 0xC0) { n = 1; cp = c & 0x1F; if (cp < 2) return false; }
            else if ((c & 0xF0) == 0xE0) { n = 2; cp = c & 0x0F; }
            else if ((c & 0xF8) == 0xF0) { n = 3; cp = c & 0x07; }
            else return false;
            for (std::size_t k = 1; k <= n; ++k) { if (i + k >= len) return false; if ((s[i + k] & 0xC0) != 0x80) return false; cp = (cp << 6) | (s[i + k] & 0x3F); }
            if (n == 2 && (cp < 0x800 || (cp >= 0xD800 && cp <= 0xDFFF))) return false;
            if (n == 3 && (cp < 0x10000 || cp > 0x10FFFF)) return false;
            i += n + 1;
        }
        return true;
    }
    inline bool validate_utf8(std::string_view sv) noexcept { return validate_utf8(sv.data(), sv.size()); }
}
