// libstdc++ 12 has no <chrono> stream insertion for sys_time / year_month_day (C++20 chrono I/O arrived in
// GCC 13). The tree uses them for diagnostics only (types/temporal.cpp). Force-included by the verif build.
#pragma once
#ifdef __cplusplus
#include <chrono>
#include <ostream>
#include <cstdio>
#if defined(__GLIBCXX__) && (_GLIBCXX_RELEASE < 13)
namespace std::chrono {
    inline std::ostream &operator<<(std::ostream &os, const year_month_day &ymd) {
        char buf[48];
        std::snprintf(buf, sizeof buf, "%04d-%02u-%02u", static_cast<int>(ymd.year()),
                      static_cast<unsigned>(ymd.month()), static_cast<unsigned>(ymd.day()));
        return os << buf;
    }
    template <class D>
    inline std::ostream &operator<<(std::ostream &os, const sys_time<D> &tp) {
        const auto dp = floor<days>(tp);
        const year_month_day ymd{dp};
        const auto tod = duration_cast<microseconds>(tp - dp);
        const long long us = tod.count();
        char buf[64];
        std::snprintf(buf, sizeof buf, " %02lld:%02lld:%02lld.%06lld", us / 3600000000LL, (us / 60000000LL) % 60,
                      (us / 1000000LL) % 60, us % 1000000LL);
        return os << ymd << buf;
    }
}
#endif
#endif
